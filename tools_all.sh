#!/bin/sh
# run every check of one tier proof-only (helper): ./tools_all.sh quick|thorough [extra check.py args]
tier=${1:-quick}; shift
./setup.sh >/dev/null
for i in 01 02 03 04 05 06 07 08 09 10 11 12 13 14 15 16 17 18 19 20; do
  ./check.py C$i --tier $tier "$@" 2>&1 | tail -1 | cut -c1-200
done
