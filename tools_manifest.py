"""regenerate MANIFEST.json from the table below (helper; run by hand when claims change)"""
import json, os
HERE = os.path.dirname(os.path.abspath(__file__))
props = [json.loads(l) for l in open(os.path.join(HERE, "properties.jsonl"))]
TB = "trusted: the pyvc VC generator (self-tested each run by seeded faults that must be refuted), z3/cvc5, the stated Python semantics, callee/numpy models in contracts/models.py (conformance-tested), listed axioms; bounded-tier numbers are never counted as proved"
CLAIMS = {
 # id: (category, technique, text, note, design_ref)
 "C06": ("proof", "contract-based deductive verification: AST->z3 VCs of find_domain rules vs numpy shape/value-range specs; bounded run-time contracts as labelled stand-in",
         "Every find_domain rule of funsor/domains.py, broadcast_shape, parse_slice/parse_ellipsis and Slice's typing are proved against numpy's documented shape rules and exact integer value ranges for all sizes (symbolic) within a stated rank bound; two genuine defects are recorded as known findings with the rest of their clauses proved. The lazy-vs-eager typing of whole expressions is checked by the bounded tier only.",
         TB + "; structure bound: rank <= 3 (4 thorough), <= 3 operands", "3/C06"),
 "C17": ("proof", "contract-based deductive verification: contracts on push/pop/__enter__/__exit__/memoize/AdjointTape over an arbitrary-depth symbolic stack + z3 sequence lemma for all nestings + AST frame scan",
         "push/pop/get, Interpretation.__enter__/__exit__ (normal and exceptional exits), PrioritizedInterpretation.__init__/interpret, memoize and AdjointTape.__enter__ are proved against stack contracts for every stack depth; a frame scan of all of funsor/ proves nobody else writes the stack and every with-block is plain; the nesting lemma's cases are discharged over z3 sequences (the structural induction over nesting words is a paper step).",
         TB + "; Python's with-statement semantics; induction over nesting words not mechanised", "3/C17"),
}
checks = []
for p in props:
    if p["id"] in CLAIMS:
        cat, tech, text, note, ref = CLAIMS[p["id"]]
        checks.append(dict(property_id=p["id"], quick_cmd="./check.py %s --tier quick" % p["id"], thorough_cmd="./check.py %s --tier thorough" % p["id"],
            evidence_file="evidence/%s.json" % p["id"], replay_cmd_template="./check.py %s --replay {path}" % p["id"], engine="pyvc",
            level_claimed=dict(category=cat, text=text, design_ref=ref), level_note=note, technique=tech))
m = dict(version=1, setup_cmd="./setup.sh",
    hooks=dict(guard="FUNSOR_VERIF", enable="no hooks: contracts are sidecar files under /verif/contracts; the verified source is re-read from /repo's working tree on every run", baseline_off_cmd="cd /repo && /venv/bin/python -m pytest -ra -q -p no:cacheprovider --timeout=900 --continue-on-collection-errors", source_commits=[], add_only=True),
    engines=[dict(name="pyvc", path="pyvc/", serves_properties=sorted(CLAIMS), kind_free_text="verification-condition generator: meta-circular symbolic executor of the real function ASTs + sidecar contracts, discharged by z3 (cvc5 for unknowns); lemma layer; AST frame scans; bounded run-time contract drivers (rtc/) as labelled stand-in")],
    checks=checks, notes="see DESIGN.md; known findings in known_findings.json; fix: commits in /repo are listed there as fixed entries",
    not_applicable=[dict(property_id=p["id"], reason="check under construction in this session (not yet claimed)") for p in props if p["id"] not in CLAIMS])
json.dump(m, open(os.path.join(HERE, "MANIFEST.json"), "w"), indent=1)
import jsonschema
jsonschema.validate(m, json.load(open("/root/.vp/MANIFEST.schema.json")))
print("MANIFEST valid;", len(checks), "claimed")
