"""regenerate MANIFEST.json from the table below (helper; run by hand when claims change)"""
import json, os
HERE = os.path.dirname(os.path.abspath(__file__))
props = [json.loads(l) for l in open(os.path.join(HERE, "properties.jsonl"))]
TB = "trusted: the pyvc VC generator (self-tested each run by seeded faults that must be refuted), z3/cvc5, the stated Python semantics, callee/numpy models in contracts/models.py (conformance-tested), listed axioms; bounded-tier numbers are never counted as proved"
CLAIMS = {
 # id: (category, technique, text, note, design_ref)
 "C06": ("proof", "contract-based deductive verification: AST->z3 VCs of find_domain rules vs numpy shape/value-range specs; bounded run-time contracts as labelled stand-in",
         "Every find_domain rule of funsor/domains.py, broadcast_shape, parse_slice/parse_ellipsis and Slice's typing are proved against numpy's documented shape rules and exact integer value ranges for all sizes (symbolic) within a stated rank bound; two genuine defects are recorded as known findings with the rest of their clauses proved. The lazy-vs-eager typing of whole expressions is checked by the bounded tier only.",
         TB + "; structure bound: rank <= 3 (4 thorough), <= 3 operands", "3/C06"),
 "C17": ("proof", "contract-based deductive verification: contracts on push/pop/__enter__/__exit__/memoize/AdjointTape over an arbitrary-depth symbolic stack + z3 sequence lemma for all nestings + AST frame scan",
         "push/pop/get, Interpretation.__enter__/__exit__ (normal and exceptional exits), PrioritizedInterpretation.__init__/interpret, memoize and AdjointTape.__enter__ are proved against stack contracts for every stack depth; a frame scan of all of funsor/ proves nobody else writes the stack and every with-block is plain; the nesting lemma's cases are discharged over z3 sequences (the structural induction over nesting words is a paper step).",
         TB + "; Python's with-statement semantics; induction over nesting words not mechanised", "3/C17"),
 "C07": ("proof", "contract-based deductive verification: get-or-create contracts on the five intern tables executed on the real bodies, key-injectivity contract, table-invariant lemma (z3 arrays), AST ownership scan; bounded histories as labelled stand-in",
         "reflect, make_hash_key, ArrayType.__getitem__, OpMeta.__call__, GenericTypeMeta.__getitem__ and Memoize.interpret are proved against get-or-create contracts (hit returns the cached object and constructs nothing; miss constructs from exactly the arguments and stores under exactly their key); a lemma shows the table invariant is preserved and that equal keys give the identical object; an AST scan proves no other code touches the tables and that they are weak. Garbage collection itself is axiomatised; construct/drop/gc/pickle histories are explored by the bounded tier only.",
         TB + "; axioms: WeakValueDictionary semantics, id() unique among live objects", "3/C07"),
 "C15": ("proof", "contract-based deductive verification: table entries extracted from the AST, op meanings from their definitions, one algebraic VC per entry over extended reals / booleans (z3)",
         "Every UNITS / DISTRIBUTIVE_OPS / *_INVERSES / PRODUCT_TO_POWER statement found in ops/builtin.py and ops/array.py becomes an obligation (unit, distributivity on the declared carrier, inverse, power-by-induction) proved with the op bodies executed symbolically; floats are idealised as extended reals with listed exp/log axioms, so float edge behaviour (scalar = array, no NaN, limits at -inf) is checked by the bounded tier only.",
         TB + "; A-real: machine floats treated as extended reals; ground exp/log axioms listed in the evidence", "3/C15"),
 "C16": ("proof", "contract-based deductive verification: the real deep_issubclass family executed over an abstract type grammar with symbolic leaves and arbitrary class hierarchies (z3); get-or-compute contract of partial_call; first-match-minimal lemma",
         "Reflexivity and transitivity of the parametric subtype relation are proved for all type terms of nesting depth <= 1 / arity <= 2 with symbolic leaves (Any or any class, any hierarchy) by executing the real bodies; partial_call is proved to return the dispatched function for the deep types independently of cache state; a lemma shows the first match in a topological order is most specific. multipledispatch's ordering is an assumed third-party contract; the real registries are checked by the bounded tier. One genuine reflexivity defect (Union listing Any) is a recorded known finding.",
         TB + "; type terms of depth <= 1; multipledispatch ordering assumed", "3/C16"),
 "C19": ("proof", "contract-based deductive verification: layout functions executed over a symbolic n-d array theory (all sizes and contents symbolic), index-map equalities discharged by z3; round trip as a lemma executing both real bodies",
         "Tensor.__init__, align_tensor, Tensor.align, tensor_to_funsor, tensor_to_data and the to_funsor/to_data round trip are proved element-wise (every value stays with its name) for every size and content, for every naming/permutation within a stated bound on the number of dimensions; numpy's permute/reshape/expand are models conformance-tested against numpy. Gaussian/Contraction/Delta align and materialize are covered by the bounded tier only.",
         TB + "; structure bound: <= 3 names (4 thorough), event rank <= 2; sizes >= 1", "3/C19"),
 "C20": ("other", "contract-based deductive verification: static frame analysis (may-alias scan of every function in the core modules) + contracts on the two array-writing ops; run-time frame contracts (snapshots) as labelled bounded stand-in",
         "A frame obligation per core module (no write through a parameter-reachable location, no in-place dunder) is discharged by an AST may-alias scan whose residual sites are cleared by a hand-reviewed allow-list (printed in the evidence, so this is not called a proof); _scatter/_scatter_add are proved to write only into a private copy; the scan is self-tested with seeded writes. A new definite write into term/array state is reported as a violation, any other uncleared site as undecided.",
         TB + "; the reviewed allow-list frame/mutation_allow.json; numpy C-level writes through unknown views are only covered by the bounded tier", "3/C20"),
}
checks = []
for p in props:
    if p["id"] in CLAIMS:
        cat, tech, text, note, ref = CLAIMS[p["id"]]
        checks.append(dict(property_id=p["id"], quick_cmd="./check.py %s --tier quick" % p["id"], thorough_cmd="./check.py %s --tier thorough" % p["id"],
            evidence_file="evidence/%s.json" % p["id"], replay_cmd_template="./check.py %s --replay {path}" % p["id"], engine="pyvc",
            level_claimed=dict(category=cat, text=text, design_ref=ref), level_note=note, technique=tech))
m = dict(version=1, setup_cmd="./setup.sh",
    hooks=dict(guard="FUNSOR_VERIF", enable="no hooks: contracts are sidecar files under /verif/contracts; the verified source is re-read from /repo's working tree on every run", baseline_off_cmd="cd /repo && /venv/bin/python -m pytest -ra -q -p no:cacheprovider --timeout=900 --continue-on-collection-errors", source_commits=[], add_only=True),
    engines=[dict(name="pyvc", path="pyvc/", serves_properties=sorted(CLAIMS), kind_free_text="verification-condition generator: meta-circular symbolic executor of the real function ASTs + sidecar contracts, discharged by z3 (cvc5 for unknowns); lemma layer; AST frame scans; bounded run-time contract drivers (rtc/) as labelled stand-in")],
    checks=checks, notes="see DESIGN.md; known findings in known_findings.json; fix: commits in /repo are listed there as fixed entries",
    not_applicable=[dict(property_id=p["id"], reason="check under construction in this session (not yet claimed)") for p in props if p["id"] not in CLAIMS])
json.dump(m, open(os.path.join(HERE, "MANIFEST.json"), "w"), indent=1)
import jsonschema
jsonschema.validate(m, json.load(open("/root/.vp/MANIFEST.schema.json")))
print("MANIFEST valid;", len(checks), "claimed")
