#!/bin/sh
# Build the overlay interpreter: /venv's Python 3.12 (+funsor, numpy) plus z3-solver etc. from the offline wheelhouse.
set -e
cd "$(dirname "$0")"
V=.venv
if [ -x "$V/bin/python" ] && "$V/bin/python" -c "import z3, funsor, numpy, jsonschema" 2>/dev/null; then
  echo "overlay venv ok"; exit 0
fi
rm -rf "$V"
/venv/bin/python -m venv "$V"
PIP_NO_INDEX=1 "$V/bin/python" -m pip install -q --no-index --find-links /opt/veriftools/wheels z3-solver jsonschema deal icontract cvc5 >/dev/null 2>&1 || \
PIP_NO_INDEX=1 "$V/bin/python" -m pip install -q --no-index --find-links /opt/veriftools/wheels z3-solver jsonschema
SP=$("$V/bin/python" -c "import sysconfig; print(sysconfig.get_paths()['purelib'])")
echo "import site; site.addsitedir('/venv/lib/python3.12/site-packages')" > "$SP/_venv_overlay.pth"
"$V/bin/python" -c "import z3, funsor, numpy, jsonschema; print('overlay venv built: z3', z3.get_version_string(), 'numpy', numpy.__version__)"
