"""Static frame / state-ownership scans (DESIGN 2.6): mechanical AST checks over ALL of /repo/funsor proving
"nothing else writes this state".  Each check is an obligation in the same record format as proof obligations."""
import ast
import os

from pyvc.core import REPO

CORE_EXCLUDE = ("minipyro.py", "testing.py", "distribution.py", "adam.py", "elbo.py", "recipes.py", "instrument.py", "op_factory.py", "syntax.py")


def funsor_files(include_all=True):
    root = os.path.join(REPO, "funsor")
    out = []
    for d, _, fs in os.walk(root):
        if "torch" in d or "jax" in d.split(os.sep)[-1:]:
            continue
        for f in sorted(fs):
            if f.endswith(".py"):
                rel = os.path.relpath(os.path.join(d, f), REPO)
                out.append(rel)
    return sorted(out)


_cache = {}


def parse(rel):
    full = os.path.join(REPO, rel)
    st = os.stat(full)
    key = (rel, st.st_mtime_ns, st.st_size)
    if key not in _cache:
        src = open(full).read()
        tree = ast.parse(src)
        for node in ast.walk(tree):
            for child in ast.iter_child_nodes(node):
                child._parent = node
        _cache[key] = (src, tree)
    return _cache[key]


def enclosing(node):
    """dotted name of the enclosing def/class chain ('<module>' at top level)"""
    names = []
    n = getattr(node, "_parent", None)
    while n is not None:
        if isinstance(n, (ast.FunctionDef, ast.AsyncFunctionDef, ast.ClassDef)):
            names.append(n.name)
        n = getattr(n, "_parent", None)
    return ".".join(reversed(names)) or "<module>"


def ob(status, detail="", **kw):
    return dict(status=status, detail=detail, model=None, replay_src=None, contract="frame-scan", cls="frame", solver_s=0.0, backend="ast-scan", assumptions=kw.get("assumptions", []))


def obligations_for(prop, tier, jobs=1):
    out = {}
    if prop == "C17":
        from . import stack_scan

        out.update(stack_scan.run())
    if prop in ("C03", "C17"):
        from . import chains_scan

        out.update(chains_scan.run())
    if prop == "C07":
        from . import tables_scan

        out.update(tables_scan.run())
    if prop == "C20":
        from . import mutation_scan

        out.update(mutation_scan.run(tier))
    return out
