"""C17 frame conditions: who may touch the interpretation stack.

Obligations (each decided by a complete scan of every .py file under /repo/funsor):
  stack-writers          `_STACK` of funsor/interpreter.py is mutated only inside push_interpretation / pop_interpretation
                         (every other occurrence is a read: _STACK[-1], _STACK[0]) and is never re-bound or exported by alias
  push-pop-callers       push_interpretation / pop_interpretation are called only from Interpretation.__enter__ /
                         Interpretation.__exit__ and at module level of interpretations.py
  module-init            module level of interpretations.py pushes exactly `reflect` then `eager` (the default is eager,
                         reflect sits below it)
  enter-exit-overrides   the only definitions of __enter__/__exit__ in classes deriving from Interpretation are those under
                         contract (Interpretation.__enter__, Interpretation.__exit__, AdjointTape.__enter__)
  no-manual-enter-exit   no call of .__enter__( / .__exit__( anywhere except super().__enter__() inside an __enter__
  with-blocks-plain      every `with` statement in funsor/ is a plain statement (Python guarantees __exit__ runs iff
                         __enter__ returned); `yield` inside a `with` only in functions decorated @contextmanager
"""
import ast

from . import enclosing, funsor_files, ob, parse

MUTATORS = {"append", "pop", "insert", "extend", "remove", "clear", "reverse", "sort", "__setitem__", "__delitem__", "__iadd__"}
CONTRACTED_OVERRIDES = {("funsor/interpretations.py", "Interpretation", "__enter__"), ("funsor/interpretations.py", "Interpretation", "__exit__"), ("funsor/adjoint.py", "AdjointTape", "__enter__")}


def run():
    out = {}
    writers, aliases, callers, overrides, manual, withs = [], [], [], [], [], []
    classes = {}  # name -> (file, bases, node)
    files = funsor_files()
    for rel in files:
        src, tree = parse(rel)
        for node in ast.walk(tree):
            if isinstance(node, ast.ClassDef):
                bases = [b.id if isinstance(b, ast.Name) else b.attr if isinstance(b, ast.Attribute) else "?" for b in node.bases]
                classes.setdefault(node.name, []).append((rel, bases, node))
    # which classes derive from Interpretation (by name, transitively)
    derived = {"Interpretation"}
    changed = True
    while changed:
        changed = False
        for name, defs in classes.items():
            for rel, bases, node in defs:
                if name not in derived and any(b in derived for b in bases):
                    derived.add(name)
                    changed = True
    for rel in files:
        src, tree = parse(rel)
        is_minipyro = rel.endswith("minipyro.py")
        for node in ast.walk(tree):
            # ---- _STACK occurrences
            if isinstance(node, ast.Name) and node.id == "_STACK" or isinstance(node, ast.Attribute) and node.attr == "_STACK":
                par = getattr(node, "_parent", None)
                where = "%s:%d %s" % (rel, node.lineno, enclosing(node))
                fn = enclosing(node)
                if isinstance(node, ast.Name) and isinstance(node.ctx, (ast.Store, ast.Del)) or isinstance(node, ast.Attribute) and isinstance(node.ctx, (ast.Store, ast.Del)):
                    if not (rel == "funsor/interpreter.py" and fn == "<module>" and isinstance(par, ast.Assign) and isinstance(par.value, ast.List) and not par.value.elts):
                        writers.append("re-bound at " + where)
                elif isinstance(par, ast.Attribute) and par.attr in MUTATORS:
                    if not (rel == "funsor/interpreter.py" and fn in ("push_interpretation", "pop_interpretation")):
                        writers.append("mutated (.%s) at %s" % (par.attr, where))
                elif isinstance(par, ast.Subscript) and isinstance(par.ctx, (ast.Store, ast.Del)):
                    writers.append("item store at " + where)
                elif isinstance(par, ast.AugAssign):
                    writers.append("augmented assignment at " + where)
                elif isinstance(par, ast.Subscript) and isinstance(par.ctx, ast.Load):
                    pass  # a read
                elif isinstance(par, ast.Attribute) and not par.attr.startswith("__"):
                    aliases.append("attribute .%s at %s" % (par.attr, where))
                elif isinstance(par, (ast.Call, ast.Assign, ast.Return, ast.Tuple, ast.List, ast.keyword)) and not (isinstance(par, ast.Assign) and node in par.targets):
                    aliases.append("escapes (passed / aliased / returned) at " + where)
            if isinstance(node, ast.ImportFrom) and any(a.name == "_STACK" for a in node.names):
                aliases.append("imported by name at %s:%d" % (rel, node.lineno))
            # ---- callers of push / pop
            if isinstance(node, ast.Call):
                f = node.func
                name = f.id if isinstance(f, ast.Name) else f.attr if isinstance(f, ast.Attribute) else None
                if name in ("push_interpretation", "pop_interpretation"):
                    fn = enclosing(node)
                    ok = rel == "funsor/interpretations.py" and fn in ("Interpretation.__enter__", "Interpretation.__exit__", "<module>")
                    if name == "push_interpretation" and fn == "Interpretation.__exit__" or name == "pop_interpretation" and fn in ("Interpretation.__enter__", "<module>"):
                        ok = False
                    if not ok:
                        callers.append("%s called at %s:%d in %s" % (name, rel, node.lineno, fn))
                if name in ("__enter__", "__exit__") and isinstance(f, ast.Attribute) and not is_minipyro:
                    is_super = isinstance(f.value, ast.Call) and isinstance(f.value.func, ast.Name) and f.value.func.id == "super"
                    if not (is_super and enclosing(node).endswith(name)):
                        manual.append("%s:%d %s" % (rel, node.lineno, enclosing(node)))
            # references to push/pop that are not calls (aliasing the functions)
            if isinstance(node, ast.Name) and node.id in ("push_interpretation", "pop_interpretation") and isinstance(node.ctx, ast.Load):
                par = getattr(node, "_parent", None)
                if not (isinstance(par, ast.Call) and par.func is node):
                    callers.append("%s referenced without being called at %s:%d" % (node.id, rel, node.lineno))
            # ---- overrides
            if isinstance(node, ast.FunctionDef) and node.name in ("__enter__", "__exit__"):
                cls = getattr(node, "_parent", None)
                if isinstance(cls, ast.ClassDef) and cls.name in derived:
                    if (rel, cls.name, node.name) not in CONTRACTED_OVERRIDES:
                        overrides.append("%s:%d %s.%s has no contract" % (rel, node.lineno, cls.name, node.name))
            # ---- with statements / yields
            if isinstance(node, (ast.With, ast.AsyncWith)) and not is_minipyro:
                for sub in ast.walk(node):
                    if isinstance(sub, (ast.Yield, ast.YieldFrom)):
                        fn = sub
                        while fn is not None and not isinstance(fn, (ast.FunctionDef, ast.Lambda)):
                            fn = getattr(fn, "_parent", None)
                        decos = [d.id if isinstance(d, ast.Name) else getattr(d, "attr", "") for d in getattr(fn, "decorator_list", [])]
                        if "contextmanager" not in decos:
                            withs.append("yield inside with outside a @contextmanager at %s:%d" % (rel, sub.lineno))
    # module init of interpretations.py
    src, tree = parse("funsor/interpretations.py")
    pushes = []
    for st in tree.body:
        if isinstance(st, ast.Expr) and isinstance(st.value, ast.Call) and isinstance(st.value.func, ast.Name) and st.value.func.id == "push_interpretation":
            a = st.value.args
            pushes.append(a[0].id if len(a) == 1 and isinstance(a[0], ast.Name) else "?")
    out["frame:C17/stack-writers"] = ob("discharged" if not writers else "refuted", "; ".join(writers))
    out["frame:C17/stack-not-aliased"] = ob("discharged" if not aliases else "undecided", "; ".join(aliases))
    out["frame:C17/push-pop-callers"] = ob("discharged" if not callers else "refuted", "; ".join(callers))
    out["frame:C17/module-init-pushes-reflect-then-eager"] = ob("discharged" if pushes == ["reflect", "eager"] else "refuted", "module-level pushes: %s" % pushes)
    out["frame:C17/enter-exit-overrides-under-contract"] = ob("discharged" if not overrides else "undecided", "; ".join(overrides))
    out["frame:C17/no-manual-enter-exit"] = ob("discharged" if not manual else "undecided", "; ".join(manual))
    out["frame:C17/with-blocks-plain"] = ob("discharged" if not withs else "undecided", "; ".join(withs))
    return out
