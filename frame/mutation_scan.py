"""C20 frame analysis: no function of funsor's core modules writes through a location reachable from one of its
parameters (numpy paths).  Intra-procedural may-alias analysis over the AST (DESIGN 2.6):

  * a value is FRESH when produced by a copying constructor / literal / comprehension / arithmetic / numpy allocation;
    every other value computed from a parameter (attribute, subscript, call result, view-returning numpy op, iteration)
    MAY ALIAS caller-visible state;
  * obligation per function: no mutating operation (item/attribute store, del, augmented assignment, in-place method,
    np.add.at / copyto / put / out= / nan_to_num(copy=False) / shuffle) is applied to a may-alias location;
  * calls into other repository functions are handled modularly (the callee carries the same obligation).

Sites the analysis cannot clear on the pinned tree are listed, with the reason they are benign, in
frame/mutation_allow.json (reviewed by hand; part of the trusted base, printed in the evidence).  On a changed tree:
  - a NEW site that definitely writes into term / array state (base is an attribute chain ending in a funsor data
    field, outside __init__)                                         -> obligation REFUTED  (violation)
  - any other new uncleared site                                     -> obligation UNDECIDED (needs a contract)
"""
import ast
import json
import os

from . import CORE_EXCLUDE, enclosing, funsor_files, ob, parse

HERE = os.path.dirname(os.path.abspath(__file__))

MUTATING_METHODS = {
    "update", "pop", "popitem", "setdefault", "append", "extend", "insert", "remove", "sort", "reverse", "clear", "add", "discard",
    "move_to_end", "fill", "resize", "itemset", "put", "setflags", "partition", "byteswap", "appendleft", "popleft", "difference_update",
    "intersection_update", "symmetric_difference_update", "__setitem__", "__delitem__", "__iadd__", "__imul__",
}
FRESH_CALLS = {
    "OrderedDict", "dict", "list", "set", "tuple", "frozenset", "sorted", "defaultdict", "Counter", "deque", "reversed", "zip", "enumerate", "range", "map", "filter",
    "len", "int", "float", "str", "bool", "sum", "min", "max", "abs", "any", "all", "isinstance", "type", "id", "hash", "repr", "getattr_fresh", "slice",
    "copy", "deepcopy", "array", "zeros", "ones", "full", "empty", "arange", "eye", "stack", "concatenate", "zeros_like", "ones_like", "full_like", "empty_like",
    "new_zeros", "new_full", "new_arange", "new_eye", "tolist", "astype", "items", "keys", "values", "format", "join", "split", "union", "intersection", "difference",
    "reduce_fresh", "gensym", "namedtuple", "partial", "WeakValueDictionary", "count", "index", "startswith", "endswith", "get_origin", "get_args", "Variable", "Number", "Tensor",
}
FUNSOR_STATE_FIELDS = {
    "data", "inputs", "output", "fresh", "bound", "_ast_values", "subs", "terms", "parts", "white_vec", "prec_sqrt", "point", "log_density", "args", "arg", "lhs", "rhs",
    "reduced_vars", "shape", "dtype", "defaults", "name", "op",
}
VIEW_FUNCS = {"reshape", "transpose", "swapaxes", "squeeze", "expand_dims", "broadcast_to", "ravel", "permute", "expand", "unsqueeze", "T", "view", "diagonal", "flatten_view", "asarray", "atleast_1d"}


class FuncScan(ast.NodeVisitor):
    def __init__(self, fn, rel, qual):
        self.fn, self.rel, self.qual = fn, rel, qual
        a = fn.args
        self.params = {x.arg for x in a.posonlyargs + a.args + a.kwonlyargs}
        if a.vararg:
            self.params.add(a.vararg.arg)
        if a.kwarg:
            self.params.add(a.kwarg.arg)
        self.fresh = set()  # local names currently known fresh
        self.alias = set(self.params)  # names that may alias caller-visible state
        self.sites = []
        self.is_init = fn.name in ("__init__", "__new__", "__init_subclass__", "__set_name__")

    # ---- expression classification
    def base_name(self, e):
        while isinstance(e, (ast.Attribute, ast.Subscript, ast.Starred)):
            e = e.value
        if isinstance(e, ast.Call):
            return None
        return e.id if isinstance(e, ast.Name) else None

    def is_fresh_expr(self, e):
        if isinstance(e, (ast.Constant, ast.List, ast.Dict, ast.Set, ast.Tuple, ast.ListComp, ast.DictComp, ast.SetComp, ast.GeneratorExp, ast.JoinedStr, ast.Compare, ast.BoolOp, ast.UnaryOp, ast.Lambda)):
            if isinstance(e, ast.BoolOp):
                return all(self.is_fresh_expr(v) for v in e.values)
            return True
        if isinstance(e, ast.BinOp):
            return True  # arithmetic / concatenation produce new objects (funsor classes define no in-place dunder: checked separately)
        if isinstance(e, ast.IfExp):
            return self.is_fresh_expr(e.body) and self.is_fresh_expr(e.orelse)
        if isinstance(e, ast.Call):
            f = e.func
            name = f.id if isinstance(f, ast.Name) else f.attr if isinstance(f, ast.Attribute) else None
            if name in FRESH_CALLS and not (name in ("array", "astype") and any(k.arg == "copy" and not (isinstance(k.value, ast.Constant) and k.value.value is True) for k in e.keywords)):
                return True  # (np.array(x, copy=False) / x.astype(t, copy=False) may return x itself: handled like a view below)
            if name in VIEW_FUNCS:
                return False
            # method call on a fresh local returns something not aliasing parameters only if no alias argument flows in
            args_alias = any(self.mentions_alias(a) for a in list(e.args) + [k.value for k in e.keywords])
            recv_alias = isinstance(f, ast.Attribute) and self.mentions_alias(f.value)
            return not (args_alias or recv_alias)
        if isinstance(e, ast.Name):
            return e.id not in self.alias
        if isinstance(e, (ast.Attribute, ast.Subscript)):
            return not self.mentions_alias(e)
        return False

    def mentions_alias(self, e):
        for n in ast.walk(e):
            if isinstance(n, ast.Name) and n.id in self.alias:
                return True
        return False

    def bind(self, target, value_fresh):
        if isinstance(target, ast.Name):
            if value_fresh:
                self.alias.discard(target.id)
                self.fresh.add(target.id)
            else:
                self.alias.add(target.id)
                self.fresh.discard(target.id)
        elif isinstance(target, (ast.Tuple, ast.List)):
            for t in target.elts:
                self.bind(t.value if isinstance(t, ast.Starred) else t, value_fresh)

    def flag(self, node, kind, base_expr):
        chain = ast.unparse(base_expr)
        definite = False
        e = base_expr
        # strip subscripts; look at the last attribute
        while isinstance(e, ast.Subscript):
            e = e.value
        if isinstance(e, ast.Attribute) and e.attr in FUNSOR_STATE_FIELDS and not self.is_init:
            definite = True
        self.sites.append(dict(file=self.rel, function=self.qual, line=node.lineno, kind=kind, target=chain, stmt=ast.unparse(node)[:160], definite=definite))

    def check_target_write(self, node, target, kind):
        if isinstance(target, (ast.Subscript, ast.Attribute)):
            base = target.value
            name = self.base_name(base)
            if isinstance(target, ast.Attribute) and isinstance(base, ast.Name) and base.id in ("self", "cls") and self.is_init:
                return  # object initialisation
            if name is None:
                if self.mentions_alias(base):
                    self.flag(node, kind, base)
                return
            if name in self.alias:
                self.flag(node, kind, base)

    # ---- statements (flow-insensitive within loops, sequential otherwise: good enough and conservative via `alias` growth)
    def visit_FunctionDef(self, node):
        if node is self.fn:
            for s in node.body:
                self.visit(s)
        # nested functions are scanned separately (their free variables are treated as parameters there)

    visit_AsyncFunctionDef = visit_FunctionDef

    def visit_Lambda(self, node):
        pass

    def visit_Assign(self, node):
        self.generic_visit(node.value) if False else self.visit(node.value)
        fresh = self.is_fresh_expr(node.value)
        for t in node.targets:
            self.check_target_write(node, t, "store")
            self.bind(t, fresh)

    def visit_AnnAssign(self, node):
        if node.value is not None:
            self.visit(node.value)
            self.check_target_write(node, node.target, "store")
            self.bind(node.target, self.is_fresh_expr(node.value))

    def visit_AugAssign(self, node):
        self.visit(node.value)
        t = node.target
        if isinstance(t, ast.Name):
            if t.id in self.alias and not self.immutable_rhs(node.value):
                self.flag(node, "augassign-name", t)
        else:
            self.check_target_write(node, t, "augassign")

    def immutable_rhs(self, v):
        # x op= <immutable> rebinding an immutable x: ints, strings, tuples, frozensets
        if isinstance(v, ast.Constant):
            return True
        if isinstance(v, ast.Tuple):
            return True
        if isinstance(v, ast.Call):
            f = v.func
            name = f.id if isinstance(f, ast.Name) else f.attr if isinstance(f, ast.Attribute) else None
            return name in ("frozenset", "tuple", "len", "int", "str", "size", "num_elements")
        if isinstance(v, ast.BinOp):
            return self.immutable_rhs(v.left) or self.immutable_rhs(v.right)
        if isinstance(v, (ast.Attribute, ast.Subscript)):
            return isinstance(v, ast.Attribute) and v.attr in ("size", "num_elements", "name", "shape")
        return False

    def visit_Delete(self, node):
        for t in node.targets:
            self.check_target_write(node, t, "del")

    def visit_For(self, node):
        self.visit(node.iter)
        self.bind(node.target, self.is_fresh_expr(node.iter) and not self.mentions_alias(node.iter))
        for s in node.body + node.orelse:
            self.visit(s)

    def visit_With(self, node):
        for it in node.items:
            self.visit(it.context_expr)
            if it.optional_vars is not None:
                self.bind(it.optional_vars, False)
        for s in node.body:
            self.visit(s)

    def visit_Call(self, node):
        f = node.func
        if isinstance(f, ast.Attribute) and f.attr in MUTATING_METHODS:
            base = f.value
            name = self.base_name(base)
            if (name is not None and name in self.alias) or (name is None and self.mentions_alias(base)):
                # dict.pop / get-like on kwargs is a local: **kwargs dicts are fresh per call
                if not (isinstance(base, ast.Name) and self.fn.args.kwarg and base.id == self.fn.args.kwarg.arg):
                    self.flag(node, "call." + f.attr, base)
        if isinstance(f, ast.Attribute) and f.attr == "at" and isinstance(f.value, ast.Attribute):  # np.add.at(x, ...)
            if node.args and self.mentions_alias(node.args[0]):
                self.flag(node, "ufunc.at", node.args[0])
        if isinstance(f, ast.Attribute) and f.attr in ("copyto", "put", "place", "putmask", "fill_diagonal") and node.args and self.mentions_alias(node.args[0]):
            self.flag(node, "np." + f.attr, node.args[0])
        if isinstance(f, ast.Attribute) and f.attr == "shuffle" and node.args and self.mentions_alias(node.args[0]):  # np.random.shuffle(x)
            self.flag(node, "np.shuffle", node.args[0])
        for k in node.keywords:
            if k.arg == "out" and self.mentions_alias(k.value):
                self.flag(node, "out=", k.value)
            # np.nan_to_num(x, copy=False) rewrites x in place (copy=False elsewhere -- np.array, astype -- only aliases, which the alias set tracks)
            if k.arg == "copy" and isinstance(k.value, ast.Constant) and k.value.value is False and isinstance(f, (ast.Attribute, ast.Name)) and (f.attr if isinstance(f, ast.Attribute) else f.id) == "nan_to_num" and node.args and self.mentions_alias(node.args[0]):
                self.flag(node, "nan_to_num(copy=False)", node.args[0])
        self.generic_visit(node)


def all_functions(tree):
    for node in ast.walk(tree):
        if isinstance(node, (ast.FunctionDef, ast.AsyncFunctionDef)):
            yield node


def scan_file(rel):
    src, tree = parse(rel)
    sites = []
    nfun = 0
    for fn in all_functions(tree):
        nfun += 1
        qual = (enclosing(fn) + "." if enclosing(fn) != "<module>" else "") + fn.name
        fs = FuncScan(fn, rel, qual)
        fs.visit(fn)
        sites += fs.sites
    # funsor classes define no in-place dunder
    inplace = []
    for node in ast.walk(tree):
        if isinstance(node, ast.FunctionDef) and node.name.startswith("__i") and node.name.endswith("__") and node.name not in ("__init__", "__iter__", "__int__", "__index__", "__invert__", "__instancecheck__", "__init_subclass__"):
            inplace.append("%s:%d %s" % (rel, node.lineno, node.name))
    return sites, nfun, inplace


def key(s):
    return "%s::%s::%s::%s" % (s["file"], s["function"], s["kind"], s["target"])


def run(tier="quick"):
    files = [f for f in funsor_files() if os.path.basename(f) not in CORE_EXCLUDE and "/torch" not in f and "/jax" not in f and "/pyro/" not in f]
    allow = {}
    p = os.path.join(HERE, "mutation_allow.json")
    if os.path.exists(p):
        allow = {a["key"]: a for a in json.load(open(p))["allow"]}
    out = {}
    total_fn = 0
    for rel in files:
        sites, nfun, inplace = scan_file(rel)
        total_fn += nfun
        new = [s for s in sites if key(s) not in allow]
        definite = [s for s in new if s["definite"]]
        maybe = [s for s in new if not s["definite"]]
        status = "discharged"
        detail = "%d functions; %d sites cleared by the reviewed allow-list" % (nfun, len(sites) - len(new))
        if definite:
            status = "refuted"
            detail = "definite write into term/array state: " + "; ".join("%s:%d %s [%s]" % (s["file"], s["line"], s["stmt"], s["function"]) for s in definite[:6])
        elif maybe:
            status = "undecided"
            detail = "uncleared possible write through an alias (needs a contract / review): " + "; ".join("%s:%d %s [%s]" % (s["file"], s["line"], s["stmt"], s["function"]) for s in maybe[:6])
        o = ob(status, detail, assumptions=["C20 frame scan: alias model of frame/mutation_scan.py; reviewed allow-list frame/mutation_allow.json (%d entries)" % len(allow)])
        out["frame:C20/no-write-through-parameters/%s" % rel] = o
        out["frame:C20/no-inplace-dunder/%s" % rel] = ob("discharged" if not inplace else "refuted", "; ".join(inplace))
    missed = selftest()
    if missed:
        out["frame:C20/scan-selftest"] = ob("crash", "seeded writes not flagged by the scan: %s" % (missed,))
    return out


SELFTEST = [
    # (file, anchor text, inserted statement): seeded frame faults the scan must flag as DEFINITE writes
    ("funsor/tensor.py", "def align_tensor(new_inputs, x, expand=False):", "    x.data[0] = 0\n"),
    ("funsor/terms.py", "    def eager_subs(self, subs):\n        assert len(subs) == 1 and subs[0][0] == self.name\n        value = subs[0][1]", "        self.inputs[self.name] = None\n"),
    ("funsor/cnf.py", "def _eager_contract_tensors(reduced_vars, terms, backend):", "    terms[0].data.fill(0)\n"),
    ("funsor/tensor.py", "def align_tensor(new_inputs, x, expand=False):", "    np.nan_to_num(x.data, copy=False)\n"),
]


def selftest():
    """the scan must flag each seeded write as a definite violation (guards against a scan that sees nothing)"""
    from pyvc.core import REPO

    missed = []
    for rel, anchor, stmt in SELFTEST:
        src = open(os.path.join(REPO, rel)).read()
        if anchor not in src:
            continue  # anchor moved: not applicable on this tree
        head, tail = src.split(anchor, 1)
        # insert after the def line / anchor block, skipping a docstring is unnecessary: statements may precede it for this test
        mutated = head + anchor + "\n" + stmt + tail
        tree = ast.parse(mutated)
        for node in ast.walk(tree):
            for child in ast.iter_child_nodes(node):
                child._parent = node
        hit = False
        for fn in all_functions(tree):
            qual = (enclosing(fn) + "." if enclosing(fn) != "<module>" else "") + fn.name
            fs = FuncScan(fn, rel, qual)
            fs.visit(fn)
            if any(s["definite"] and stmt.strip()[:12] in s["stmt"] for s in fs.sites):
                hit = True
        if not hit:
            missed.append((rel, stmt.strip()))
    return missed


if __name__ == "__main__":
    import sys

    files = [f for f in funsor_files() if os.path.basename(f) not in CORE_EXCLUDE]
    allsites = []
    for rel in files:
        sites, nfun, inplace = scan_file(rel)
        allsites += sites
    if "--dump" in sys.argv:
        for s in allsites:
            print("%s:%d [%s] %s %s :: %s%s" % (s["file"], s["line"], s["function"], s["kind"], s["target"], s["stmt"], "  DEFINITE" if s["definite"] else ""))
    print(len(allsites), "sites")
