"""C03 / C17: the priority chains of the built-in interpretations, read from the AST of funsor/interpretations.py (and
optimizer.py).  Obligations: every exact interpretation's chain ends in the total `reflect` (so interpret never returns None
and partial interpretations fall through to a total one), `reflect` is declared total, and `sequential`,
`moment_matching`, `compress_gaussians` extend `eager`'s chain (same tail eager_base, normalize_base, reflect), so whatever
they do not handle is handled exactly as eager does."""
import ast

from . import ob, parse

EXPECT = {
    "normalize": ["normalize_base", "reflect"],
    "lazy": ["lazy_base", "reflect"],
    "eager": ["eager_base", "normalize_base", "reflect"],
    "sequential": ["sequential_base", "eager_base", "normalize_base", "reflect"],
    "moment_matching": ["moment_matching_base", "eager_base", "normalize_base", "reflect"],
    "compress_gaussians": ["compress_gaussians_base", "eager_base", "normalize_base", "reflect"],
}


def chains(rel):
    src, tree = parse(rel)
    out, total = {}, []
    for st in tree.body:
        if isinstance(st, ast.Assign) and len(st.targets) == 1 and isinstance(st.targets[0], ast.Name) and isinstance(st.value, ast.Call) and isinstance(st.value.func, ast.Name) and st.value.func.id == "PrioritizedInterpretation":
            out[st.targets[0].id] = [a.id if isinstance(a, ast.Name) else ast.unparse(a) for a in st.value.args]
        if isinstance(st, ast.Assign) and len(st.targets) == 1 and isinstance(st.targets[0], ast.Attribute) and st.targets[0].attr == "is_total" and isinstance(st.value, ast.Constant) and st.value.value is True:
            total.append(ast.unparse(st.targets[0].value))
    return out, total


def run():
    out = {}
    ch, total = chains("funsor/interpretations.py")
    out["frame:C03/reflect-declared-total"] = ob("discharged" if "reflect" in total else "refuted", "is_total = True set on: %s" % total)
    for name, exp in EXPECT.items():
        got = ch.get(name)
        out["frame:C03/chain-%s" % name] = ob("discharged" if got == exp else "refuted" if got is not None else "undecided", "chain %s (expected %s)" % (got, exp))
    for name, c in ch.items():
        if name not in EXPECT and name != "eager_or_die":
            out["frame:C03/chain-%s-ends-in-reflect" % name] = ob("discharged" if c and c[-1] == "reflect" else "undecided", str(c))
    och, _ = chains("funsor/optimizer.py")
    for name, exp in {"unfold": ["unfold_base", "normalize_base", "lazy"], "optimize": ["optimize_base", "eager"]}.items():
        got = och.get(name)
        out["frame:C03/chain-%s" % name] = ob("discharged" if got == exp else "refuted" if got is not None else "undecided", "chain %s (expected %s: ends in an exact total interpretation)" % (got, exp))
    return out
