"""C07 frame conditions: the intern tables are written only by their owning get-or-create functions.

Tables and owners (each owner is under contract in contracts/c_cons.py):
  _cons_cache      (one per Funsor origin class)  created in FunsorMeta.__init__, read/written in terms.reflect
  _type_cache      ArrayType / ProductDomain (domains.py), GenericTypeMeta (typing.py): created at class creation,
                   read/written only in the respective __getitem__
  _instance_cache  (one per Op class) created in OpMeta.__init__, read/written only in OpMeta.__call__
Obligations: every occurrence of these attribute names anywhere under funsor/ (outside testing.py) lies in an owner; the
tables are created as WeakValueDictionary (held weakly); nothing else mutates or aliases them."""
import ast

from . import enclosing, funsor_files, ob, parse

OWNERS = {
    "_cons_cache": {("funsor/terms.py", "reflect"), ("funsor/terms.py", "FunsorMeta.__init__")},
    "_type_cache": {
        ("funsor/domains.py", "ArrayType"),
        ("funsor/domains.py", "ArrayType.__getitem__"),
        ("funsor/domains.py", "ProductDomain"),
        ("funsor/domains.py", "ProductDomain.__getitem__"),
        ("funsor/typing.py", "GenericTypeMeta.__init__"),
        ("funsor/typing.py", "GenericTypeMeta.__getitem__"),
    },
    "_instance_cache": {("funsor/ops/op.py", "OpMeta.__init__"), ("funsor/ops/op.py", "OpMeta.__call__")},
}


def run():
    out = {}
    foreign = {k: [] for k in OWNERS}
    creations = {k: [] for k in OWNERS}
    for rel in funsor_files():
        if rel.endswith("testing.py"):
            continue
        src, tree = parse(rel)
        for node in ast.walk(tree):
            name = None
            if isinstance(node, ast.Attribute) and node.attr in OWNERS:
                name = node.attr
            elif isinstance(node, ast.Name) and node.id in OWNERS:
                name = node.id
            elif isinstance(node, ast.Constant) and isinstance(node.value, str) and node.value in OWNERS:
                name = node.value  # getattr(x, "_cons_cache") style access
            if name is None:
                continue
            where = (rel, enclosing(node))
            if where not in OWNERS[name]:
                foreign[name].append("%s:%d in %s" % (rel, node.lineno, where[1]))
            par = getattr(node, "_parent", None)
            if isinstance(par, ast.Assign) and node in par.targets:
                v = par.value
                fn = v.func.attr if isinstance(v, ast.Call) and isinstance(v.func, ast.Attribute) else v.func.id if isinstance(v, ast.Call) and isinstance(v.func, ast.Name) else "?"
                creations[name].append((rel, node.lineno, fn))
    for name in OWNERS:
        out["frame:C07/%s-only-touched-by-owners" % name] = ob("discharged" if not foreign[name] else "refuted", "; ".join(foreign[name]))
        weak = bool(creations[name]) and all(c[2] == "WeakValueDictionary" for c in creations[name])
        out["frame:C07/%s-held-weakly" % name] = ob("discharged" if weak else "refuted", "created at %s" % (creations[name],))
    # identity of terms: Funsor defines __hash__ = id, __copy__/__deepcopy__ return self or reconstruct through the class
    src, tree = parse("funsor/terms.py")
    meths = {}
    for node in ast.walk(tree):
        if isinstance(node, ast.ClassDef) and node.name == "Funsor":
            for f in node.body:
                if isinstance(f, ast.FunctionDef):
                    meths[f.name] = ast.unparse(f)
    ok_hash = "return id(self)" in meths.get("__hash__", "")
    ok_copy = "return self" in meths.get("__copy__", "")
    ok_reduce = "__origin__" in meths.get("__reduce__", "") and "_ast_values" in meths.get("__reduce__", "")
    out["frame:C07/funsor-hash-is-identity"] = ob("discharged" if ok_hash else "refuted", meths.get("__hash__", "missing"))
    out["frame:C07/funsor-copy-returns-self"] = ob("discharged" if ok_copy else "refuted", meths.get("__copy__", "missing"))
    out["frame:C07/funsor-pickle-reconstructs-through-interning-constructor"] = ob("discharged" if ok_reduce else "refuted", meths.get("__reduce__", "missing"))
    out.update(strong_memo_scan())
    return out


# strong memo caches: a functools.lru_cache / functools.cache keeps its ARGUMENTS alive; one keyed on terms or arrays would hold
# every term it ever saw (and its sub-terms and backing arrays) strongly, whatever the weak intern tables do.  The reviewed
# ones are keyed on types / domains / shapes only.  Backend-specific modules (torch / jax) are outside the numpy scope.
MEMO_ALLOW = {
    ("funsor/typing.py", "deep_issubclass"): "arguments are types",
    ("funsor/distribution.py", "DistributionMeta2._infer_value_domain"): "arguments are domains",
    ("funsor/distribution.py", "DistributionMeta2._infer_param_domain"): "arguments are a name and a shape",
    ("funsor/distribution.py", "Distribution._infer_value_domain"): "arguments are domains",
    ("funsor/distribution.py", "Distribution._infer_param_domain"): "arguments are a name and a shape",
}
MEMO_NAMES = {"lru_cache", "cache", "cached_property"}


def strong_memo_scan():
    found, new = [], []
    for rel in funsor_files():
        if rel.endswith("testing.py") or rel.startswith(("funsor/torch/", "funsor/jax/")):
            continue
        src, tree = parse(rel)
        for node in ast.walk(tree):
            if not isinstance(node, (ast.FunctionDef, ast.AsyncFunctionDef)):
                continue
            for d in node.decorator_list:
                target = d.func if isinstance(d, ast.Call) else d
                nm = target.attr if isinstance(target, ast.Attribute) else target.id if isinstance(target, ast.Name) else None
                if nm in MEMO_NAMES:
                    where = (rel, enclosing(node.body[0]) if node.body else node.name)
                    found.append(where)
                    if where not in MEMO_ALLOW:
                        new.append("%s:%d %s is memoised with %s" % (rel, node.lineno, where[1], nm))
    # a new strong cache may be harmless (keyed on types): it is UNDECIDED here, and the bounded histories decide retention
    return {"frame:C07/strong-memo-caches-are-the-reviewed-ones": ob("discharged" if not new else "undecided", "; ".join(new) or "reviewed: %s" % sorted(set(found)))}
