#!/usr/bin/env python3
"""check.py <Cxx> [--tier quick|thorough] [--replay <path>] [--update-baseline] [--no-rtc] [--no-proof]

Decides one property of /verif/properties.jsonl on /repo's current working tree (DESIGN 2.7):
  tier P/L  proof obligations generated from the real source + sidecar contracts, lemmas, static frame scans
  tier B    bounded run-time contract drivers (rtc/), labelled bounded, never counted as proved
exit 0 held / 1 VIOLATION (printed) / 2 undecided / 3 checker failure.
"""
import fnmatch
import hashlib
import importlib
import json
import os
import re
import shutil
import subprocess
import sys
import time
import traceback

HERE = os.path.dirname(os.path.abspath(__file__))
VENV_PY = os.path.join(HERE, ".venv", "bin", "python")


def ensure_venv():
    if os.path.realpath(sys.executable) != os.path.realpath(VENV_PY) or "VERIF_IN_VENV" not in os.environ:
        if not os.path.exists(VENV_PY):
            subprocess.check_call([os.path.join(HERE, "setup.sh")], stdout=subprocess.DEVNULL)
        env = dict(os.environ, VERIF_IN_VENV="1", PYTHONHASHSEED=os.environ.get("PYTHONHASHSEED", "0"))
        env.setdefault("PYTHONDONTWRITEBYTECODE", "1")
        os.execve(VENV_PY, [VENV_PY, os.path.abspath(__file__)] + sys.argv[1:], env)


ensure_venv()
sys.path.insert(0, HERE)
os.chdir(HERE)

from pyvc import runner  # noqa: E402

PROPS = {json.loads(l)["id"]: json.loads(l) for l in open(os.path.join(HERE, "properties.jsonl"))}
# helper runs against a scratch copy of the repository (VERIF_REPO, see tools_seeded.py) write their output elsewhere
REPLAY_DIR = os.environ.get("VERIF_REPLAY_DIR", os.path.join(HERE, "replays"))
EVIDENCE_DIR = os.environ.get("VERIF_EVIDENCE_DIR", os.path.join(HERE, "evidence"))

RTC_DRIVERS = {
    "drv_terms": ["C01", "C02", "C03", "C04", "C05", "C06"],
    "drv_sumprod": ["C08", "C09", "C10", "C11"],
    "drv_gauss": ["C12", "C13", "C14"],
    "drv_misc": ["C07", "C15", "C16", "C17", "C18", "C19", "C20"],
}

# a driver written for one property also exercises contracts that belong to another: (driver, property it is run as, tag a
# failure must carry to count for this property).  C04 (substitution) on Gaussians is exercised by the C12 driver's
# substitution contracts.
RTC_EXTRA = {"C04": [("drv_gauss", "C12", "subs")]}

PY_SEMANTICS = [
    "Python ints are unbounded (z3 Int is exact, not an idealisation)",
    "// and % follow floor / sign-of-divisor semantics (Euclidean witnesses for symbolic divisors)",
    "left-to-right evaluation, short-circuit and/or, chained comparisons",
    "min/max return the first extremal argument; dict/OrderedDict keep insertion order; OrderedDict.__eq__ is order-sensitive",
    "assert is active (no -O); exceptions raised by concrete container operations end the path as 'declined'",
    "extraction drops only: decorators, docstrings, annotations; numpy backend, no tracing, FUNSOR_DEBUG unset",
]


def load_known():
    p = os.path.join(HERE, "known_findings.json")
    if not os.path.exists(p):
        return {"findings": [], "fixed": []}
    return json.load(open(p))


def load_baseline():
    p = os.path.join(HERE, "baseline", "obligations.json")
    if not os.path.exists(p):
        return {}
    return json.load(open(p))


def slug(s):
    return re.sub(r"[^A-Za-z0-9_.-]+", "_", s)[:120]


def write_replay(prop, name, src, header):
    d = os.path.join(REPLAY_DIR, prop)
    os.makedirs(d, exist_ok=True)
    path = os.path.join(d, slug(name) + ".py")
    with open(path, "w") as f:
        f.write('"""' + header.replace('"""', "'''") + '\n"""\n')
        f.write(src or "import sys\nprint(__doc__)\nsys.exit(2)  # no concrete failing input could be constructed\n")
    return path


def run_replay(path, timeout=300):
    try:
        # the replay imports funsor from the tree the obligations were generated from (VERIF_REPO is a helper override)
        repo = os.environ.get("VERIF_REPO", "/repo")
        r = subprocess.run([VENV_PY, path], capture_output=True, text=True, timeout=timeout, cwd=HERE, env=dict(os.environ, PYTHONPATH=repo + os.pathsep + HERE))
        return r.returncode, (r.stdout + r.stderr)[-3000:]
    except subprocess.TimeoutExpired:
        return 2, "replay timed out"


def run_rtc_subprocess(drv, prop, tier, seed, jobs, budget):
    """run a bounded driver in its own process (time budget; a hang or crash there cannot take the check down)"""
    import pickle
    import tempfile

    out = tempfile.NamedTemporaryFile(suffix=".pkl", delete=False)
    out.close()
    code = (
        "import sys, pickle; sys.path.insert(0, %r); import importlib; m = importlib.import_module('rtc.%s'); "
        "r = m.run(%r, %r, %d, %d); pickle.dump(dict(json=r.to_json(), failures=r.failures, evaluations=r.evaluations, distinct=r.distinct_nontrivial), open(%r, 'wb'))" % (HERE, drv, prop, tier, seed, jobs, out.name)
    )
    try:
        p = subprocess.run([VENV_PY, "-c", code], capture_output=True, text=True, timeout=budget, cwd=HERE, env=dict(os.environ, PYTHONPATH=HERE))
        if p.returncode != 0:
            return None, (p.stderr or p.stdout)[-3000:]
        return pickle.load(open(out.name, "rb")), None
    except subprocess.TimeoutExpired:
        return None, "timeout"
    except Exception:
        return None, traceback.format_exc()
    finally:
        try:
            os.unlink(out.name)
        except OSError:
            pass


def match_known(known, prop, kind, **kw):
    for k in known["findings"]:
        if k["property"] != prop or k["kind"] != kind:
            continue
        if kind == "obligation":
            if fnmatch.fnmatchcase(kw["oid"], k["match"]):
                return k
        elif kind == "rtc":
            if k.get("contract") and not fnmatch.fnmatchcase(kw["contract"], k["contract"]):
                continue
            if all(t in kw["tags"] for t in k.get("tags_all", [])):
                return k
    return None


def main():
    args = sys.argv[1:]
    if "--replay" in args:
        path = args[args.index("--replay") + 1]
        rc, out = run_replay(path)
        print(out)
        print("REPRODUCED" if rc == 1 else "NOT-REPRODUCED (exit %d)" % rc)
        sys.exit(1 if rc == 1 else 0)
    prop = args[0]
    tier = os.environ.get("VERIF_TIER", "quick")
    if "--tier" in args:
        tier = args[args.index("--tier") + 1]
    seed = int(os.environ.get("VERIF_SEED", "0"))
    jobs = int(os.environ.get("VERIF_JOBS", "16"))
    assert prop in PROPS, prop
    t0 = time.time()
    # replays of earlier runs are stale: every VIOLATION line of this run names a file written by this run
    shutil.rmtree(os.path.join(REPLAY_DIR, prop), ignore_errors=True)
    known = load_known()
    baseline = load_baseline().get(prop + ":" + tier, {})  # one baseline per (property, tier): the tiers enumerate different structures
    violations = []  # (replay_path, reproduced, text)
    known_lines = []
    undecided = []
    crashes = []
    assumptions = list(PY_SEMANTICS)
    ev_cov = {}

    # ---------------- conformance of the dependency models (a disagreement is a checker defect) ----
    if "--no-proof" not in args:
        try:
            from contracts import arrays as _arr, models as _mod, specs as _specs

            fns = [("specs", _specs.conformance), ("models", _mod.conformance), ("arrays", _arr.conformance)]
            if prop in ("C12", "C13", "C14"):
                from contracts import realalg as _ra

                fns.append(("realalg: exact-real linear algebra models", _ra.conformance))
            for name, fn in fns:
                bad = fn()
                if bad:
                    crashes.append("model conformance (%s) disagrees with numpy/CPython: %s" % (name, bad[:3]))
        except Exception:
            crashes.append("model conformance crashed: " + traceback.format_exc())
        try:
            from pyvc import crosscheck

            xbad, xtotal = crosscheck.run()
            ev_cov["executor_crosscheck"] = dict(concrete_executions_compared_with_cpython=xtotal, disagreements=len(xbad))
            if xbad:
                crashes.append("executor / CPython cross-check disagrees: %s" % (xbad[:3],))
        except Exception:
            crashes.append("executor cross-check crashed: " + traceback.format_exc())

    # ---------------- tier P: contracts -----------------------------------------------------------
    summ = {}
    functions = {}
    mutant_report = {}
    solver_s = 0.0
    backends = {"z3": 0, "cvc5": 0}
    if "--no-proof" not in args:
        classes = [c for c in runner.load_contracts() if prop in c.props]
        res, mres = runner.run_contracts(classes, tier, jobs=jobs, mutants="one" if tier == "quick" else "all")
        summ = runner.summarize(res)
        for r in res:
            solver_s += r["solver_s"]
            for k, v in r.get("backends", {}).items():
                backends[k] = backends.get(k, 0) + v
            f = functions.setdefault(r["contract"], dict(sha=r.get("sha"), line=r.get("lineno"), structures=0, paths=dict(returned=0, declined=0, unsupported=0)))
            f["structures"] += 1
            for k, v in r.get("paths", {}).items():
                f["paths"][k] = f["paths"].get(k, 0) + v
        for c in classes:
            f = functions.setdefault(c().name, {})
            f["contract"] = (c.__doc__ or "").strip()
            f["structure_bound"] = "see contract docstring"
            for a in c.assumptions:
                if a not in assumptions:
                    assumptions.append(a)
        base_by = {(r["cls"], r["structure"]): r for r in res}
        per = {}
        for r in mres:
            k = "%s :: %s" % (r["contract"], r["mutant"])
            per.setdefault(k, []).append(runner.mutant_status(r, base_by.get((r["cls"], r["structure"]))))
        for k, sts in per.items():
            # refuted on some structure: fine.  survived = every structure fully discharged under the fault (contract too
            # weak).  anything else (solver timeouts under load, pattern no longer present) is inconclusive, not a failure.
            mutant_report[k] = "refuted" if "refuted" in sts else "not-refuted" if all(s == "survived" for s in sts) else "inconclusive"

        # ---------------- tier L: lemmas, static scans (same obligation record format) ----------------
        for modname in ("lemmas", "frame"):
            try:
                pkg = importlib.import_module(modname)
            except ImportError:
                continue
            if hasattr(pkg, "obligations_for"):
                try:
                    extra = pkg.obligations_for(prop, tier, jobs)
                except Exception:
                    crashes.append("%s crashed: %s" % (modname, traceback.format_exc()))
                    extra = {}
                for oid, o in extra.items():
                    summ[oid] = o
                    solver_s += o.get("solver_s", 0.0)
                    if o["status"] == "discharged":
                        backends[o.get("backend", "z3")] = backends.get(o.get("backend", "z3"), 0) + 1
                    for a in o.get("assumptions", []):
                        if a not in assumptions:
                            assumptions.append(a)

    n_obl = len(summ)
    n_dis = 0
    kf_obl = 0
    kf_discharged, kf_refuted = {}, {}
    for oid, o in sorted(summ.items()):
        if o["status"] == "discharged":
            n_dis += 1
            k = match_known(known, prop, "obligation", oid=oid)
            if k is not None:
                kf_discharged[k["id"]] = kf_discharged.get(k["id"], 0) + 1
        elif o["status"] == "refuted":
            k = match_known(known, prop, "obligation", oid=oid)
            if k is not None:
                kf_obl += 1
                kf_refuted[k["id"]] = kf_refuted.get(k["id"], 0) + 1
                line = "KNOWN-FINDING: property=%s %s [%s]" % (prop, k["what"], k["id"])
                if line not in known_lines:
                    known_lines.append(line)
                continue
            header = "property %s\nfailed obligation: %s\n%s\ncounter-model: %s" % (prop, oid, o.get("detail", ""), json.dumps(o.get("model"), sort_keys=True))
            path = write_replay(prop, oid, o.get("replay_src"), header)
            reproduced = False
            out = ""
            if o.get("replay_src"):
                rc, out = run_replay(path)
                reproduced = rc == 1
            with open(path, "a") as f:
                f.write("\n# --- verifier output ---\n# " + header.replace("\n", "\n# ") + "\n# replay run: " + ("REPRODUCED" if reproduced else "NOT-REPRODUCED") + "\n# " + out.replace("\n", "\n# ")[:3000] + "\n")
            violations.append((path, reproduced, oid))
        elif o["status"] == "crash":
            crashes.append(oid + ": " + o.get("detail", "")[:2000])
        else:
            undecided.append((oid, o.get("detail", "")))
    for kid in kf_discharged:
        if kid not in kf_refuted:
            print("NOTE: known finding %s is not re-found by the proof tier on this tree (all %d matching obligations discharged): stale entry or repaired" % (kid, kf_discharged[kid]))
    # baseline comparison: obligations that used to be discharged must still be generated
    generated = set(summ)
    missing = [b for b in baseline.get("discharged", []) if b not in generated]
    for b in missing:
        undecided.append((b, "obligation of the committed baseline was not generated on this run"))
    bad_mutants = [k for k, v in mutant_report.items() if v == "not-refuted"]

    # ---------------- tier B: bounded run-time contracts ----------------------------------------------
    bounded = []
    rtc_eval = 0
    rtc_distinct = 0
    rtc_samples = []
    if "--no-rtc" not in args:
        plan = [(drv, prop, None) for drv, props in RTC_DRIVERS.items() if prop in props] + RTC_EXTRA.get(prop, [])
        for drv, run_as, need_tag in plan:
            if not os.path.exists(os.path.join(HERE, "rtc", drv + ".py")):
                continue
            budget = int(os.environ.get("VERIF_RTC_BUDGET_S", "900" if tier == "quick" else "5400"))
            res, err = run_rtc_subprocess(drv, run_as, tier, seed, jobs, budget)
            if res is not None and need_tag is not None:
                res["failures"] = [f for f in res["failures"] if need_tag in f["tags"]]
            if res is None:
                if err == "timeout":
                    bounded.append(dict(driver=drv, timed_out=True, budget_s=budget, note="bounded driver exceeded its time budget on this run; its (partial) work is not reported and does not affect the verdict"))
                    print("NOTE: bounded driver %s exceeded %ds and was stopped (the proof-tier verdict stands)" % (drv, budget))
                else:
                    crashes.append("bounded driver %s crashed:\n%s" % (drv, err))
                continue
            j = res["json"]
            rtc_eval += res["evaluations"]
            rtc_distinct += res["distinct"]
            rtc_samples += j["samples"][:4]
            kf = 0
            unreported = {}
            for i, f in enumerate(res["failures"]):
                k = match_known(known, prop, "rtc", contract=f["contract"], tags=f["tags"])
                if k is not None:
                    kf += 1
                    line = "KNOWN-FINDING: property=%s %s [%s]" % (prop, k["what"], k["id"])
                    if line not in known_lines:
                        known_lines.append(line)
                    continue
                if len([v for v in violations if v[2].startswith("rtc:" + f["contract"] + ":")]) >= 5:
                    unreported[f["contract"]] = unreported.get(f["contract"], 0) + 1
                    continue  # five replays per contract are written and run; the rest are counted in the evidence
                header = "property %s\nbounded contract %s violated\ncase: %s\ndetail: %s\ntags: %s" % (prop, f["contract"], json.dumps(f["case"])[:1500], f["detail"], f["tags"])
                path = write_replay(prop, "rtc_%s_%s_%d" % (drv, f["contract"], i), f.get("replay_src"), header)
                reproduced = False
                if f.get("replay_src"):
                    rc, out = run_replay(path)
                    reproduced = rc == 1
                violations.append((path, reproduced, "rtc:%s:%s" % (f["contract"], json.dumps(f["case"])[:200])))
            j["known_findings_refound"] = kf
            if unreported:
                j["further_failures_without_individual_replay"] = unreported
            bounded.append(j)

    # ---------------- verdict ---------------------------------------------------------------------------
    for line in known_lines:
        print(line)
    for path, reproduced, what in violations:
        print("VIOLATION property=%s replay=%s%s" % (prop, path, "" if reproduced else " no-failing-input-found"))
    for oid, d in undecided[:20]:
        print("UNDECIDED %s :: %s" % (oid, d[:300]))
    for c in crashes[:5]:
        print("CHECKER-ERROR " + c[:3000])
    for k in bad_mutants:
        print("SELFTEST-FAILED seeded fault not refuted (contract too weak): " + k)

    level = MANIFEST_LEVELS.get(prop, "other")
    samples = [dict(obligation=oid, status=o["status"]) for oid, o in list(sorted(summ.items()))[:: max(1, len(summ) // 6)]][:8]
    cov = dict(
        # `obligations` counts the obligations the claim rests on: every generated obligation EXCEPT the clause halves that a
        # contract splits off for a recorded known finding (they are refuted on purpose, reported by KNOWN-FINDING lines and
        # counted separately below); so on a clean run discharged == obligations, and a new refutation or an undecided
        # obligation makes discharged < obligations
        obligations=n_obl - kf_obl,
        discharged=n_dis,
        obligations_generated=n_obl,
        refuted_known_findings=kf_obl,
        refuted_new=len([v for v in violations if not v[2].startswith("rtc:")]),
        undecided=len(undecided),
        checker_cmd="./check.py %s --tier %s  (pyvc: AST->z3 VC generator over /repo's working tree; z3 %s, cvc5 for z3's unknowns)" % (prop, tier, __import__("z3").get_version_string()),
        solver_backends=backends,
        solver_time_s=round(solver_s, 2),
        functions_under_contract=functions,
        seeded_faults=mutant_report,
        trusted_base=[
            "pyvc symbolic executor (/verif/pyvc; self-tested per run by seeded faults that must be refuted)",
            "z3 4.x/5.x and cvc5 SMT solvers",
            "models of callee contracts and of numpy shape rules in /verif/contracts/models.py (conformance-tested against numpy/CPython)",
        ],
        samples=samples + rtc_samples[:4],
        bounded=bounded,
        evaluations=max(rtc_eval, 1) if bounded else n_obl,
        distinct_nontrivial=rtc_distinct if bounded else n_dis,
        rule="proof obligations: one per (function, contract clause, structure); bounded tier: see bounded[*].bounds.nontrivial_rule",
        explanation="tier P/L: %d proof obligations generated from the real source, %d of them split off as recorded known findings (refuted, see known_findings), %d discharged (unbounded in sizes/contents within the stated structure bounds); tier B (bounded, NOT proof): %d run-time contract evaluations on the real functions" % (n_obl, kf_obl, n_dis, rtc_eval),
        exhaustive=False,
        known_findings=known_lines,
        selftests=ev_cov,
    )
    ev = dict(property_id=prop, tier=tier, seed=seed, level=level, coverage=cov, assumptions=assumptions, wall_s=round(time.time() - t0, 2), violations=len(violations))
    os.makedirs(EVIDENCE_DIR, exist_ok=True)
    with open(os.path.join(EVIDENCE_DIR, prop + ".json"), "w") as f:
        json.dump(ev, f, indent=1, default=str)

    if "--update-baseline" in args:
        import fcntl

        os.makedirs(os.path.join(HERE, "baseline"), exist_ok=True)
        lock = open(os.path.join(HERE, "baseline", ".lock"), "w")
        fcntl.flock(lock, fcntl.LOCK_EX)  # helper runs may update different keys concurrently
        allb = load_baseline()
        allb[prop + ":" + tier] = dict(discharged=sorted(oid for oid, o in summ.items() if o["status"] == "discharged"), known_refuted=sorted(oid for oid, o in summ.items() if o["status"] == "refuted"))
        os.makedirs(os.path.join(HERE, "baseline"), exist_ok=True)
        json.dump(allb, open(os.path.join(HERE, "baseline", "obligations.json"), "w"), indent=0, sort_keys=True)

    print("%s %s: obligations %d discharged %d known-findings %d new-refuted %d undecided %d | bounded evaluations %d | wall %.1fs" % (prop, tier, n_obl, n_dis, kf_obl, cov["refuted_new"], len(undecided), rtc_eval, time.time() - t0))
    if violations:
        sys.exit(1)
    if crashes or bad_mutants:
        sys.exit(3)
    if undecided or (n_obl == 0 and not bounded):
        sys.exit(2)
    sys.exit(0)


def _levels():
    try:
        m = json.load(open(os.path.join(HERE, "MANIFEST.json")))
        return {c["property_id"]: c["level_claimed"]["category"] for c in m.get("checks", [])}
    except Exception:
        return {}


MANIFEST_LEVELS = _levels()

if __name__ == "__main__":
    main()
