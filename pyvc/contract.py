"""pyvc.contract -- sidecar contract objects and the obligation runner (DESIGN 2.2, 2.7, 2.8)."""
import ast
import json
import os
import time
import traceback

import z3

from . import core
from .core import SV, Declined, Unsupported, _lift

REGISTRY = []


def register(cls):
    REGISTRY.append(cls)
    return cls


class Contract:
    """Base class of a sidecar contract on one real function of /repo.

    Subclasses define
      props      property ids the obligations count for
      file, qualname, ordinal   location in /repo (re-read on every run)
      total      True: the function must not raise under `requires` (declined paths become obligations)
      structures(tier) -> iterable of (label, structure)   -- the structure bound, printed in the evidence
      build(p, st)   -> ctx  (an object with .args, .kwargs, .namespace; symbolic inputs created with p.fresh_*,
                              preconditions added with p.assume)
      ensures(ctx, result) -> list of (clause, formula)    -- taken from the property statement
      hints(ctx, path)     -> list of z3 formulas, each a ground instance of a lemma proved in lemmas/
      mutants    list of (label, old_text, new_text): in-memory seeded faults that must be REFUTED
      replay(ctx, model, st, clause) -> python source of a stand-alone script or None
    """

    props = ()
    file = None
    qualname = None
    ordinal = 0
    total = False
    mutants = ()
    drops = "decorators, docstrings, annotations"
    assumptions = ()
    max_paths = 4000
    timeout_ms = 20000
    # back end credited for a clause whose formula the executor reduced to a ground truth value before any solver query
    # (exact evaluation in a term / polynomial / field model); clauses that reach the solver are credited to z3 or cvc5
    ground_backend = "ground-evaluation"

    def structures(self, tier):
        return [("-", None)]

    def hooks(self, ctx):
        return {}

    def locate(self, mutant=None):
        return locate_for(self, mutant)

    def entry(self, loc, ctx):
        """the interpretable closure of the function under contract"""
        return core.make_callable(loc, ctx.namespace, self.hooks(ctx))

    def ensures_raise(self, ctx, etype):
        """postcondition of exceptional exits (frame conditions that must hold when the function raises)"""
        return []

    def allow_vacuous(self, st):
        """structures on which the function is expected to raise on every path"""
        return False

    def may_raise(self, ctx, etype):
        """condition under which raising is permitted: True (partial correctness, default),
        False when `total`, or a formula over the inputs"""
        return False if self.total else True

    def hints(self, ctx, path):
        return []

    def replay(self, ctx, model, st, clause):
        return None

    @property
    def name(self):
        return "%s:%s%s" % (self.file, self.qualname, "#%d" % self.ordinal if self.ordinal else "")


class Ctx:
    def __init__(self, **kw):
        self.args = ()
        self.kwargs = {}
        self.namespace = {}
        self.__dict__.update(kw)


def _formula(f):
    if isinstance(f, SV):
        e = f.e
        if not z3.is_bool(e):
            e = e != 0
        return e
    if z3.is_expr(f):
        return f
    return z3.BoolVal(bool(f))


def model_to_dict(m):
    out = {}
    for d in m.decls():
        try:
            out[d.name()] = str(m[d])
        except Exception:
            pass
    return out


def locate_for(contract, mutant=None):
    loc = core.locate(contract.file, contract.qualname, contract.ordinal)
    if mutant is not None:
        label, old, new = mutant
        if loc.source.count(old) < 1:
            raise core.FunctionMissing("mutant %r: pattern not found in %s" % (label, contract.name))
        src = loc.source.replace(old, new, 1)
        import textwrap

        node = ast.parse(textwrap.dedent(src)).body[0]
        loc = core.Located(loc.path, loc.qualname, node, src, loc.cls)
    return loc


def run_structure(contract, label, st, mutant=None, stop_on_refute=False):
    """Explore every path of the real function under one structure; return obligation verdicts.

    result: dict(obligations={clause: {status, detail, model, replay_src}}, paths=..., solver_s=..., ...)
    """
    t0 = time.time()
    loc = contract.locate(mutant)
    obl = {}
    counts = dict(returned=0, declined=0, unsupported=0)
    solver_s = 0.0
    queries = 0
    backends = {"z3": 0, "cvc5": 0}
    undecided_detail = []

    def setc(clause, status, detail="", model=None, replay_src=None):
        o = obl.setdefault(clause, dict(status="discharged", detail="", model=None, replay_src=None, paths=0))
        o["paths"] += 1
        rank = {"discharged": 0, "undecided": 1, "refuted": 2}
        if rank[status] > rank[o["status"]]:
            o.update(status=status, detail=detail, model=model, replay_src=replay_src)

    def run_once(p):
        ctx = contract.build(p, st)
        ctx.path = p
        f, interp = contract.entry(loc, ctx)
        ctx.interp = interp
        ctx.entry = f
        try:
            result = f(*ctx.args, **ctx.kwargs)
        except Declined as d:
            return ("declined", ctx, "%s %s" % (d.etype, d.msg), d.etype, contract.ensures_raise(ctx, d.etype))
        post = contract.ensures(ctx, result)
        return ("returned", ctx, result, post)

    clause_names = None
    for pr in core.explore(run_once, contract.max_paths, contract.timeout_ms):
        counts[pr.kind] += 1
        solver_s += pr.solver_time
        queries += pr.queries
        if pr.kind == "unsupported":
            undecided_detail.append(pr.detail)
            setc("*", "undecided", pr.detail)
            continue
        if pr.kind == "declined":  # raised while building the inputs or evaluating the postcondition: checker problem
            counts["declined"] -= 1
            counts["unsupported"] += 1
            setc("*", "undecided", "contract raised outside the function body: " + pr.detail)
            continue
        if pr.value[0] == "declined":
            counts["returned"] -= 1
            counts["declined"] += 1
            _, ctx, detail, etype, post_raise = pr.value
            for clause, f in post_raise:
                s = z3.Solver()
                s.set("timeout", contract.timeout_ms)
                s.add(*pr.pc)
                s.add(z3.Not(_formula(f)))
                t = time.time()
                r = s.check()
                solver_s += time.time() - t
                queries += 1
                if r == z3.unsat:
                    backends["z3"] += 1
                    setc(clause, "discharged")
                elif r == z3.sat:
                    m = s.model()
                    setc(clause, "refuted", "on the path raising %s" % detail, model_to_dict(m), _safe_replay(contract, ctx, m, st, clause, pr))
                else:
                    setc(clause, "undecided", "solver unknown")
            allowed = contract.may_raise(ctx, etype)
            if allowed is not True:
                # obligation: the function raises only where the contract allows it
                s = z3.Solver()
                s.set("timeout", contract.timeout_ms)
                s.add(*pr.pc)
                s.add(z3.Not(_formula(allowed)))
                t = time.time()
                r = s.check()
                solver_s += time.time() - t
                queries += 1
                if r == z3.sat:
                    m = s.model()
                    setc("raises_only_when_allowed", "refuted", "raises %s" % detail, model_to_dict(m), _safe_replay(contract, ctx, m, st, "raises_only_when_allowed", pr))
                    if stop_on_refute:
                        break
                elif r == z3.unknown:
                    setc("raises_only_when_allowed", "undecided", "solver unknown")
                else:
                    backends["z3"] += 1
                    setc("raises_only_when_allowed", "discharged")
            continue
        _, ctx, result, post = pr.value
        if contract.may_raise(ctx, None) is not True:
            setc("raises_only_when_allowed", "discharged")
        hints = [_formula(h) for h in contract.hints(ctx, pr.extra)]
        for clause, f in post:
            ground = not (isinstance(f, SV) or z3.is_expr(f))
            f = _formula(f)
            s = z3.Solver()
            s.set("timeout", contract.timeout_ms)
            s.add(*pr.pc)
            s.add(*hints)
            s.add(z3.Not(f))
            t = time.time()
            r = s.check()
            dt = time.time() - t
            solver_s += dt
            queries += 1
            if r == z3.unsat:
                bk = contract.ground_backend if ground else "z3"
                backends[bk] = backends.get(bk, 0) + 1
                setc(clause, "discharged")
            elif r == z3.sat:
                m = s.model()
                setc(clause, "refuted", "counter-model on path %s" % (pr.decisions,), model_to_dict(m), _safe_replay(contract, ctx, m, st, clause, pr))
                if stop_on_refute:
                    break
            else:
                r2 = _try_cvc5(s, contract.timeout_ms * 2)
                if r2 == "unsat":
                    backends["cvc5"] += 1
                    setc(clause, "discharged")
                else:
                    setc(clause, "undecided", "solver unknown (z3: %s, cvc5: %s)" % (s.reason_unknown(), r2))
        if stop_on_refute and any(o["status"] == "refuted" for o in obl.values()):
            break
    if "*" in obl:
        # an unsupported path leaves every clause of this structure undecided (never a pass)
        star = obl.pop("*")
        names = list(obl) or ["(all)"]
        for c in names:
            o = obl.setdefault(c, dict(status="discharged", detail="", model=None, replay_src=None, paths=0))
            if o["status"] == "discharged":
                o.update(status="undecided", detail="unsupported path: " + star["detail"])
    vacuous = counts["returned"] == 0 and not contract.allow_vacuous(st)
    return dict(
        contract=contract.name,
        structure=label,
        sha=loc.sha,
        lineno=loc.lineno,
        obligations=obl,
        paths=counts,
        vacuous=vacuous,
        solver_s=round(solver_s, 3),
        queries=queries,
        backends=backends,
        wall_s=round(time.time() - t0, 3),
    )


def _safe_replay(contract, ctx, m, st, clause, pr):
    try:
        if ctx is None:
            ctx = getattr(pr.extra, "last_ctx", None)
        return contract.replay(ctx, m, st, clause)
    except Exception:
        return "# replay generation failed:\n# " + traceback.format_exc().replace("\n", "\n# ")


def _try_cvc5(solver, timeout_ms):
    """hand z3's unknowns to the cvc5 binary"""
    import subprocess
    import tempfile

    try:
        smt = solver.to_smt2()
        with tempfile.NamedTemporaryFile("w", suffix=".smt2", delete=False) as f:
            f.write("(set-logic ALL)\n" + smt)
            name = f.name
        try:
            out = subprocess.run(
                ["/usr/bin/cvc5", "--tlimit=%d" % timeout_ms, "--nl-ext-tplanes", "--strings-exp", name], capture_output=True, text=True, timeout=timeout_ms / 1000 + 5
            ).stdout.strip()
        finally:
            os.unlink(name)
        return out.splitlines()[0] if out else "unknown"
    except Exception as e:
        return "error:%s" % type(e).__name__


def mval(m, v, default=0):
    """concrete value of an SV (or python value) in a z3 model"""
    if not isinstance(v, SV):
        return v
    r = m.eval(v.e, model_completion=True)
    if z3.is_int_value(r):
        return r.as_long()
    if z3.is_true(r):
        return True
    if z3.is_false(r):
        return False
    if z3.is_rational_value(r):
        return float(r.numerator_as_long()) / float(r.denominator_as_long())
    return default
