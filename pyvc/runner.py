"""pyvc.runner -- run registered contracts (all structures) in a process pool and aggregate obligations."""
import importlib
import multiprocessing as mp
import os
import pkgutil
import sys
import time
import traceback

from . import contract as C
from . import core

CONTRACT_MODULES = None


def load_contracts():
    global CONTRACT_MODULES
    if CONTRACT_MODULES is None:
        import contracts

        CONTRACT_MODULES = []
        for m in sorted(pkgutil.iter_modules(contracts.__path__), key=lambda m: m.name):
            if m.name.startswith("c_"):
                CONTRACT_MODULES.append(importlib.import_module("contracts." + m.name))
    return list(C.REGISTRY)


def _job(args):
    cls_mod, cls_name, label, st, mutant, stop = args
    try:
        cls = getattr(sys.modules[cls_mod], cls_name)
        c = cls()
        r = C.run_structure(c, label, st, mutant=mutant, stop_on_refute=stop)
        r["cls"] = cls_name
        r["mutant"] = mutant[0] if mutant else None
        return r
    except core.FunctionMissing as e:
        return dict(cls=cls_name, structure=label, mutant=mutant[0] if mutant else None, error="missing: %s" % e, obligations={}, paths={}, solver_s=0, queries=0, backends={}, wall_s=0, contract=cls_name, sha="", lineno=0, vacuous=False)
    except Exception:
        return dict(cls=cls_name, structure=label, mutant=mutant[0] if mutant else None, error="crash: " + traceback.format_exc(), obligations={}, paths={}, solver_s=0, queries=0, backends={}, wall_s=0, contract=cls_name, sha="", lineno=0, vacuous=False)


def run_contracts(classes, tier, jobs=16, mutants="none"):
    """returns (results, mutant_results). mutants: none | one | all"""
    tasks = []
    mtasks = []
    for cls in classes:
        c = cls()
        sts = list(c.structures(tier))
        for label, st in sts:
            tasks.append((cls.__module__, cls.__name__, label, st, None, False))
        ms = list(c.mutants)
        if mutants == "one":
            ms = ms[:1]
        elif mutants == "none":
            ms = []
        for mu in ms:
            msts = list(c.mutant_structures(tier, mu[0])) if hasattr(c, "mutant_structures") else sts
            for label, st in msts:
                mtasks.append((cls.__module__, cls.__name__, label, st, tuple(mu), False))
    if jobs <= 1:
        res = [_job(t) for t in tasks]
        mres = [_job(t) for t in mtasks]
    else:
        ctx = mp.get_context("fork")
        with ctx.Pool(jobs) as pool:
            res = pool.map(_job, tasks, chunksize=max(1, len(tasks) // (jobs * 8)))
            mres = pool.map(_job, mtasks, chunksize=max(1, len(mtasks) // (jobs * 8))) if mtasks else []
    return res, mres


def mutant_refuted(mr, base):
    """a seeded fault counts as refuted only through an obligation that is NOT already refuted on the unmutated source"""
    for clause, o in mr.get("obligations", {}).items():
        if o["status"] != "refuted":
            continue
        b = (base or {}).get("obligations", {}).get(clause)
        if b is None or b["status"] != "refuted":
            return True
    return False


def mutant_status(mr, base):
    """refuted | survived (every obligation discharged: the contract is too weak) | inconclusive (undecided / timeout / n-a)"""
    if mr.get("error"):
        return "inconclusive"
    if mutant_refuted(mr, base):
        return "refuted"
    if all(o["status"] == "discharged" or (base or {}).get("obligations", {}).get(c, {}).get("status") == o["status"] for c, o in mr.get("obligations", {}).items()) and mr.get("obligations"):
        return "survived"
    return "inconclusive"


def summarize(res):
    """obligation id -> verdict; id = contract/clause/structure"""
    out = {}
    for r in res:
        if r.get("error"):
            out["%s/(all)/%s" % (r["contract"], r["structure"])] = dict(status="undecided" if r["error"].startswith("missing") else "crash", detail=r["error"], model=None, replay_src=None, contract=r["contract"], cls=r["cls"])
            continue
        for clause, o in r["obligations"].items():
            oid = "%s/%s/%s" % (r["contract"], clause, r["structure"])
            out[oid] = dict(o, contract=r["contract"], cls=r["cls"])
        if r["vacuous"]:
            out["%s/(vacuous)/%s" % (r["contract"], r["structure"])] = dict(status="undecided", detail="no returning path: precondition vacuous or everything declined", model=None, replay_src=None, contract=r["contract"], cls=r["cls"])
    return out


def main(argv):
    sys.path.insert(0, os.path.dirname(os.path.dirname(os.path.abspath(__file__))))
    classes = load_contracts()
    sel = [a for a in argv if not a.startswith("-")]
    if sel:
        classes = [c for c in classes if any(s in (c.__name__, c.__module__.split(".")[-1]) or s in c.props for s in sel)]
    tier = "thorough" if "--thorough" in argv else "quick"
    mut = "all" if "--mutants" in argv else "none"
    t = time.time()
    res, mres = run_contracts(classes, tier, mutants=mut)
    summ = summarize(res)
    by = {}
    for oid, o in summ.items():
        by.setdefault(o["cls"], {}).setdefault(o["status"], []).append(oid)
    for cls in classes:
        d = by.get(cls.__name__, {})
        print("%-28s %s" % (cls.__name__, {k: len(v) for k, v in d.items()}))
        for st in ("refuted", "undecided", "crash"):
            for oid in d.get(st, [])[:4]:
                o = summ[oid]
                print("    %s %s :: %s %s" % (st.upper(), oid, o["detail"][:300], o.get("model")))
    if mres:
        bym = {}
        base = {(r["cls"], r["structure"]): r for r in res}
        for r in mres:
            k = (r["cls"], r["mutant"])
            ref = mutant_refuted(r, base.get((r["cls"], r["structure"])))
            bym[k] = bym.get(k, False) or ref
            if r.get("error"):
                print("   mutant error", k, r["error"][:300])
        for k, v in bym.items():
            print("  mutant %-28s %-50s %s" % (k[0], k[1], "refuted" if v else "*** NOT REFUTED ***"))
    print("obligations:", len(summ), {s: sum(1 for o in summ.values() if o["status"] == s) for s in ("discharged", "refuted", "undecided", "crash")}, "wall %.1fs" % (time.time() - t), "solver %.1fs" % sum(r["solver_s"] for r in res))


if __name__ == "__main__":
    main(sys.argv[1:])
