"""pyvc.core -- meta-circular symbolic executor of real Python function bodies (DESIGN 2.1).

CPython performs every operation on concrete structure; z3 terms occur only at the leaves (class SV).
The evaluator intervenes at: arithmetic/comparison on SV (operator overloading on SV), truth tests of
symbolic conditions (fork by re-execution with a decision prefix), ==/!=/in on containers holding SV
(deep_eq / contains), isinstance/min/max/any/all/... on SV (curated builtins), and calls that resolve
to a contract model supplied by the sidecar contract's namespace.

Verdict discipline: Unsupported -> path undecided (never a pass, never a violation);
Declined -> the real code would raise on this path (partial correctness: allowed unless the
contract says total).
"""
import ast
import hashlib
import itertools
import os
import textwrap

import z3

REPO = os.environ.get("VERIF_REPO", "/repo")


# --------------------------------------------------------------------------------------------------
# exceptions
# --------------------------------------------------------------------------------------------------
class Unsupported(Exception):
    """construct / call outside the subset: the path is undecided"""


class Declined(Exception):
    """the real code raises on this path"""

    def __init__(self, etype="Exception", msg=""):
        super().__init__(etype, msg)
        self.etype = etype
        self.msg = msg


class FunctionMissing(LookupError):
    """the function under contract is not in /repo any more"""


class Infeasible(Exception):
    """path condition became unsatisfiable"""


class _Return(Exception):
    def __init__(self, value):
        self.value = value


class _Break(Exception):
    pass


class _Continue(Exception):
    pass


# --------------------------------------------------------------------------------------------------
# symbolic leaves
# --------------------------------------------------------------------------------------------------
def _lift(x):
    if isinstance(x, SV):
        return x.e
    if isinstance(x, bool):
        return z3.BoolVal(x)
    if isinstance(x, int):
        return z3.IntVal(x)
    if isinstance(x, float):
        if x == int(x):
            return z3.RealVal(int(x))
        return z3.RealVal(repr(x))
    raise Unsupported("cannot lift %r to z3" % (type(x).__name__,))


def _as_arith(e):
    if z3.is_bool(e):
        return z3.If(e, z3.IntVal(1), z3.IntVal(0))
    return e


class SV:
    """a z3 term standing for a Python int / bool / float leaf"""

    __slots__ = ("e",)

    def __init__(self, e):
        self.e = e

    # -- never let CPython decide anything about a symbolic value
    def __bool__(self):
        raise Unsupported("truth value of a symbolic leaf taken outside the evaluator")

    def __hash__(self):
        raise Unsupported("hash of a symbolic leaf")

    def __index__(self):
        raise Unsupported("symbolic leaf used as a concrete index")

    def __repr__(self):
        return "SV(%s)" % (self.e,)

    @property
    def is_bool(self):
        return z3.is_bool(self.e)

    @property
    def is_int(self):
        return z3.is_int(self.e)

    @property
    def is_real(self):
        return z3.is_real(self.e)

    def _bin(self, other, f, rev=False):
        if not isinstance(other, (SV, int, float, bool)):
            return NotImplemented
        a, b = _as_arith(self.e), _as_arith(_lift(other))
        if rev:
            a, b = b, a
        return SV(f(a, b))

    def __add__(self, o):
        return self._bin(o, lambda a, b: a + b)

    def __radd__(self, o):
        return self._bin(o, lambda a, b: a + b, True)

    def __sub__(self, o):
        return self._bin(o, lambda a, b: a - b)

    def __rsub__(self, o):
        return self._bin(o, lambda a, b: a - b, True)

    def __mul__(self, o):
        return self._bin(o, lambda a, b: a * b)

    def __rmul__(self, o):
        return self._bin(o, lambda a, b: a * b, True)

    def __neg__(self):
        return SV(-_as_arith(self.e))

    def __pos__(self):
        return SV(_as_arith(self.e))

    def __floordiv__(self, o):
        return floordiv(self, o)

    def __rfloordiv__(self, o):
        return floordiv(o, self)

    def __mod__(self, o):
        return mod(self, o)

    def __rmod__(self, o):
        return mod(o, self)

    def __truediv__(self, o):
        a, b = z3.ToReal(_as_arith(self.e)) if self.is_int or self.is_bool else self.e, _lift(o)
        b = z3.ToReal(_as_arith(b)) if not z3.is_real(b) else b
        return SV(a / b)

    def __pow__(self, o):
        if isinstance(o, int) and not isinstance(o, bool) and 0 <= o <= 4:
            r = z3.IntVal(1) if not self.is_real else z3.RealVal(1)
            for _ in range(o):
                r = r * _as_arith(self.e)
            return SV(r)
        raise Unsupported("symbolic power")

    def __rpow__(self, o):
        raise Unsupported("symbolic exponent")

    def __lt__(self, o):
        return self._bin(o, lambda a, b: a < b)

    def __le__(self, o):
        return self._bin(o, lambda a, b: a <= b)

    def __gt__(self, o):
        return self._bin(o, lambda a, b: a > b)

    def __ge__(self, o):
        return self._bin(o, lambda a, b: a >= b)

    def __eq__(self, o):
        if isinstance(o, (SV, int, float, bool)):
            a, b = self.e, _lift(o)
            if z3.is_bool(a) != z3.is_bool(b):
                a, b = _as_arith(a), _as_arith(b)
            return SV(a == b)
        return False

    def __ne__(self, o):
        r = self.__eq__(o)
        if isinstance(r, SV):
            return SV(z3.Not(r.e))
        return not r

    def __and__(self, o):
        if self.is_bool and isinstance(o, (SV, bool)) and z3.is_bool(_lift(o)):
            return SV(z3.And(self.e, _lift(o)))
        raise Unsupported("bitwise and on symbolic ints")

    __rand__ = __and__

    def __or__(self, o):
        if self.is_bool and isinstance(o, (SV, bool)) and z3.is_bool(_lift(o)):
            return SV(z3.Or(self.e, _lift(o)))
        raise Unsupported("bitwise or on symbolic ints")

    __ror__ = __or__

    def __invert__(self):
        raise Unsupported("bitwise not")


def is_sym(x):
    return isinstance(x, SV)


def has_sym(x, depth=0):
    if isinstance(x, SV):
        return True
    if depth > 8:
        return False
    if isinstance(x, (tuple, list, set, frozenset)):
        try:
            return any(has_sym(v, depth + 1) for v in x)
        except Unsupported:
            return True
    if isinstance(x, dict):
        return any(has_sym(v, depth + 1) for v in x.values())
    if isinstance(x, slice):
        return has_sym((x.start, x.stop, x.step), depth + 1)
    h = getattr(x, "__has_sym__", None)
    if h is not None:
        return h()
    return False


# --------------------------------------------------------------------------------------------------
# the current path (one per re-execution)
# --------------------------------------------------------------------------------------------------
class Path:
    def __init__(self, prefix=(), timeout_ms=20000):
        self.pc = []
        self.decisions = list(prefix)
        self.pos = 0
        self.alternatives = []
        self.counter = itertools.count()
        self.timeout_ms = timeout_ms
        self.notes = []
        self.ghost = {}
        self.solver_time = 0.0
        self.queries = 0

    # fresh symbols (deterministic naming across re-executions of the same prefix)
    def fresh_int(self, name="v"):
        return SV(z3.Int("%s!%d" % (name, next(self.counter))))

    def fresh_bool(self, name="b"):
        return SV(z3.Bool("%s!%d" % (name, next(self.counter))))

    def fresh_real(self, name="r"):
        return SV(z3.Real("%s!%d" % (name, next(self.counter))))

    def assume(self, f):
        f = _lift(f) if not z3.is_expr(f) else f
        self.pc.append(f)

    def check(self, *extra):
        import time

        s = z3.Solver()
        s.set("timeout", self.timeout_ms)
        s.add(*self.pc)
        s.add(*extra)
        t = time.time()
        r = s.check()
        self.solver_time += time.time() - t
        self.queries += 1
        return r, s

    def feasible(self, *extra):
        r, _ = self.check(*extra)
        if r == z3.unknown:
            raise Unsupported("solver unknown on feasibility check")
        return r == z3.sat

    def entails(self, f):
        f = _lift(f) if not z3.is_expr(f) else f
        r, _ = self.check(z3.Not(f))
        return r == z3.unsat

    def truth(self, v):
        """Python truth test with forking."""
        if isinstance(v, SV):
            e = v.e
            if not z3.is_bool(e):
                e = e != 0
        elif z3.is_expr(v):
            e = v
        else:
            return bool(v)
        e = z3.simplify(e)
        if z3.is_true(e):
            return True
        if z3.is_false(e):
            return False
        if self.pos < len(self.decisions):
            d = self.decisions[self.pos]
            self.pos += 1
            self.pc.append(e if d else z3.Not(e))
            return d
        can_t = self.feasible(e)
        can_f = self.feasible(z3.Not(e))
        if can_t and can_f:
            self.alternatives.append(tuple(self.decisions) + (False,))
            d = True
        elif can_t:
            d = True
        elif can_f:
            d = False
        else:
            raise Infeasible()
        self.decisions.append(d)
        self.pos += 1
        self.pc.append(e if d else z3.Not(e))
        return d

    def choose(self, n, label="choice"):
        """nondeterministic choice among n alternatives (fork), returns index"""
        for k in range(n - 1):
            b = self.fresh_bool(label)
            if self.truth(b):
                return k
        return n - 1


CUR = None  # the Path being executed


def cur():
    if CUR is None:
        raise RuntimeError("no current path")
    return CUR


def truth(v):
    return cur().truth(v)


# --------------------------------------------------------------------------------------------------
# symbolic-aware operations
# --------------------------------------------------------------------------------------------------
def If(c, a, b):
    """value-level conditional usable in contracts on SV or concrete values"""
    if not isinstance(c, SV):
        return a if c else b
    if isinstance(a, SV) or isinstance(b, SV) or isinstance(a, (int, float, bool)) and isinstance(b, (int, float, bool)):
        ea, eb = _lift(a), _lift(b)
        if z3.is_bool(ea) != z3.is_bool(eb):
            ea, eb = _as_arith(ea), _as_arith(eb)
        if z3.is_real(ea) != z3.is_real(eb):
            ea = z3.ToReal(ea) if z3.is_int(ea) else ea
            eb = z3.ToReal(eb) if z3.is_int(eb) else eb
        return SV(z3.If(c.e, ea, eb))
    # structured values: fork
    return a if truth(c) else b


def And(*xs):
    out = []
    for x in xs:
        if isinstance(x, SV):
            out.append(x.e)
        elif z3.is_expr(x):
            out.append(x)
        elif not x:
            return False
    if not out:
        return True
    return SV(z3.And(*out))


def Or(*xs):
    out = []
    for x in xs:
        if isinstance(x, SV):
            out.append(x.e)
        elif z3.is_expr(x):
            out.append(x)
        elif x:
            return True
    if not out:
        return False
    return SV(z3.Or(*out))


def Not(x):
    if isinstance(x, SV):
        return SV(z3.Not(x.e))
    return not x


def Implies(a, b):
    return Or(Not(a), b)


def floordiv(a, b):
    """Python floor division. Concrete positive divisor: linear. Symbolic divisor: Euclidean witness."""
    if not is_sym(a) and not is_sym(b):
        return a // b
    p = cur()
    if not is_sym(b):
        if isinstance(b, float) or (is_sym(a) and a.is_real):
            raise Unsupported("float floor division")
        if b == 0:
            raise Declined("ZeroDivisionError")
        ea = _as_arith(_lift(a))
        if b > 0:
            return SV(ea / b)  # z3 int division is floor for positive divisors
        return SV((-ea) / (-b))
    eb = _as_arith(b.e)
    ea = _as_arith(_lift(a))
    if z3.is_real(ea) or z3.is_real(eb):
        raise Unsupported("float floor division")
    if not p.truth(SV(eb != 0)):
        raise Declined("ZeroDivisionError")
    q = p.fresh_int("q").e
    r = p.fresh_int("r").e
    p.assume(ea == q * eb + r)
    p.assume(z3.If(eb > 0, z3.And(0 <= r, r < eb), z3.And(eb < r, r <= 0)))
    p.ghost.setdefault("divs", []).append((ea, eb, q, r))
    return SV(q)


def floordiv_pos(a, b):
    """spec-level floor division for contracts: defined (by Euclidean witnesses) when b > 0, unconstrained otherwise;
    never forks, never raises"""
    if not is_sym(a) and not is_sym(b):
        return a // b if b > 0 else 0
    if not is_sym(b):
        return floordiv(a, b) if b > 0 else 0
    p = cur()
    ea, eb = _as_arith(_lift(a)), _as_arith(b.e)
    q = p.fresh_int("q").e
    r = p.fresh_int("r").e
    p.assume(z3.Implies(eb > 0, z3.And(ea == q * eb + r, 0 <= r, r < eb)))
    p.ghost.setdefault("divs", []).append((ea, eb, q, r))
    return SV(q)


def mod_pos(a, b):
    q = floordiv_pos(a, b)
    return a - q * b


def mod(a, b):
    if not is_sym(a) and not is_sym(b):
        return a % b
    if not is_sym(b):
        if isinstance(b, float) or (is_sym(a) and a.is_real):
            raise Unsupported("float modulo")
        if b == 0:
            raise Declined("ZeroDivisionError")
        ea = _as_arith(_lift(a))
        if b > 0:
            return SV(ea % b)
        return SV(-((-ea) % (-b)))
    q = floordiv(a, b)
    return SV(_as_arith(_lift(a)) - q.e * _as_arith(b.e))


def deep_eq(a, b):
    """Python == on values that may contain symbolic leaves; returns bool or SV(Bool)."""
    if isinstance(a, SV) or isinstance(b, SV):
        if isinstance(a, SV):
            r = a.__eq__(b)
        else:
            r = b.__eq__(a)
        return r
    if getattr(type(a), "__overloaded_eq__", False) or getattr(type(b), "__overloaded_eq__", False):
        return a == b  # the class overloads == to build a term (as funsor.Funsor does): the result is a value, not a truth
    f = getattr(a, "__deep_eq__", None)
    if f is not None:
        return f(b)
    f = getattr(b, "__deep_eq__", None)
    if f is not None:
        return f(a)
    if isinstance(a, (tuple, list)) and isinstance(b, (tuple, list)):
        if isinstance(a, tuple) != isinstance(b, tuple):
            return False
        if len(a) != len(b):
            return False
        return And(*[deep_eq(x, y) for x, y in zip(a, b)])
    if isinstance(a, dict) and isinstance(b, dict):
        from collections import OrderedDict

        if len(a) != len(b):
            return False
        if isinstance(a, OrderedDict) and isinstance(b, OrderedDict):
            if list(a.keys()) != list(b.keys()):
                return False
        elif set(a.keys()) != set(b.keys()):
            return False
        return And(*[deep_eq(a[k], b[k]) for k in a])
    if isinstance(a, slice) and isinstance(b, slice):
        return deep_eq((a.start, a.stop, a.step), (b.start, b.stop, b.step))
    if isinstance(a, (set, frozenset)) and isinstance(b, (set, frozenset)):
        if has_sym(a) or has_sym(b):
            raise Unsupported("equality of sets with symbolic members")
        return a == b
    r = a == b
    if isinstance(r, bool):
        return r
    if r is NotImplemented:
        return False
    raise Unsupported("== returned %r" % (type(r).__name__,))


def contains(container, x):
    f = getattr(container, "__sym_contains__", None)
    if f is not None:
        return f(x)
    if isinstance(container, (dict, set, frozenset)):
        if has_sym(x):
            if isinstance(container, dict):
                raise Unsupported("symbolic key lookup")
            if has_sym(container) or True:
                return Or(*[deep_eq(x, e) for e in container])
        return x in container
    if isinstance(container, (tuple, list)):
        if not has_sym(x) and not has_sym(container):
            return x in container
        return Or(*[deep_eq(x, e) for e in container])
    if isinstance(container, range):
        if not has_sym(x):
            return x in container
        if container.step == 1:
            return And(x >= container.start, x < container.stop)
        raise Unsupported("symbolic membership in strided range")
    try:
        return x in container
    except TypeError as ex:
        raise Unsupported("membership test failed natively: %s" % ex)


def smin(*args, key=None, default=None):
    if len(args) == 1:
        args = tuple(args[0])
    if key is not None or not any(is_sym(a) for a in args):
        if key is not None and has_sym([key(a) for a in args]):
            raise Unsupported("min with a symbolic key")
        return min(args) if key is None else min(args, key=key)
    r = args[0]
    for a in args[1:]:
        r = If(a < r, a, r)
    return r


def smax(*args, key=None, default=None):
    if len(args) == 1:
        args = tuple(args[0])
    if key is not None or not any(is_sym(a) for a in args):
        if key is not None and has_sym([key(a) for a in args]):
            raise Unsupported("max with a symbolic key")
        return max(args) if key is None else max(args, key=key)
    r = args[0]
    for a in args[1:]:
        r = If(a > r, a, r)
    return r


def sabs(x):
    if is_sym(x):
        return If(x < 0, -x, x)
    return abs(x)


def sany(it):
    for v in it:
        if truth(v):
            return True
    return False


def sall(it):
    for v in it:
        if not truth(v):
            return False
    return True


def ssum(it, start=0):
    r = start
    for v in it:
        r = r + v
    return r


def sint(x=0, *a):
    if is_sym(x):
        if x.is_bool:
            return SV(_as_arith(x.e))
        if x.is_int:
            return x
        raise Unsupported("int() of symbolic real")
    return int(x, *a)


def sbool(x=False):
    if is_sym(x):
        if x.is_bool:
            return x
        return SV(x.e != 0)
    return bool(x)


class SymRange:
    """range(n) with a symbolic bound: can only be consumed through a loop / comprehension contract"""

    def __init__(self, *args):
        if len(args) == 1:
            self.start, self.stop = 0, args[0]
        elif len(args) == 2:
            self.start, self.stop = args
        else:
            raise Unsupported("strided range with symbolic bounds")

    def __sym_iter__(self):
        raise Unsupported("iteration over a range with symbolic bound without a loop contract")


def srange(*args):
    if any(is_sym(a) for a in args):
        return SymRange(*args)
    return range(*args)


_INT_CLASSES = None


def _canon_cls(c):
    k = getattr(c, "__canon__", None)
    if k is not None:
        return k
    if c is sint:
        return int
    if c is sbool:
        return bool
    if c is srange:
        return range
    return c


def sisinstance(x, cls):
    import numbers

    cls = _canon_cls(cls)
    if isinstance(cls, tuple):
        return sany(sisinstance(x, c) for c in cls)
    f = getattr(cls, "__sym_instancecheck__", None)
    if f is not None:
        return f(x)
    if isinstance(x, SV):
        if x.is_bool:
            return cls in (bool, int, object, numbers.Number, numbers.Integral, numbers.Real)
        if x.is_int:
            return cls in (int, object, numbers.Number, numbers.Integral, numbers.Real)
        return cls in (float, object, numbers.Number, numbers.Real)
    k = getattr(x, "__model_class__", None)
    if k is not None and isinstance(cls, type):
        return issubclass(k, cls)
    return isinstance(x, cls)


def stype(x):
    if isinstance(x, SV):
        return bool if x.is_bool else int if x.is_int else float
    k = getattr(x, "__model_class__", None)
    if k is not None:
        return k
    return type(x)


def ssorted(it, key=None, reverse=False):
    xs = list(it)
    if has_sym(xs) and key is None:
        raise Unsupported("sorted on symbolic values")
    return sorted(xs, key=key, reverse=reverse)


def stuple_index(seq, i):
    """seq[i] with symbolic i: fork over positions (Python semantics incl. negative indices)."""
    n = len(seq)
    for k in range(n):
        if truth(Or(i == k, i == k - n)):
            return seq[k]
    raise Declined("IndexError")


BUILTINS = {
    "len": len,
    "tuple": tuple,
    "list": list,
    "dict": dict,
    "set": set,
    "frozenset": frozenset,
    "zip": zip,
    "enumerate": enumerate,
    "range": srange,
    "reversed": reversed,
    "sorted": ssorted,
    "min": smin,
    "max": smax,
    "sum": ssum,
    "any": sany,
    "all": sall,
    "abs": sabs,
    "int": sint,
    "bool": sbool,
    "str": str,
    "isinstance": sisinstance,
    "type": stype,
    "slice": slice,
    "map": map,
    "filter": filter,
    "next": next,
    "iter": iter,
    "repr": repr,
    "getattr": getattr,
    "hasattr": hasattr,
    "setattr": setattr,
    "id": id,
    "hash": hash,
    "callable": callable,
    "object": object,
    "float": float,
    "None": None,
    "True": True,
    "False": False,
    "Ellipsis": Ellipsis,
    "NotImplemented": NotImplemented,
    "ValueError": ValueError,
    "TypeError": TypeError,
    "KeyError": KeyError,
    "IndexError": IndexError,
    "NotImplementedError": NotImplementedError,
    "AssertionError": AssertionError,
    "RuntimeError": RuntimeError,
    "StopIteration": StopIteration,
    "AttributeError": AttributeError,
    "ZeroDivisionError": ZeroDivisionError,
    "Exception": Exception,
    "BaseException": BaseException,
}

# CPython exceptions that, raised by a concrete operation, mean "the real code raises here"
_DECLINE_EXC = (KeyError, ValueError, IndexError, AssertionError, NotImplementedError, ZeroDivisionError, StopIteration)


# --------------------------------------------------------------------------------------------------
# source extraction
# --------------------------------------------------------------------------------------------------
class Located:
    def __init__(self, path, qualname, node, source, cls=None):
        self.path, self.qualname, self.node, self.source, self.cls = path, qualname, node, source, cls
        self.sha = hashlib.sha256(source.encode()).hexdigest()[:16]
        self.lineno = node.lineno


_PARSE_CACHE = {}


def parse_file(path):
    full = os.path.join(REPO, path)
    st = os.stat(full)
    key = (full, st.st_mtime_ns, st.st_size)
    if key not in _PARSE_CACHE:
        src = open(full).read()
        _PARSE_CACHE[key] = (src, ast.parse(src))
    return _PARSE_CACHE[key]


def locate(path, qualname, ordinal=0):
    """find FunctionDef by dotted qualname ('Cat.eager_subs', 'parse_slice') and occurrence ordinal."""
    src, tree = parse_file(path)
    parts = qualname.split(".")
    found = []

    def walk(body, prefix, cls):
        for n in body:
            if isinstance(n, ast.ClassDef):
                walk(n.body, prefix + [n.name], n)
            elif isinstance(n, (ast.FunctionDef, ast.AsyncFunctionDef)):
                if prefix + [n.name] == parts:
                    found.append((n, cls))
                # nested functions
                walk(n.body, prefix + [n.name], cls)
            elif isinstance(n, (ast.If, ast.Try, ast.With)):
                for sub in ast.iter_child_nodes(n):
                    pass
                walk([c for c in ast.walk(n) if isinstance(c, (ast.FunctionDef, ast.ClassDef)) and c is not n and _direct_child_stmt(n, c)], prefix, cls)

    walk(tree.body, [], None)
    if len(found) <= ordinal:
        raise FunctionMissing("function %s#%d not found in %s (found %d)" % (qualname, ordinal, path, len(found)))
    node, cls = found[ordinal]
    seg = ast.get_source_segment(src, node)
    return Located(path, qualname, node, seg, cls)


def _direct_child_stmt(parent, child):
    for f in ("body", "orelse", "finalbody", "handlers"):
        for c in getattr(parent, f, []) or []:
            if c is child:
                return True
            if isinstance(c, ast.ExceptHandler) and child in c.body:
                return True
    return False


# --------------------------------------------------------------------------------------------------
# the evaluator
# --------------------------------------------------------------------------------------------------
class Scope:
    def __init__(self, parent=None, globals_=None):
        self.vars = {}
        self.parent = parent
        self.globals = globals_ if globals_ is not None else (parent.globals if parent else {})
        self.global_names = set()
        self.nonlocal_names = set()

    def lookup(self, name):
        s = self
        while s is not None:
            if name in s.vars:
                return s.vars[name]
            s = s.parent
        if name in self.globals:
            return self.globals[name]
        if name in BUILTINS:
            return BUILTINS[name]
        raise Unsupported("name %r is not in the curated namespace" % name)

    def store(self, name, value):
        if name in self.global_names:
            self.globals[name] = value
            return
        if name in self.nonlocal_names:
            s = self.parent
            while s is not None:
                if name in s.vars:
                    s.vars[name] = value
                    return
                s = s.parent
        self.vars[name] = value


class IFunc:
    """closure over interpreted code (lambda / nested def / the function under verification)"""

    def __init__(self, interp, node, scope, name="<lambda>"):
        self.interp, self.node, self.scope, self.__name__ = interp, node, scope, name
        self.defaults = [interp.eval(d, scope) for d in node.args.defaults]
        self.kw_defaults = [None if d is None else interp.eval(d, scope) for d in node.args.kw_defaults]

    def bind(self, args, kwargs):
        a = self.node.args
        env = {}
        pos = [x.arg for x in a.posonlyargs + a.args]
        args = list(args)
        kwargs = dict(kwargs)
        for i, name in enumerate(pos):
            if i < len(args):
                env[name] = args[i]
            elif name in kwargs:
                env[name] = kwargs.pop(name)
            else:
                j = i - (len(pos) - len(self.defaults))
                if j < 0:
                    raise Declined("TypeError", "missing argument %s" % name)
                env[name] = self.defaults[j]
        if a.vararg:
            env[a.vararg.arg] = tuple(args[len(pos):])
        elif len(args) > len(pos):
            raise Declined("TypeError", "too many positional arguments")
        for k, x in enumerate(a.kwonlyargs):
            if x.arg in kwargs:
                env[x.arg] = kwargs.pop(x.arg)
            elif self.kw_defaults[k] is not None or a.kw_defaults[k] is not None:
                env[x.arg] = self.kw_defaults[k]
            else:
                raise Declined("TypeError", "missing kw-only argument")
        if a.kwarg:
            env[a.kwarg.arg] = kwargs
        elif kwargs:
            raise Declined("TypeError", "unexpected keyword %s" % list(kwargs))
        return env

    def __call__(self, *args, **kwargs):
        sc = Scope(self.scope)
        sc.vars.update(self.bind(args, kwargs))
        if isinstance(self.node, ast.Lambda):
            return self.interp.eval(self.node.body, sc)
        try:
            self.interp.exec_block(self.node.body, sc)
        except _Return as r:
            return r.value
        return None

    def __get__(self, obj, objtype=None):
        if obj is None:
            return self
        import functools

        return functools.partial(self, obj)


class Interp:
    def __init__(self, hooks=None, max_steps=200000):
        self.hooks = hooks or {}
        self.steps = 0
        self.max_steps = max_steps
        self.loop_ordinal = 0

    # ---- statements
    def exec_block(self, stmts, sc):
        for s in stmts:
            self.exec(s, sc)

    def exec(self, s, sc):
        self.steps += 1
        if self.steps > self.max_steps:
            raise Unsupported("step budget exhausted")
        m = getattr(self, "s_" + type(s).__name__, None)
        if m is None:
            raise Unsupported("statement %s" % type(s).__name__)
        return m(s, sc)

    def s_Expr(self, s, sc):
        if isinstance(s.value, ast.Constant) and isinstance(s.value.value, str):
            return  # docstring: dropped
        self.eval(s.value, sc)

    def s_Pass(self, s, sc):
        pass

    def s_Assign(self, s, sc):
        v = self.eval(s.value, sc)
        for t in s.targets:
            self.assign(t, v, sc)

    def s_AnnAssign(self, s, sc):
        if s.value is not None:
            self.assign(s.target, self.eval(s.value, sc), sc)

    def s_AugAssign(self, s, sc):
        t = s.target
        if isinstance(t, ast.Name):
            cur_v = sc.lookup(t.id)
            new = self.binop(s.op, cur_v, self.eval(s.value, sc), inplace=True)
            sc.store(t.id, new)
        elif isinstance(t, ast.Subscript):
            obj = self.eval(t.value, sc)
            idx = self.eval_index(t.slice, sc)
            new = self.binop(s.op, self.subscript(obj, idx), self.eval(s.value, sc), inplace=True)
            self.setitem(obj, idx, new)
        elif isinstance(t, ast.Attribute):
            obj = self.eval(t.value, sc)
            new = self.binop(s.op, getattr(obj, t.attr), self.eval(s.value, sc), inplace=True)
            setattr(obj, t.attr, new)
        else:
            raise Unsupported("augmented assignment target")

    def assign(self, t, v, sc):
        if isinstance(t, ast.Name):
            sc.store(t.id, v)
        elif isinstance(t, (ast.Tuple, ast.List)):
            vs = list(v)
            star = [i for i, e in enumerate(t.elts) if isinstance(e, ast.Starred)]
            if star:
                i = star[0]
                after = len(t.elts) - i - 1
                if len(vs) < len(t.elts) - 1:
                    raise Declined("ValueError", "not enough values to unpack")
                for e, x in zip(t.elts[:i], vs[:i]):
                    self.assign(e, x, sc)
                self.assign(t.elts[i].value, list(vs[i:len(vs) - after]), sc)
                for e, x in zip(t.elts[i + 1:], vs[len(vs) - after:]):
                    self.assign(e, x, sc)
            else:
                if len(vs) != len(t.elts):
                    raise Declined("ValueError", "unpack length mismatch")
                for e, x in zip(t.elts, vs):
                    self.assign(e, x, sc)
        elif isinstance(t, ast.Subscript):
            obj = self.eval(t.value, sc)
            idx = self.eval_index(t.slice, sc)
            self.setitem(obj, idx, v)
        elif isinstance(t, ast.Attribute):
            obj = self.eval(t.value, sc)
            h = self.hooks.get("setattr")
            if h is not None and h(obj, t.attr, v):
                return
            setattr(obj, t.attr, v)
        else:
            raise Unsupported("assignment target %s" % type(t).__name__)

    def setitem(self, obj, idx, v):
        f = getattr(obj, "__sym_setitem__", None)
        if f is not None:
            return f(idx, v)
        if has_sym(idx) and isinstance(obj, (dict, list)):
            raise Unsupported("store at symbolic index/key")
        self.native(lambda: obj.__setitem__(idx, v))

    def s_Delete(self, s, sc):
        for t in s.targets:
            if isinstance(t, ast.Subscript):
                obj = self.eval(t.value, sc)
                idx = self.eval_index(t.slice, sc)
                if has_sym(idx):
                    raise Unsupported("del at symbolic key")
                self.native(lambda: obj.__delitem__(idx))
            elif isinstance(t, ast.Name):
                del sc.vars[t.id]
            else:
                raise Unsupported("del target")

    def s_If(self, s, sc):
        if truth(self.eval(s.test, sc)):
            self.exec_block(s.body, sc)
        else:
            self.exec_block(s.orelse, sc)

    def s_For(self, s, sc):
        ordinal = self.loop_ordinal
        self.loop_ordinal += 1
        it = self.eval(s.iter, sc)
        h = self.hooks.get("loop")
        if h is not None and h(self, s, sc, ordinal, it):
            return
        broke = False
        for v in self.iterate(it):
            self.assign(s.target, v, sc)
            try:
                self.exec_block(s.body, sc)
            except _Break:
                broke = True
                break
            except _Continue:
                continue
        if not broke:
            self.exec_block(s.orelse, sc)

    def iterate(self, it):
        f = getattr(it, "__sym_iter__", None)
        if f is not None:
            return f()
        if isinstance(it, SV):
            raise Unsupported("iteration over symbolic leaf")
        return iter(it)

    def s_While(self, s, sc):
        ordinal = self.loop_ordinal
        self.loop_ordinal += 1
        h = self.hooks.get("while")
        if h is not None and h(self, s, sc, ordinal):
            return
        n = 0
        while truth(self.eval(s.test, sc)):
            n += 1
            if n > 64:
                raise Unsupported("while loop unrolled more than 64 times (needs a loop contract)")
            try:
                self.exec_block(s.body, sc)
            except _Break:
                return
            except _Continue:
                continue
        self.exec_block(s.orelse, sc)

    def s_Return(self, s, sc):
        raise _Return(None if s.value is None else self.eval(s.value, sc))

    def s_Break(self, s, sc):
        raise _Break()

    def s_Continue(self, s, sc):
        raise _Continue()

    def s_Assert(self, s, sc):
        if not truth(self.eval(s.test, sc)):
            raise Declined("AssertionError")

    def s_Raise(self, s, sc):
        name = "Exception"
        if s.exc is not None:
            e = s.exc
            if isinstance(e, ast.Call):
                e = e.func
            if isinstance(e, ast.Name):
                name = e.id
            elif isinstance(e, ast.Attribute):
                name = e.attr
        raise Declined(name)

    def s_Global(self, s, sc):
        sc.global_names.update(s.names)

    def s_Nonlocal(self, s, sc):
        sc.nonlocal_names.update(s.names)

    def s_FunctionDef(self, s, sc):
        f = IFunc(self, s, sc, s.name)
        # decorators are dropped (registration has no effect on the body); stated in the evidence
        sc.store(s.name, f)

    def s_Import(self, s, sc):
        for a in s.names:
            name = (a.asname or a.name).split(".")[0]
            sc.lookup(name)  # must be in the curated namespace

    def s_ImportFrom(self, s, sc):
        for a in s.names:
            sc.lookup(a.asname or a.name)

    def s_With(self, s, sc):
        if len(s.items) != 1:
            # nested form: with a, b: == with a: with b:
            inner = ast.With(items=s.items[1:], body=s.body)
            outer = ast.With(items=s.items[:1], body=[inner])
            return self.s_With(outer, sc)
        item = s.items[0]
        ctx = self.eval(item.context_expr, sc)
        enter = getattr(ctx, "__enter__", None)
        exit_ = getattr(ctx, "__exit__", None)
        if enter is None or exit_ is None:
            raise Unsupported("with on an object without a context-manager model")
        v = enter()
        if item.optional_vars is not None:
            self.assign(item.optional_vars, v, sc)
        try:
            self.exec_block(s.body, sc)
        except Declined as d:
            r = exit_(d.etype, d, None)
            if truth(r):
                return
            raise
        except (_Return, _Break, _Continue):
            exit_(None, None, None)
            raise
        except (Unsupported, Infeasible):
            raise
        else:
            exit_(None, None, None)

    def handler_matches(self, h, d, sc):
        if h.type is None:
            return True
        names = []
        t = h.type
        for e in t.elts if isinstance(t, ast.Tuple) else [t]:
            names.append(e.id if isinstance(e, ast.Name) else getattr(e, "attr", "?"))
        if d.etype in names or "Exception" in names or "BaseException" in names:
            return True
        # subclass relations among the few builtin exceptions we model
        parents = {"KeyError": "LookupError", "IndexError": "LookupError", "NotImplementedError": "RuntimeError"}
        return parents.get(d.etype) in names

    # ---- expressions
    def eval(self, e, sc):
        self.steps += 1
        if self.steps > self.max_steps:
            raise Unsupported("step budget exhausted")
        m = getattr(self, "e_" + type(e).__name__, None)
        if m is None:
            raise Unsupported("expression %s" % type(e).__name__)
        return m(e, sc)

    def native(self, thunk):
        try:
            return thunk()
        except _DECLINE_EXC as ex:
            raise Declined(type(ex).__name__, str(ex))
        except (TypeError, AttributeError) as ex:
            raise Unsupported("native operation failed in the model: %s: %s" % (type(ex).__name__, ex))

    def e_Constant(self, e, sc):
        return e.value

    def e_Name(self, e, sc):
        return sc.lookup(e.id)

    def e_Tuple(self, e, sc):
        return tuple(self.eval_elts(e.elts, sc))

    def e_List(self, e, sc):
        return list(self.eval_elts(e.elts, sc))

    def e_Set(self, e, sc):
        xs = self.eval_elts(e.elts, sc)
        if has_sym(xs):
            raise Unsupported("set display with symbolic members")
        return set(xs)

    def eval_elts(self, elts, sc):
        out = []
        for x in elts:
            if isinstance(x, ast.Starred):
                out.extend(self.iterate(self.eval(x.value, sc)))
            else:
                out.append(self.eval(x, sc))
        return out

    def e_Dict(self, e, sc):
        d = {}
        for k, v in zip(e.keys, e.values):
            if k is None:
                d.update(self.eval(v, sc))
            else:
                kk = self.eval(k, sc)
                if has_sym(kk):
                    raise Unsupported("dict display with symbolic key")
                d[kk] = self.eval(v, sc)
        return d

    def e_JoinedStr(self, e, sc):
        out = []
        for v in e.values:
            if isinstance(v, ast.Constant):
                out.append(str(v.value))
            else:
                x = self.eval(v.value, sc)
                out.append("<sym>" if has_sym(x) else str(x))
        return "".join(out)

    def e_UnaryOp(self, e, sc):
        v = self.eval(e.operand, sc)
        if isinstance(e.op, ast.Not):
            if isinstance(v, SV):
                return Not(sbool(v))
            return not truth(v) if has_sym(v) else not v
        if isinstance(e.op, ast.USub):
            return self.native(lambda: -v)
        if isinstance(e.op, ast.UAdd):
            return self.native(lambda: +v)
        if isinstance(e.op, ast.Invert):
            return self.native(lambda: ~v)
        raise Unsupported("unary op")

    _BIN = {
        ast.Add: lambda a, b: a + b,
        ast.Sub: lambda a, b: a - b,
        ast.Mult: lambda a, b: a * b,
        ast.FloorDiv: lambda a, b: floordiv(a, b) if (is_sym(a) or is_sym(b)) and isinstance(a, (SV, int, float)) and isinstance(b, (SV, int, float)) else a // b,
        ast.Mod: lambda a, b: mod(a, b) if (is_sym(a) or is_sym(b)) and isinstance(a, (SV, int, float)) and isinstance(b, (SV, int, float)) else a % b,
        ast.Div: lambda a, b: a / b,
        ast.Pow: lambda a, b: a ** b,
        ast.BitAnd: lambda a, b: a & b,
        ast.BitOr: lambda a, b: a | b,
        ast.BitXor: lambda a, b: a ^ b,
        ast.MatMult: lambda a, b: a @ b,
        ast.LShift: lambda a, b: a << b,
        ast.RShift: lambda a, b: a >> b,
    }

    def binop(self, op, a, b, inplace=False):
        f = self._BIN.get(type(op))
        if f is None:
            raise Unsupported("binary op %s" % type(op).__name__)
        if inplace and isinstance(a, list) and isinstance(op, ast.Add):
            a.extend(b)
            return a
        if inplace and isinstance(a, (set, dict)) and isinstance(op, (ast.BitOr, ast.BitAnd, ast.Sub)):
            # in-place set/dict operators mutate: keep Python's aliasing semantics
            if isinstance(op, ast.BitOr):
                a |= b
            elif isinstance(op, ast.BitAnd):
                a &= b
            else:
                a -= b
            return a
        if isinstance(op, ast.Mod) and isinstance(a, str):
            return "<fmt>" if has_sym(b) else self.native(lambda: a % b)
        return self.native(lambda: f(a, b))

    def e_BinOp(self, e, sc):
        return self.binop(e.op, self.eval(e.left, sc), self.eval(e.right, sc))

    def e_BoolOp(self, e, sc):
        is_and = isinstance(e.op, ast.And)
        v = None
        for i, x in enumerate(e.values):
            v = self.eval(x, sc)
            if i == len(e.values) - 1:
                return v
            t = truth(v)
            if is_and and not t:
                return v if not isinstance(v, SV) else False
            if not is_and and t:
                return v if not isinstance(v, SV) else True
        return v

    def compare(self, op, a, b):
        if isinstance(op, ast.Eq):
            return deep_eq(a, b)
        if isinstance(op, ast.NotEq):
            return Not(deep_eq(a, b))
        if isinstance(op, (ast.Is, ast.IsNot)):
            f = getattr(a, "__sym_is__", None)
            r = None
            if f is not None:
                r = f(b)
            else:
                f = getattr(b, "__sym_is__", None)
                if f is not None:
                    r = f(a)
            if r is None:
                r = _canon_cls(a) is _canon_cls(b)
            return r if isinstance(op, ast.Is) else Not(r)
        if isinstance(op, ast.In):
            return contains(b, a)
        if isinstance(op, ast.NotIn):
            return Not(contains(b, a))
        if has_sym(a) or has_sym(b):
            if not (isinstance(a, (SV, int, float, bool)) and isinstance(b, (SV, int, float, bool))):
                f = getattr(a, "__sym_compare__", None)
                if f is not None:
                    return f(type(op).__name__, b)
                raise Unsupported("ordering comparison of structured symbolic values")
        if isinstance(op, ast.Lt):
            return self.native(lambda: a < b)
        if isinstance(op, ast.LtE):
            return self.native(lambda: a <= b)
        if isinstance(op, ast.Gt):
            return self.native(lambda: a > b)
        if isinstance(op, ast.GtE):
            return self.native(lambda: a >= b)
        raise Unsupported("comparison")

    def e_Compare(self, e, sc):
        left = self.eval(e.left, sc)
        result = True
        for i, (op, right_e) in enumerate(zip(e.ops, e.comparators)):
            right = self.eval(right_e, sc)
            r = self.compare(op, left, right)
            if i == len(e.ops) - 1:
                if result is True:
                    return r
                return And(result, r)
            # chained: short-circuit
            if not truth(r):
                return False
            left = right
        return result

    def e_IfExp(self, e, sc):
        if truth(self.eval(e.test, sc)):
            return self.eval(e.body, sc)
        return self.eval(e.orelse, sc)

    def e_Lambda(self, e, sc):
        return IFunc(self, e, sc)

    def e_Attribute(self, e, sc):
        obj = self.eval(e.value, sc)
        h = self.hooks.get("getattr")
        if h is not None:
            r = h(obj, e.attr)
            if r is not NotImplemented:
                return r
        if isinstance(obj, SV):
            raise Unsupported("attribute %s of symbolic leaf" % e.attr)
        try:
            return getattr(obj, e.attr)
        except AttributeError as ex:
            raise Unsupported("model lacks attribute: %s" % ex)

    def eval_index(self, s, sc):
        if isinstance(s, ast.Slice):
            return slice(
                None if s.lower is None else self.eval(s.lower, sc),
                None if s.upper is None else self.eval(s.upper, sc),
                None if s.step is None else self.eval(s.step, sc),
            )
        if isinstance(s, ast.Tuple):
            return tuple(self.eval_index(x, sc) for x in s.elts)
        return self.eval(s, sc)

    def subscript(self, obj, idx):
        f = getattr(obj, "__sym_getitem__", None)
        if f is not None:
            return f(idx)
        if isinstance(obj, (tuple, list, str, range)):
            if isinstance(idx, SV):
                return stuple_index(obj, idx)
            if isinstance(idx, slice) and has_sym(idx):
                raise Unsupported("slicing a sequence at symbolic bounds")
        elif isinstance(obj, dict) and has_sym(idx):
            raise Unsupported("dict lookup with symbolic key")
        elif isinstance(obj, SV):
            raise Unsupported("subscript of symbolic leaf")
        return self.native(lambda: obj[idx])

    def e_Subscript(self, e, sc):
        obj = self.eval(e.value, sc)
        idx = self.eval_index(e.slice, sc)
        return self.subscript(obj, idx)

    def e_Yield(self, e, sc):
        h = self.hooks.get("yield")
        if h is None:
            raise Unsupported("yield without a generator model")
        return h(None if e.value is None else self.eval(e.value, sc))

    def e_Starred(self, e, sc):
        raise Unsupported("starred expression outside call/display")

    def e_Call(self, e, sc):
        # super() without arguments
        if isinstance(e.func, ast.Name) and e.func.id == "super":
            h = self.hooks.get("super")
            if h is None:
                raise Unsupported("super() without a model")
            if e.args:
                return h(sc, *[self.eval(a, sc) for a in e.args])
            return h(sc)
        f = self.eval(e.func, sc)
        if f is None:
            raise Declined("TypeError", "'NoneType' object is not callable")  # what CPython raises: the real code fails here
        args = []
        for a in e.args:
            if isinstance(a, ast.Starred):
                args.extend(self.iterate(self.eval(a.value, sc)))
            else:
                args.append(self.eval(a, sc))
        kwargs = {}
        for k in e.keywords:
            if k.arg is None:
                kwargs.update(self.eval(k.value, sc))
            else:
                kwargs[k.arg] = self.eval(k.value, sc)
        return self.call(f, args, kwargs, e)

    def call(self, f, args, kwargs, node=None):
        if isinstance(f, IFunc):
            return f(*args, **kwargs)
        if isinstance(f, SV):
            raise Unsupported("call of symbolic leaf")
        if not callable(f):
            raise Unsupported("call of non-callable model %r" % (f,))
        try:
            return f(*args, **kwargs)
        except (Declined, Unsupported, Infeasible, _Return, _Break, _Continue):
            raise
        except _DECLINE_EXC as ex:
            raise Declined(type(ex).__name__, str(ex))
        except (TypeError, AttributeError, RecursionError) as ex:
            raise Unsupported("call failed in the model: %s: %s" % (type(ex).__name__, ex))

    # comprehensions
    def _comp(self, generators, sc, emit):
        def rec(i, scope):
            if i == len(generators):
                emit(scope)
                return
            g = generators[i]
            it = self.eval(g.iter, scope)
            for v in self.iterate(it):
                self.assign(g.target, v, scope)
                if all(truth(self.eval(c, scope)) for c in g.ifs):
                    rec(i + 1, scope)

        rec(0, Scope(sc))

    def e_ListComp(self, e, sc):
        h = self.hooks.get("comp")
        if h is not None:
            r = h(self, e, sc)
            if r is not NotImplemented:
                return r
        out = []
        self._comp(e.generators, sc, lambda s: out.append(self.eval(e.elt, s)))
        return out

    def e_GeneratorExp(self, e, sc):
        # evaluated eagerly (generators in the verified code are consumed immediately by tuple/any/all/sum/...)
        out = []
        self._comp(e.generators, sc, lambda s: out.append(self.eval(e.elt, s)))
        return iter(out)

    def e_SetComp(self, e, sc):
        out = []
        self._comp(e.generators, sc, lambda s: out.append(self.eval(e.elt, s)))
        if has_sym(out):
            raise Unsupported("set comprehension with symbolic members")
        return set(out)

    def e_DictComp(self, e, sc):
        out = {}

        def emit(s):
            k = self.eval(e.key, s)
            if has_sym(k):
                raise Unsupported("dict comprehension with symbolic key")
            out[k] = self.eval(e.value, s)

        self._comp(e.generators, sc, emit)
        return out


# fix s_Try (written compactly above with a syntax placeholder) -------------------------------------
def _s_Try(self, s, sc):
    try:
        try:
            self.exec_block(s.body, sc)
        except Declined as d:
            for h in s.handlers:
                if self.handler_matches(h, d, sc):
                    if h.name:
                        sc.store(h.name, d)
                    self.exec_block(h.body, sc)
                    break
            else:
                raise
        else:
            self.exec_block(s.orelse, sc)
    finally:
        # note: runs on _Return/_Break/Declined alike, as in CPython; Unsupported/Infeasible abort the path anyway
        self.exec_block(s.finalbody, sc)


Interp.s_Try = _s_Try


# --------------------------------------------------------------------------------------------------
# exploring all paths of one function under one structure
# --------------------------------------------------------------------------------------------------
class PathResult:
    __slots__ = ("kind", "value", "pc", "detail", "decisions", "ghost", "solver_time", "queries", "extra")

    def __init__(self, kind, value=None, pc=None, detail="", decisions=(), ghost=None, solver_time=0.0, queries=0, extra=None):
        self.kind, self.value, self.pc, self.detail = kind, value, pc or [], detail
        self.decisions, self.ghost, self.solver_time, self.queries, self.extra = decisions, ghost or {}, solver_time, queries, extra


def explore(run_once, max_paths=4000, timeout_ms=20000):
    """run_once(path) executes the function body once under the Path; returns the value.
    Yields PathResult for every feasible path (kind in returned / declined / unsupported)."""
    global CUR
    work = [()]
    n = 0
    while work:
        prefix = work.pop()
        n += 1
        if n > max_paths:
            yield PathResult("unsupported", detail="more than %d paths" % max_paths)
            return
        p = Path(prefix, timeout_ms)
        CUR = p
        try:
            try:
                v = run_once(p)
                res = PathResult("returned", v, list(p.pc))
            except _Return as r:
                res = PathResult("returned", r.value, list(p.pc))
            except Declined as d:
                res = PathResult("declined", None, list(p.pc), "%s %s" % (d.etype, d.msg))
            except Infeasible:
                res = None
            except Unsupported as u:
                res = PathResult("unsupported", None, list(p.pc), str(u))
            except RecursionError:
                res = PathResult("unsupported", None, list(p.pc), "recursion limit in the evaluator")
        finally:
            CUR = None
        work.extend(p.alternatives)
        if res is not None:
            res.decisions = tuple(p.decisions)
            res.ghost = p.ghost
            res.solver_time = p.solver_time
            res.queries = p.queries
            res.extra = p
            yield res


def make_callable(loc, namespace, hooks=None):
    """interpretable closure for the located function with the curated namespace as its globals"""
    interp = Interp(hooks=hooks)
    sc = Scope(None, dict(namespace))
    return IFunc(interp, loc.node, sc, loc.qualname), interp
