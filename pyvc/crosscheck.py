"""CPython cross-check of the executor (DESIGN 2.8): the meta-circular evaluator is run on ALL-CONCRETE inputs and its
result (value or exception class) is compared with real execution of the same function imported from /repo, on an
enumerated input set.  A disagreement is a checker defect (exit 3) -- it exposes a wrong encoding of //, %, slicing,
min/max, short-circuit, dict order, comprehension scoping, try/except ..."""
import itertools
import re
from collections import OrderedDict

from . import core


def _run_interp(loc, ns, args, kwargs=None):
    core.CUR = core.Path()
    try:
        f, _ = core.make_callable(loc, ns)
        try:
            return ("value", f(*args, **(kwargs or {})))
        except core.Declined as d:
            return ("raises", d.etype)
        except core._Return as r:
            return ("value", r.value)
    finally:
        core.CUR = None


def _run_real(fn, args, kwargs=None):
    try:
        return ("value", fn(*args, **(kwargs or {})))
    except Exception as e:  # noqa
        return ("raises", type(e).__name__)


def cases():
    import funsor  # noqa
    from funsor.ops import builtin as B
    from funsor import util as U
    from funsor import gaussian as G
    from funsor import sum_product as SP
    from funsor.domains import Bint, Reals, Real

    ints = [None, -5, -2, -1, 0, 1, 2, 3, 7]
    out = []
    sl = [slice(a, b, c) for a in ints for b in ints for c in (None, 1, 2, 3)]
    out.append(("funsor/ops/builtin.py", "parse_slice", B.parse_slice, {}, [((s, n), {}) for s in sl for n in (0, 1, 3, 5)]))
    parts = [None, 0, slice(None), slice(1, 2), Ellipsis, 5]
    idxs = [p for k in range(0, 4) for p in itertools.product(parts, repeat=k)] + [3, slice(1), Ellipsis]
    out.append(("funsor/ops/builtin.py", "parse_ellipsis", B.parse_ellipsis, {}, [((i,), {}) for i in idxs]))
    out.append(("funsor/ops/builtin.py", "normalize_ellipsis", B.normalize_ellipsis, {"parse_ellipsis": B.parse_ellipsis}, [((i, n), {}) for i in idxs for n in (0, 1, 2, 4)]))
    shapes = [(), (1,), (2,), (3,), (0,), (2, 1), (1, 3), (2, 3), (3, 2), (2, 1, 3), (1, 1), (4, 1, 1)]
    bs = [((a, b), {}) for a in shapes for b in shapes] + [((a, b, c), {}) for a in shapes[:6] for b in shapes[:6] for c in shapes[:6]] + [((a, b), {"strict": True}) for a in shapes[:7] for b in shapes[:7]]
    out.append(("funsor/util.py", "broadcast_shape", U.broadcast_shape, {}, bs))
    doms = [Bint[2], Bint[3], Real, Reals[2], Reals[2, 3], Reals[1]]
    inps = [OrderedDict(zip("abcd", c)) for k in range(0, 4) for c in itertools.product(doms, repeat=k)]
    out.append(("funsor/gaussian.py", "_compute_offsets", G._compute_offsets, {"OrderedDict": OrderedDict}, [((i,), {}) for i in inps]))
    ivs = [[], [(0, 2)], [(1, 2), (3, 5)], [(0, 1), (1, 4)], [(2, 3)]]
    out.append(("funsor/gaussian.py", "_find_intervals", G._find_intervals, {}, [((iv, e), {}) for iv in ivs for e in (5, 6, 9)]))
    names = ["x", "_PREV_x", "_PREV__PREV_x", "x_PREV_", "_PREV_"]
    out.append(("funsor/sum_product.py", "_get_shift", SP._get_shift, {"re": re}, [((n,), {}) for n in names]))
    out.append(("funsor/sum_product.py", "_shift_name", SP._shift_name, {"re": re, "_get_shift": SP._get_shift}, [((n, t), {}) for n in names for t in (0, 1, 2)]))
    return out


def run():
    bad = []
    total = 0
    for path, qual, real, ns, inputs in cases():
        try:
            loc = core.locate(path, qual)
        except core.FunctionMissing:
            continue
        for args, kwargs in inputs:
            total += 1
            a = _run_interp(loc, dict(ns), args, kwargs)
            b = _run_real(real, args, kwargs)
            if a[0] != b[0] or (a[0] == "value" and not _same(a[1], b[1])) or (a[0] == "raises" and a[1] != b[1]):
                bad.append((qual, repr(args)[:120], repr(a)[:120], repr(b)[:120]))
                if len(bad) > 10:
                    return bad, total
    return bad, total


def _same(a, b):
    try:
        return a == b and type(a) == type(b)
    except Exception:
        return False


if __name__ == "__main__":
    bad, total = run()
    print(total, "concrete executions compared;", len(bad), "disagreements")
    for b in bad[:10]:
        print(b)
