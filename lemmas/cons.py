"""C07: table invariant preserved by get-or-create (over the contracts of contracts/c_cons.py) and its consequences.
Inv(T): every entry T[k] was built from arguments whose key is k.  With key injectivity (MakeHashKey: equal keys <=> equal
hashable / identical unhashable arguments, for live objects -- id() unique among live objects is an axiom):
  same-args  => same key => the second request is a hit and returns the identical object;
  different args => different keys => different entries (objects built by different constructor calls are distinct)."""
import z3

from . import lemma

K = z3.DeclareSort("Key")
A = z3.DeclareSort("Args")
O = z3.DeclareSort("Obj")


@lemma("C07")
def get_or_create_preserves_invariant():
    key = z3.Function("key", A, K)  # make_hash_key
    built = z3.Function("built_from", O, A)  # ghost: the arguments an object was constructed from
    T0 = z3.Array("T0", K, O)
    D0 = z3.Array("D0", K, z3.BoolSort())  # domain of the table
    a, a2 = z3.Consts("a a2", A)
    o = z3.Const("o", O)
    k = z3.Const("k", K)
    inv = lambda T, D: z3.ForAll([k], z3.Implies(D[k], key(built(T[k])) == k))
    # miss: T1 = T0[key(a) := o], built(o) = a    (contract: constructed from exactly the arguments, stored under exactly the key)
    T1 = z3.Store(T0, key(a), o)
    D1 = z3.Store(D0, key(a), True)
    miss = z3.And(z3.Not(D0[key(a)]), built(o) == a)
    goals = [
        ("invariant_preserved_by_miss", z3.Implies(z3.And(inv(T0, D0), miss), inv(T1, D1)), []),
        # a later request with arguments of the same key returns the identical object (hit contract: returns T[key])
        ("equal_keys_give_identical_object", z3.Implies(z3.And(miss, key(a2) == key(a)), T1[key(a2)] == o), []),
        # an entry removed by the environment (weak table: value died) keeps the invariant
        ("invariant_preserved_by_removal", z3.Implies(inv(T0, D0), inv(T0, z3.Store(D0, k, False))), ["an entry disappears only when its value is unreachable (CPython weak references)"]),
        # no stale object: whatever a hit returns was built from arguments with this very key
        ("hit_never_returns_object_of_other_key", z3.Implies(z3.And(inv(T0, D0), D0[key(a)]), key(built(T0[key(a)])) == key(a)), []),
    ]
    return goals
