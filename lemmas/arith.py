"""Arithmetic lemma schemas whose ground instances are used as hints by the contracts (contracts/c_domains.div_hints,
contracts/c_terms.mul_hints).  A hint is only ever an instance of one of these universally quantified, proved facts."""
import z3

from . import lemma

ALL = ("C01", "C04", "C06", "C10", "C12", "C13", "C14", "C11")


@lemma(*ALL)
def mul_ge():
    k, b = z3.Ints("k b")
    return [
        ("pos", z3.ForAll([k, b], z3.Implies(z3.And(b >= 0, k >= 1), k * b >= b)), []),
        ("neg", z3.ForAll([k, b], z3.Implies(z3.And(b >= 0, k <= -1), k * b <= -b)), []),
    ]


@lemma(*ALL)
def quotient_sign():
    a, b, q, r = z3.Ints("a b q r")
    eu = z3.And(a == q * b + r, 0 <= r, r < b, b > 0)
    return [
        ("nonneg", z3.ForAll([a, b, q, r], z3.Implies(z3.And(eu, a >= 0), q >= 0)), []),
        ("neg", z3.ForAll([a, b, q, r], z3.Implies(z3.And(eu, a < 0), q < 0)), []),
        ("ge_one", z3.ForAll([a, b, q, r], z3.Implies(z3.And(eu, a >= b), q >= 1)), []),
    ]
