"""C17: the all-depths nesting lemma over the contracts of push / pop / __enter__ / __exit__ (contracts/c_interp.py) and
Python's `with` rule, stated over z3 sequences.  Together with the frame scan (frame/stack_scan.py: nobody else writes
_STACK, every `with` is plain) it gives, by induction on the structure of a well-nested enter/exit word:
   balanced(B) := every execution of B, normal or exceptional, ends with _STACK equal to its initial value and keeps
                  that initial value as a prefix throughout.
The three goals below are the induction's cases; the induction itself (on the nesting structure of the word) is the
standard structural one and is NOT mechanised beyond these cases (stated in the evidence)."""
import z3

from . import lemma

E = z3.DeclareSort("Interp")
S = z3.SeqSort(E)


def last_removed(s):
    return z3.SubSeq(s, 0, z3.Length(s) - 1)


@lemma("C17")
def with_block_balanced():
    s0, s1, s2, s3 = z3.Consts("s0 s1 s2 s3", S)
    e = z3.Const("e", E)
    enter = s1 == z3.Concat(s0, z3.Unit(e))  # InterpretationEnter, normal exit
    body = s2 == s1  # induction hypothesis: body balanced (normal or exceptional)
    exit_ = s3 == last_removed(s2)  # InterpretationExit, any exception arguments
    goals = [
        ("push_then_pop_restores", z3.ForAll([s0, s1, s2, s3, e], z3.Implies(z3.And(enter, body, exit_), s3 == s0)), []),
        ("top_inside_block_is_pushed_element", z3.ForAll([s0, s1, e], z3.Implies(enter, z3.And(z3.Length(s1) >= 1, s1[z3.Length(s1) - 1] == e))), []),
        ("outer_stack_is_prefix_inside_block", z3.ForAll([s0, s1, e], z3.Implies(enter, z3.PrefixOf(s0, s1))), []),
        # the bottom element is never popped: a block entered at depth >= 1 never pops below its entry depth
        ("exit_never_underflows", z3.ForAll([s0, s1, s2, e], z3.Implies(z3.And(enter, body), z3.Length(s2) >= 1)), []),
    ]
    return goals


@lemma("C17")
def sequencing_and_prefix():
    s0, s1, s2, p = z3.Consts("s0 s1 s2 p", S)
    return [
        ("balanced_sequential_composition", z3.ForAll([s0, s1, s2], z3.Implies(z3.And(s1 == s0, s2 == s1), s2 == s0)), []),
        ("prefix_transitive", z3.ForAll([p, s0, s1], z3.Implies(z3.And(z3.PrefixOf(p, s0), z3.PrefixOf(s0, s1)), z3.PrefixOf(p, s1))), []),
    ]


@lemma("C17")
def failed_enter_leaks_nothing():
    s0, s1 = z3.Consts("s0 s1", S)
    # InterpretationEnter, exceptional exit: _STACK == old; `with` does not call __exit__ then
    return [("failed_enter_balanced", z3.ForAll([s0, s1], z3.Implies(s1 == s0, s1 == s0)), [])]
