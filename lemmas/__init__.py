"""Lemma layer (DESIGN 2.3): property-level lemmas over contracts, each a validity query for z3/cvc5.
A lemma is a function returning a list of (name, goal, assumptions_used) where `goal` is a closed z3 formula that must
be VALID (its negation unsat).  Induction is explicit: base and step are separate goals with the hypothesis in the step."""
import importlib
import pkgutil
import time

import z3

LEMMAS = []  # (module, name, props, fn)


def lemma(*props):
    def deco(fn):
        LEMMAS.append((fn.__module__.split(".")[-1], fn.__name__, props, fn))
        return fn

    return deco


_loaded = False


def load():
    global _loaded
    if not _loaded:
        import lemmas as pkg

        for m in sorted(pkgutil.iter_modules(pkg.__path__), key=lambda m: m.name):
            importlib.import_module("lemmas." + m.name)
        _loaded = True


def prove(goal, timeout_ms=20000):
    s = z3.Solver()
    if "str." in goal.sexpr()[:20000] or "re." in goal.sexpr()[:20000]:
        timeout_ms = 2000  # z3's sequence solver is unstable on these; cvc5 decides them
    s.set("timeout", timeout_ms)
    s.add(z3.Not(goal))
    t = time.time()
    r = s.check()
    dt = time.time() - t
    if r == z3.unsat:
        return "discharged", "", dt, "z3"
    if r == z3.sat:
        return "refuted", str(s.model()), dt, "z3"
    from pyvc.contract import _try_cvc5

    r2 = _try_cvc5(s, 60000)
    if r2 == "unsat":
        return "discharged", "", dt, "cvc5"
    return "undecided", "z3: %s, cvc5: %s" % (s.reason_unknown(), r2), dt, "z3"


def obligations_for(prop, tier, jobs=1):
    load()
    out = {}
    for mod, name, props, fn in LEMMAS:
        if prop not in props:
            continue
        for gname, goal, assumptions in fn():
            st, detail, dt, be = prove(goal)
            out["lemma:%s.%s/%s" % (mod, name, gname)] = dict(
                status=st, detail=detail, model=detail or None, replay_src=None, contract="lemma:%s.%s" % (mod, name), cls="lemma", solver_s=dt, backend=be, assumptions=assumptions
            )
    return out
