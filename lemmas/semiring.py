"""Semiring laws used by the normal-form / optimizer / sum-product rules (C02, C08, C09, C11), over an abstract carrier with
exactly the axioms the op tables declare (proved against the concrete ops in C15: contracts/c_ops.py): (+) associative and
commutative, (*) associative and commutative, (*) distributes over (+).  SUM(f, n) = f(0) + ... + f(n-1), n >= 1, by its
recursion; inductions explicit (base / step with hypothesis)."""
import z3

from . import lemma

S = z3.DeclareSort("Carrier")
add = z3.Function("oplus", S, S, S)
mul = z3.Function("otimes", S, S, S)
Fn = z3.DeclareSort("FnId")
ap = z3.Function("apply", Fn, z3.IntSort(), S)
SUM = z3.Function("SUM", Fn, z3.IntSort(), S)
PROPS = ("C02", "C08", "C09", "C11")
AX = ["semiring axioms taken from the op tables (assoc/comm of the AssociativeOps, DISTRIBUTIVE_OPS pairs), each table entry proved in C15"]


def sum_step(f, n):
    return SUM(f, n + 1) == add(SUM(f, n), ap(f, n))


def axioms(*ts):
    """ground instances of assoc/comm/distributivity over the given terms"""
    out = []
    for a in ts:
        for b in ts:
            out.append(add(a, b) == add(b, a))
            out.append(mul(a, b) == mul(b, a))
            for c in ts:
                out.append(add(add(a, b), c) == add(a, add(b, c)))
                out.append(mul(mul(a, b), c) == mul(a, mul(b, c)))
                out.append(mul(a, add(b, c)) == add(mul(a, b), mul(a, c)))
    return out


@lemma(*PROPS)
def L2_factor_out_of_sum():
    """sum_i (c * b_i) == c * sum_i b_i  when c does not depend on i"""
    b, cb = z3.Consts("b cb", Fn)
    c = z3.Const("c", S)
    n = z3.Int("n")
    rel = lambda i: ap(cb, i) == mul(c, ap(b, i))
    base = z3.Implies(z3.And(rel(0), SUM(cb, 1) == ap(cb, 0), SUM(b, 1) == ap(b, 0)), SUM(cb, 1) == mul(c, SUM(b, 1)))
    hyp = SUM(cb, n) == mul(c, SUM(b, n))
    step = z3.Implies(z3.And(n >= 1, hyp, rel(n), sum_step(cb, n), sum_step(b, n), *axioms(c, SUM(b, n), ap(b, n))), SUM(cb, n + 1) == mul(c, SUM(b, n + 1)))
    return [("base", base, AX), ("step", step, AX)]


@lemma(*PROPS)
def L4_sum_of_sums():
    """sum_i (a_i + b_i) == sum_i a_i + sum_i b_i   (the red_op is bin_op branch of normalize)"""
    a, b, ab = z3.Consts("a b ab", Fn)
    n = z3.Int("n")
    rel = lambda i: ap(ab, i) == add(ap(a, i), ap(b, i))
    base = z3.Implies(z3.And(rel(0), SUM(ab, 1) == ap(ab, 0), SUM(a, 1) == ap(a, 0), SUM(b, 1) == ap(b, 0)), SUM(ab, 1) == add(SUM(a, 1), SUM(b, 1)))
    hyp = SUM(ab, n) == add(SUM(a, n), SUM(b, n))
    ts = (SUM(a, n), SUM(b, n), ap(a, n), ap(b, n))
    extra = [add(add(ts[0], ts[1]), add(ts[2], ts[3])) == add(add(ts[0], ts[2]), add(ts[1], ts[3]))]  # follows from assoc/comm; proved below
    step = z3.Implies(z3.And(n >= 1, hyp, rel(n), sum_step(ab, n), sum_step(a, n), sum_step(b, n), *extra), SUM(ab, n + 1) == add(SUM(a, n + 1), SUM(b, n + 1)))
    w, x, y, zz = z3.Consts("w x y zz", S)
    # the 4-term interchange law from assoc/comm (all instances over the four terms and their sums)
    insts = axioms(w, x, y, zz) + [add(add(w, x), add(y, zz)) == add(w, add(x, add(y, zz))), add(x, add(y, zz)) == add(add(x, y), zz), add(add(x, y), zz) == add(add(y, x), zz), add(add(y, x), zz) == add(y, add(x, zz)), add(w, add(y, add(x, zz))) == add(add(w, y), add(x, zz))]
    interchange = z3.Implies(z3.And(*insts), add(add(w, x), add(y, zz)) == add(add(w, y), add(x, zz)))
    return [("base", base, AX), ("step", step, AX), ("interchange_from_assoc_comm", interchange, AX)]


@lemma(*PROPS)
def L3_unrelated_variable():
    """reducing over a variable of size n that the operand c does not mention:
    (+,*): sum_{i<n} c == n.c where n.c is the n-fold (+)-power given by PRODUCT_TO_POWER (for add: c*n, for mul: c**n);
    idempotent (+) (max, min, or, and): sum_{i<n} c == c."""
    cf = z3.Const("cf", Fn)
    c = z3.Const("c", S)
    n = z3.Int("n")
    POW = z3.Function("npower", S, z3.IntSort(), S)  # n-fold (+)-power: POW(c,1) = c, POW(c,n+1) = POW(c,n) + c  (C15: PRODUCT_TO_POWER)
    const = lambda i: ap(cf, i) == c
    base = z3.Implies(z3.And(const(0), SUM(cf, 1) == ap(cf, 0), POW(c, 1) == c), SUM(cf, 1) == POW(c, 1))
    step = z3.Implies(z3.And(n >= 1, SUM(cf, n) == POW(c, n), const(n), sum_step(cf, n), POW(c, n + 1) == add(POW(c, n), c)), SUM(cf, n + 1) == POW(c, n + 1))
    idem_base = z3.Implies(z3.And(const(0), SUM(cf, 1) == ap(cf, 0)), SUM(cf, 1) == c)
    idem_step = z3.Implies(z3.And(n >= 1, SUM(cf, n) == c, const(n), sum_step(cf, n), add(c, c) == c), SUM(cf, n + 1) == c)
    return [("power_base", base, AX), ("power_step", step, AX), ("idempotent_base", idem_base, AX), ("idempotent_step", idem_step, AX)]


@lemma(*PROPS)
def L3_logaddexp_scale():
    """for logaddexp the n-fold power is c + log n:  POW(c, n+1) = logaddexp(c + log n, c) = c + log(n+1), from
    exp(c + log n) + exp(c) = exp(c)(n + 1) (ground exp/log axioms)"""
    c, n = z3.Reals("c n")
    EXP = z3.Function("exp", z3.RealSort(), z3.RealSort())
    LOG = z3.Function("log", z3.RealSort(), z3.RealSort())
    # logaddexp(x, y) := log(exp(x) + exp(y)) (mathematical definition; the shifted implementation is equal to it on finite reals)
    ax = z3.And(n >= 1, EXP(c + LOG(n)) == EXP(c) * n, EXP(c) > 0, LOG(EXP(c) * (n + 1)) == c + LOG(n + 1))
    goal = z3.Implies(ax, LOG(EXP(c + LOG(n)) + EXP(c)) == c + LOG(n + 1))
    return [("step", goal, ["exp(a + log n) = n exp a; log(n exp a) = a + log n (real analysis, ground instances)"])]
