"""C16: the first match in a topological order of strict specificity is a most specific matching signature.
(multipledispatch's ordering() producing such a topological order is an assumed third-party contract, conformance-checked
on the real registries by the bounded tier.)"""
import z3

from . import lemma


@lemma("C16")
def first_match_is_minimal():
    Sig = z3.DeclareSort("Signature")
    sup = z3.Function("supercedes", Sig, Sig, z3.BoolSort())
    match = z3.Function("matches", Sig, z3.BoolSort())
    pos = z3.Function("position", Sig, z3.IntSort())
    a, b, c, s = z3.Consts("a b c s", Sig)
    topo = z3.ForAll([a, b], z3.Implies(z3.And(sup(a, b), z3.Not(sup(b, a))), pos(a) < pos(b)))
    chosen = z3.And(match(c), z3.ForAll([s], z3.Implies(match(s), pos(c) <= pos(s))))
    goal = z3.Implies(z3.And(topo, chosen), z3.Not(z3.Exists([s], z3.And(match(s), sup(s, c), z3.Not(sup(c, s))))))
    # instance membership is upward closed = transitivity (proved in contracts/c_typing.py)
    return [("first_match_minimal", z3.ForAll([c], goal), ["multipledispatch.conflict.ordering returns a topological order of strict supercedes (third-party, assumed)"])]
