"""C11: the local rules are semiring derivatives.  Over a commutative semiring, if the root depends on `out` through
root = (out_adj (x) out) (+) rest, then for out = a (x) b: root = ((out_adj (x) b) (x) a) (+) rest, i.e. the coefficient of a is
out_adj (x) b; for out = a (+) b: root = (out_adj (x) a) (+) (out_adj (x) b) (+) rest."""
import z3

from . import lemma
from .semiring import S, add, mul, axioms, AX


@lemma("C11")
def coefficient():
    oa, a, b, rest = z3.Consts("oa a b rest", S)
    prod_rule = z3.Implies(z3.And(*axioms(oa, a, b)), add(mul(oa, mul(a, b)), rest) == add(mul(mul(oa, b), a), rest))
    sum_rule = z3.Implies(z3.And(*axioms(oa, a, b)), mul(oa, add(a, b)) == add(mul(oa, a), mul(oa, b)))
    return [("product_rule_coefficient", prod_rule, AX), ("sum_rule_coefficient", sum_rule, AX)]
