"""C10 law L7 as a LEMMA (was an axiom): composition of step-compatible factors is associative on a commutative semiring.
  (x.y)(i,k) = SUM_{a<n} x(i,a) * y(a,k)            -- what one step of the scan computes: multiply, sum out the dropped state
  goal:  ((x.y).z)(i,k) = (x.(y.z))(i,k)  for every size n, m >= 1 of the two dropped states and every i, k.
The carrier, (+), (*) and SUM are those of lemmas/semiring.py (axioms = the op-table entries proved in C15).  Inductions are
explicit (base / step goals with the hypothesis in the step); earlier lemmas enter later goals as universally closed
hypotheses, each of which is the statement of a goal pair proved here:
  EXT   pointwise equal summands have equal sums                                  (induction on n)
  L2Q   SUM_i c*b(i) = c * SUM_i b(i), and the mirrored form  SUM_i b(i)*c        (induction on n)
  L4Q   SUM_i (a(i) + b(i)) = SUM_i a(i) + SUM_i b(i)                             (induction on n)
  FUB   SUM_{a<n} SUM_{b<m} F(a,b) = SUM_{b<m} SUM_{a<n} F(a,b)                    (induction on n, uses EXT and L4Q)
  L7    associativity, from L2Q, EXT, FUB and associativity of (*)
Two-argument summands are function identifiers with definitional row/column views (ROW, COL, RS, CS below: conservative
definitions, no axioms about the carrier).  A state made of two variables is reduced to ONE summed index by the second lemma
of this file (joint_index_of_two_state_variables); repeating that for more variables is not mechanised."""
import z3

from . import lemma
from .semiring import SUM, Fn, S, add, ap, mul

I = z3.IntSort()
F2 = z3.DeclareSort("Fn2Id")
ap2 = z3.Function("apply2", F2, I, I, S)
ROW = z3.Function("ROW", F2, I, Fn)  # ROW(F,a)(b) = F(a,b)
COL = z3.Function("COL", F2, I, Fn)  # COL(F,b)(a) = F(a,b)
RS = z3.Function("ROWSUMS", F2, I, Fn)  # RS(F,m)(a) = SUM_{b<m} F(a,b)
CS = z3.Function("COLSUMS", F2, I, Fn)  # CS(F,n)(b) = SUM_{a<n} F(a,b)
AX = ["semiring axioms taken from the op tables (assoc/comm of (+),(*), distributivity), each table entry proved in C15", "more than two state variables are summed as one joint index by repeating lemma joint_index_of_two_state_variables (that repetition is on paper)"]

f, g, h = z3.Consts("f g h", Fn)
c, u, v, w = z3.Consts("c u v w", S)
F = z3.Const("F", F2)
n, m, i, j, a, b = z3.Ints("n m i j a b")


def A(*xs):
    return z3.And(*xs)


SUMDEF = A(z3.ForAll([f], SUM(f, 1) == ap(f, 0)), z3.ForAll([f, n], z3.Implies(n >= 1, SUM(f, n + 1) == add(SUM(f, n), ap(f, n)))))
RING = A(
    z3.ForAll([u, v], add(u, v) == add(v, u)),
    z3.ForAll([u, v], mul(u, v) == mul(v, u)),
    z3.ForAll([u, v, w], add(add(u, v), w) == add(u, add(v, w))),
    z3.ForAll([u, v, w], mul(mul(u, v), w) == mul(u, mul(v, w))),
    z3.ForAll([u, v, w], mul(u, add(v, w)) == add(mul(u, v), mul(u, w))),
)
DISTRIB = z3.ForAll([u, v, w], mul(u, add(v, w)) == add(mul(u, v), mul(u, w)))
t4 = z3.Const("t4", S)
INTERCHANGE = z3.ForAll([u, v, w, t4], add(add(u, v), add(w, t4)) == add(add(u, w), add(v, t4)))  # from assoc/comm of (+): goal semiring.L4_sum_of_sums/interchange_from_assoc_comm
VIEWS = A(
    z3.ForAll([F, a, b], ap(ROW(F, a), b) == ap2(F, a, b)),
    z3.ForAll([F, a, b], ap(COL(F, b), a) == ap2(F, a, b)),
    z3.ForAll([F, m, a], ap(RS(F, m), a) == SUM(ROW(F, a), m)),
    z3.ForAll([F, n, b], ap(CS(F, n), b) == SUM(COL(F, b), n)),
)


def below(k, bound, body):
    return z3.ForAll([k], z3.Implies(A(0 <= k, k < bound), body))


def ext(f_, g_, n_):
    return z3.Implies(below(i, n_, ap(f_, i) == ap(g_, i)), SUM(f_, n_) == SUM(g_, n_))


def l2(cb, c_, b_, n_):
    return z3.Implies(below(i, n_, ap(cb, i) == mul(c_, ap(b_, i))), SUM(cb, n_) == mul(c_, SUM(b_, n_)))


def l4(ab, a_, b_, n_):
    return z3.Implies(below(i, n_, ap(ab, i) == add(ap(a_, i), ap(b_, i))), SUM(ab, n_) == add(SUM(a_, n_), SUM(b_, n_)))


def fub(F_, n_, m_):
    return SUM(RS(F_, m_), n_) == SUM(CS(F_, n_), m_)


EXTQ = z3.ForAll([f, g, n], z3.Implies(n >= 1, ext(f, g, n)))
L2Q = z3.ForAll([f, c, g, n], z3.Implies(n >= 1, l2(f, c, g, n)))
L4Q = z3.ForAll([f, g, h, n], z3.Implies(n >= 1, l4(f, g, h, n)))
FUBQ = z3.ForAll([F, n, m], z3.Implies(A(n >= 1, m >= 1), fub(F, n, m)))


def induction(name, stmt, hyps):
    """base and step goals of an induction on n >= 1 for the (Skolemised) statement stmt(n)"""
    return [(name + "_base", z3.Implies(hyps, stmt(z3.IntVal(1))), AX), (name + "_step", z3.Implies(A(hyps, n >= 1, stmt(n)), stmt(n + 1)), AX)]


@lemma("C10")
def L7_composition_is_associative():
    if hypotheses_consistent() == z3.unsat:  # vacuity guard: the definitions and lemma statements must admit a model
        raise RuntimeError("lemmas/compose.py: hypotheses are contradictory")
    out = []
    out += induction("EXT", lambda k: ext(f, g, k), SUMDEF)
    out += induction("L2Q", lambda k: l2(f, c, g, k), A(SUMDEF, DISTRIB))  # only distributivity is needed
    out += induction("L4Q", lambda k: l4(f, g, h, k), A(SUMDEF, z3.substitute_vars(INTERCHANGE.body(), ap(h, n), ap(g, n), SUM(h, n), SUM(g, n))))  # one ground instance of the four-term interchange law of (+)
    # Fubini, induction on the number n of rows; m >= 1 columns fixed
    out += induction("FUB", lambda k: fub(F, k, m), A(SUMDEF, VIEWS, EXTQ, L4Q, m >= 1))
    # composition.  XY = x.y, YZ = y.z as two-argument functions defined through their summand functions
    x, y, z, XY, YZ, L, R = z3.Consts("x y z XY YZ L R", F2)
    P = z3.Function("PRODSUMMAND", F2, F2, I, I, Fn)  # P(x,y,i,k)(a) = x(i,a) * y(a,k)
    comp = lambda xy, x_, y_, size: z3.ForAll([i, j], ap2(xy, i, j) == SUM(P(x_, y_, i, j), size))
    PDEF = z3.ForAll([x, y, i, j, a], ap(P(x, y, i, j), a) == mul(ap2(x, i, a), ap2(y, a, j)))
    i0, k0 = z3.Ints("i0 k0")
    # L(b, a) = (x(i0,a) * y(a,b)) * z(b,k0)   rows indexed by b (size m), columns by a (size n);   R(b, a) the same, re-associated
    LDEF = z3.ForAll([a, b], ap2(L, b, a) == mul(mul(ap2(x, i0, a), ap2(y, a, b)), ap2(z, b, k0)))
    defs = A(SUMDEF, RING, VIEWS, PDEF, comp(XY, x, y, n), comp(YZ, y, z, m), LDEF, n >= 1, m >= 1)
    lhs = SUM(P(XY, z, i0, k0), m)  # ((x.y).z)(i0,k0) = SUM_b (x.y)(i0,b) * z(b,k0)
    rhs = SUM(P(x, YZ, i0, k0), n)  # (x.(y.z))(i0,k0) = SUM_a x(i0,a) * (y.z)(a,k0)
    # step 1: each summand of lhs is a row sum of L:  (x.y)(i0,b) * z(b,k0) = SUM_a L(b,a)      (L2Q mirrored through commutativity)
    s1 = z3.Implies(A(defs, L2Q, 0 <= b, b < m), ap(P(XY, z, i0, k0), b) == ap(RS(L, n), b))
    # step 2: each summand of rhs is a column sum of L:  x(i0,a) * (y.z)(a,k0) = SUM_b L(b,a)
    s2 = z3.Implies(A(defs, L2Q, 0 <= a, a < n), ap(P(x, YZ, i0, k0), a) == ap(CS(L, m), a))
    # step 3: EXT twice and Fubini
    S1Q = below(b, m, ap(P(XY, z, i0, k0), b) == ap(RS(L, n), b))
    S2Q = below(a, n, ap(P(x, YZ, i0, k0), a) == ap(CS(L, m), a))
    # the three lemma instances used (n, m >= 1 make them instances of EXTQ / FUBQ): rows of L are indexed by b < m, columns by a < n
    inst = A(ext(P(XY, z, i0, k0), RS(L, n), m), ext(P(x, YZ, i0, k0), CS(L, m), n), fub(L, m, n))
    s3 = z3.Implies(A(n >= 1, m >= 1, inst, S1Q, S2Q), lhs == rhs)
    # the instances really are instances: EXTQ and FUBQ imply them
    s4 = z3.Implies(A(n >= 1, m >= 1, EXTQ, FUBQ), inst)
    out += [("L7_lhs_summand_is_row_sum", s1, AX), ("L7_rhs_summand_is_column_sum", s2, AX), ("L7_assoc_from_ext_and_fubini", s3, AX), ("L7_lemma_instances", s4, AX)]
    return out


def hypotheses_consistent():
    """used by the vacuity self-test: definitions + lemmas admit a model with n = m = 1 (so the goals are not vacuous)"""
    s = z3.Solver()
    s.set("timeout", 10000)
    s.add(SUMDEF, RING, VIEWS, EXTQ, L2Q, L4Q, FUBQ, z3.ForAll([u, v], u == v))  # the one-element semiring is a model of everything used
    return s.check()


SHIFT = z3.Function("SHIFT", Fn, I, Fn)  # SHIFT(f,a)(j) = f(a + j)
SHIFTDEF = z3.ForAll([f, a, j], ap(SHIFT(f, a), j) == ap(f, a + j))


def split(f_, a_, b_):
    return SUM(f_, a_ + b_) == add(SUM(f_, a_), SUM(SHIFT(f_, a_), b_))


SPLITQ = z3.ForAll([f, a, b], z3.Implies(A(a >= 1, b >= 1), split(f, a, b)))


@lemma("C10")
def joint_index_of_two_state_variables():
    """A state made of two variables of sizes n1, n2 >= 1 that is summed variable by variable equals ONE sum over the joint
    index a1*n2 + a2 < n1*n2 (row-major), so L7 -- stated for one summed index -- covers pairs of state variables; more
    variables by repeating the step (that outer induction on the number of variables stays on paper).
      SPLIT  SUM(f, a+b) = SUM(f, a) + SUM(f(a + .), b)                                   (induction on b)
      FLAT   (forall a1<n1, a2<n2. f(a1*n2 + a2) = G(a1,a2))  ->  SUM(f, n1*n2) = SUM_{a1<n1} SUM_{a2<n2} G(a1,a2)   (induction on n1)"""
    G = z3.Const("G", F2)
    n1, n2, a1, a2 = z3.Ints("n1 n2 a1 a2")
    out = []
    # SPLIT by induction on b (here the induction variable is n); one ground associativity instance
    assoc_inst = add(add(SUM(f, a), SUM(SHIFT(f, a), n)), ap(f, a + n)) == add(SUM(f, a), add(SUM(SHIFT(f, a), n), ap(f, a + n)))
    out += induction("SPLIT", lambda k: split(f, a, k), A(SUMDEF, SHIFTDEF, a >= 1, assoc_inst))
    flat = lambda k: z3.Implies(
        z3.ForAll([a1, a2], z3.Implies(A(0 <= a1, a1 < k, 0 <= a2, a2 < n2), ap(f, a1 * n2 + a2) == ap2(G, a1, a2))),
        SUM(f, k * n2) == SUM(RS(G, n2), k),
    )
    # instances of the earlier lemmas used in base and step (n2 >= 1; in the step n >= 1 so n*n2 >= 1)
    inst_base = ext(f, ROW(G, 0), n2)
    inst_step = A(split(f, n * n2, n2), ext(SHIFT(f, n * n2), ROW(G, n), n2), z3.Implies(n >= 1, n * n2 >= 1), (n + 1) * n2 == n * n2 + n2)
    out.append(("FLAT_base", z3.Implies(A(SUMDEF, VIEWS, SHIFTDEF, n2 >= 1, inst_base), flat(z3.IntVal(1))), AX))
    out.append(("FLAT_step", z3.Implies(A(SUMDEF, VIEWS, SHIFTDEF, n2 >= 1, n >= 1, inst_step, flat(n)), flat(n + 1)), AX))
    # the instances are instances (and the two arithmetic facts are valid)
    out.append(("FLAT_lemma_instances", z3.Implies(A(n2 >= 1, n >= 1, EXTQ, SPLITQ), A(inst_base, inst_step)), AX))
    return out
