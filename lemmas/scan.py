"""C10 lemmas over an abstract monoid (E, ·) -- associativity is law L7 (composition of step factors on a semiring carrier,
plain matrix-product associativity), proved in lemmas/compose.py from the semiring axioms (it used to be an axiom).
FOLD(s, n) = s(0)·s(1)·…·s(n-1) (left fold, n >= 1).  Inductions are explicit: base and step are separate goals, the step
carries the hypothesis; FOLD's unfolding equations are instantiated at the points used."""
import z3

from . import lemma

E = z3.DeclareSort("Factor")
mul = z3.Function("compose", E, E, E)
SeqS = z3.DeclareSort("SeqId")
at = z3.Function("at", SeqS, z3.IntSort(), E)
FOLD = z3.Function("FOLD", SeqS, z3.IntSort(), E)  # FOLD(s, n), n >= 1
FROM = z3.Function("FOLDFROM", SeqS, z3.IntSort(), z3.IntSort(), E)  # s(a)·…·s(a+b-1), b >= 1
AX = ["L7: composition of step-compatible factors is associative -- no longer an axiom: lemma compose.L7_composition_is_associative derives it from the semiring axioms (one joint state index; two state variables reduce to it by lemma compose.joint_index_of_two_state_variables, more than two by repeating that step on paper)"]


def assoc(*terms):
    a, b, c = terms
    return mul(mul(a, b), c) == mul(a, mul(b, c))


def fold_def(s, n):
    """unfolding equations of FOLD at n (n >= 1): FOLD(s,1) = s(0); FOLD(s,n+1) = FOLD(s,n)·s(n)"""
    return z3.And(FOLD(s, 1) == at(s, 0), z3.Implies(n >= 1, FOLD(s, n + 1) == mul(FOLD(s, n), at(s, n))))


@lemma("C10")
def pairing_preserves_fold():
    s, t = z3.Consts("s t", SeqS)
    m = z3.Int("m")
    paired = lambda k: at(t, k) == mul(at(s, 2 * k), at(s, 2 * k + 1))
    # even case, induction on m >= 1:  E(m): (forall k<m. t(k) = s(2k)·s(2k+1))  ->  FOLD(t, m) = FOLD(s, 2m)
    base = z3.Implies(z3.And(paired(0), fold_def(t, 1), fold_def(s, 1), FOLD(s, 2) == mul(FOLD(s, 1), at(s, 1))), FOLD(t, 1) == FOLD(s, 2))
    hyp = FOLD(t, m) == FOLD(s, 2 * m)
    unfold = z3.And(
        FOLD(t, m + 1) == mul(FOLD(t, m), at(t, m)),
        FOLD(s, 2 * m + 1) == mul(FOLD(s, 2 * m), at(s, 2 * m)),
        FOLD(s, 2 * m + 2) == mul(FOLD(s, 2 * m + 1), at(s, 2 * m + 1)),
    )
    step = z3.Implies(z3.And(m >= 1, hyp, paired(m), unfold, assoc(FOLD(s, 2 * m), at(s, 2 * m), at(s, 2 * m + 1))), FOLD(t, m + 1) == FOLD(s, 2 * m + 2))
    # odd case from the even one: t(m) = s(2m) (the unpaired tail)  ->  FOLD(t, m+1) = FOLD(s, 2m+1)
    odd = z3.Implies(z3.And(m >= 1, hyp, at(t, m) == at(s, 2 * m), FOLD(t, m + 1) == mul(FOLD(t, m), at(t, m)), FOLD(s, 2 * m + 1) == mul(FOLD(s, 2 * m), at(s, 2 * m))), FOLD(t, m + 1) == FOLD(s, 2 * m + 1))
    # duration 1 is untouched by the loop; duration 2m / 2m+1 with m >= 1 are the two cases above
    return [("even_base", base, AX), ("even_step", step, AX), ("odd_tail", odd, AX)]


@lemma("C10")
def segmentwise_fold():
    s, g = z3.Consts("s g", SeqS)
    a, b, L, i = z3.Ints("a b L i")
    # (1) FOLD(s, a+b) = FOLD(s, a)·FROM(s, a, b), induction on b >= 1
    from_def = lambda a_, b_: z3.And(FROM(s, a_, 1) == at(s, a_), z3.Implies(b_ >= 1, FROM(s, a_, b_ + 1) == mul(FROM(s, a_, b_), at(s, a_ + b_))))
    base1 = z3.Implies(z3.And(a >= 1, from_def(a, 1), FOLD(s, a + 1) == mul(FOLD(s, a), at(s, a))), FOLD(s, a + 1) == mul(FOLD(s, a), FROM(s, a, 1)))
    hyp1 = FOLD(s, a + b) == mul(FOLD(s, a), FROM(s, a, b))
    step1 = z3.Implies(
        z3.And(a >= 1, b >= 1, hyp1, from_def(a, b), FOLD(s, a + b + 1) == mul(FOLD(s, a + b), at(s, a + b)), assoc(FOLD(s, a), FROM(s, a, b), at(s, a + b))),
        FOLD(s, a + b + 1) == mul(FOLD(s, a), FROM(s, a, b + 1)),
    )
    # (2) with g(i) = FROM(s, i*L, L) (fold of segment i): FOLD(g, i) = FOLD(s, i*L), induction on i >= 1, using (1) at a=i*L, b=L
    base2 = z3.Implies(z3.And(L >= 1, at(g, 0) == FROM(s, 0, L), FOLD(g, 1) == at(g, 0), FROM(s, 0, L) == FOLD(s, L)), FOLD(g, 1) == FOLD(s, L))
    hyp2 = FOLD(g, i) == FOLD(s, i * L)
    step2 = z3.Implies(
        z3.And(i >= 1, L >= 1, hyp2, at(g, i) == FROM(s, i * L, L), FOLD(g, i + 1) == mul(FOLD(g, i), at(g, i)), FOLD(s, i * L + L) == mul(FOLD(s, i * L), FROM(s, i * L, L))),
        FOLD(g, i + 1) == FOLD(s, (i + 1) * L),
    )
    # FROM(s,0,L) = FOLD(s,L): induction on L
    l = z3.Int("l")
    base3 = z3.Implies(z3.And(FROM(s, 0, 1) == at(s, 0), FOLD(s, 1) == at(s, 0)), FROM(s, 0, 1) == FOLD(s, 1))
    step3 = z3.Implies(z3.And(l >= 1, FROM(s, 0, l) == FOLD(s, l), FROM(s, 0, l + 1) == mul(FROM(s, 0, l), at(s, l)), FOLD(s, l + 1) == mul(FOLD(s, l), at(s, l))), FROM(s, 0, l + 1) == FOLD(s, l + 1))
    return [("split_base", base1, AX), ("split_step", step1, AX), ("segments_base", base2, AX), ("segments_step", step2, AX), ("from_zero_base", base3, AX), ("from_zero_step", step3, AX)]


@lemma("C10")
def right_fold_equals_left_fold():
    # naive_sequential_sum_product pairs from the right: R(n) = s(0)·(s(1)·(…·s(n-1))).  R = FOLD by induction using assoc
    s = z3.Const("s", SeqS)
    n, a = z3.Ints("n a")
    RF = z3.Function("RFOLDFROM", SeqS, z3.IntSort(), z3.IntSort(), E)  # s(a)·(s(a+1)·(…)) of b elements
    b = z3.Int("b")
    # claim: RF(s,a,b) = FROM(s,a,b); induction on b with the generalised hypothesis for all start points a and a+1
    base = z3.Implies(z3.And(RF(s, a, 1) == at(s, a), FROM(s, a, 1) == at(s, a)), RF(s, a, 1) == FROM(s, a, 1))
    # step: RF(s,a,b+1) = s(a)·RF(s,a+1,b);  FROM(s,a,b+1) = FROM(s,a,b)·s(a+b); also FROM(s,a,b+1) = s(a)·FROM(s,a+1,b)  [shown in step_shift]
    step = z3.Implies(z3.And(b >= 1, RF(s, a + 1, b) == FROM(s, a + 1, b), RF(s, a, b + 1) == mul(at(s, a), RF(s, a + 1, b)), FROM(s, a, b + 1) == mul(at(s, a), FROM(s, a + 1, b))), RF(s, a, b + 1) == FROM(s, a, b + 1))
    # shift law  FROM(s,a,b+1) = s(a)·FROM(s,a+1,b)  by induction on b
    shift_base = z3.Implies(z3.And(FROM(s, a, 2) == mul(FROM(s, a, 1), at(s, a + 1)), FROM(s, a, 1) == at(s, a), FROM(s, a + 1, 1) == at(s, a + 1)), FROM(s, a, 2) == mul(at(s, a), FROM(s, a + 1, 1)))
    shift_step = z3.Implies(
        z3.And(b >= 1, FROM(s, a, b + 1) == mul(at(s, a), FROM(s, a + 1, b)), FROM(s, a, b + 2) == mul(FROM(s, a, b + 1), at(s, a + b + 1)), FROM(s, a + 1, b + 1) == mul(FROM(s, a + 1, b), at(s, a + 1 + b)), assoc(at(s, a), FROM(s, a + 1, b), at(s, a + b + 1))),
        FROM(s, a, b + 2) == mul(at(s, a), FROM(s, a + 1, b + 1)),
    )
    return [("base", base, AX), ("step", step, AX), ("shift_base", shift_base, AX), ("shift_step", shift_step, AX)]
