"""C05: results of different gensym calls differ.  gensym(x) = x ++ "_" ++ str(n) with n the post-incremented counter;
str(n) consists of decimal digits only, so the text after the LAST underscore is exactly str(n): two results with different
counters are different strings whatever their prefixes are."""
import z3

from . import lemma


@lemma("C05")
def suffix_injective():
    x1, x2, d1, d2 = z3.Strings("x1 x2 d1 d2")
    digits = z3.Plus(z3.Range("0", "9"))
    # d1, d2 are the decimal renderings of two different counter values (digit strings, no underscore), d1 != d2
    hyp = z3.And(z3.InRe(d1, digits), z3.InRe(d2, digits), d1 != d2)
    goal = z3.Implies(hyp, z3.Concat(x1, z3.StringVal("_"), d1) != z3.Concat(x2, z3.StringVal("_"), d2))
    return [("different_counters_give_different_names", goal, ["str(n) of a non-negative int is a non-empty digit string, different for different n (CPython)"])]
