#!/usr/bin/env python3
"""tools_rtc_triage.py <driver> <prop> [tier]   run one bounded driver, group its failures by (contract, tags), show which
known-finding entry (if any) covers each group.  Helper for the build; not part of any registered check."""
import collections, json, os, sys
HERE = os.path.dirname(os.path.abspath(__file__))
VENV_PY = os.path.join(HERE, ".venv", "bin", "python")
if os.path.realpath(sys.executable) != os.path.realpath(VENV_PY) and os.environ.get("VERIF_IN_VENV") != "1":
    os.execve(VENV_PY, [VENV_PY] + sys.argv, dict(os.environ, VERIF_IN_VENV="1", PYTHONPATH=HERE))
sys.path.insert(0, HERE)
import importlib
import check

drv, prop = sys.argv[1], sys.argv[2]
tier = sys.argv[3] if len(sys.argv) > 3 else "quick"
m = importlib.import_module("rtc." + drv)
r = m.run(prop, tier, int(os.environ.get("VERIF_SEED", "0")), 16)
known = json.load(open(os.path.join(HERE, "known_findings.json")))
groups = collections.OrderedDict()
for f in r.failures:
    key = (f["contract"], tuple(sorted(f["tags"])))
    groups.setdefault(key, []).append(f)
print("evaluations", r.evaluations, "failures", len(r.failures), "groups", len(groups))
for (c, tags), fs in sorted(groups.items()):
    k = check.match_known(known, prop, "rtc", contract=c, tags=list(tags))
    print("%-5s %-50s n=%-4d %s" % ("KF" if k else "NEW", c, len(fs), list(tags)))
    if k:
        print("        -> %s" % k["id"])
    else:
        print("        case: %s" % json.dumps(fs[0]["case"], default=str)[:400])
        print("        detail: %s" % str(fs[0]["detail"])[:400])
json.dump([dict(contract=f["contract"], tags=f["tags"], case=f["case"], detail=str(f["detail"])[:2000]) for f in r.failures], open("/tmp/rtc_triage_%s_%s.json" % (drv, prop), "w"), indent=1, default=str)
