"""C07: get-or-create contracts on the five intern tables and key construction.

Each table is modelled as a Python dict handed to the REAL function body (WeakValueDictionary's get/[]/in/[]= agree with
dict's while an entry is live; liveness / collection are axioms of CPython stated in the evidence).  Contract shape:
  hit : returns the cached object, table unchanged, no construction;
  miss: constructs from EXACTLY the arguments that formed the key, stores it under EXACTLY that key, other keys untouched."""
from collections import OrderedDict

from pyvc import core
from pyvc.contract import Contract, Ctx, register
from pyvc.core import SV, And, Declined, If, Implies, Not, Or, truth

AX = (
    "C07 axiom: WeakValueDictionary behaves as a dict restricted to live values; an entry disappears only when its value is unreachable",
    "C07 axiom: id() is unique among simultaneously live objects",
)


class Unhashable:
    __hash__ = None

    def __init__(self, n):
        self.n = n


class HashableM:
    @staticmethod
    def __sym_instancecheck__(x):
        return not isinstance(x, Unhashable)


@register
class MakeHashKey(Contract):
    """Interpretation.make_hash_key(cls, *args) (numpy backend): key[i] is args[i] itself when hashable, else id(args[i]);
    hence equal keys mean component-wise equal hashable arguments / identical unhashable ones (injective up to ==/is)."""

    props = ("C07", "C03")
    file = "funsor/interpretations.py"
    qualname = "Interpretation.make_hash_key"
    total = True
    assumptions = AX + ("numpy backend (the torch branch of make_hash_key is not executed)",)
    mutants = (("arrays keyed by value", "id(arg) if not isinstance(arg, Hashable) else arg", "arg"), ("first argument dropped", "for arg in args)", "for arg in args[1:])"))

    def structures(self, tier):
        import itertools

        for n in range(0, 4):
            for pat in itertools.product("hu", repeat=n):
                yield "args=%s" % ("".join(pat) or "-"), pat

    def build(self, p, pat):
        args = tuple(("hashable", i) if c == "h" else Unhashable(i) for i, c in enumerate(pat))
        ns = {"get_backend": lambda: "numpy", "Hashable": HashableM, "id": id}
        return Ctx(args=("CLS",) + args, namespace=ns, a=args)

    def ensures(self, ctx, result):
        exp = tuple(id(a) if isinstance(a, Unhashable) else a for a in ctx.a)
        return [("componentwise_value_or_identity", isinstance(result, tuple) and result == exp)]


class ConsCls:
    """a Funsor class with its own cons table"""

    def __init__(self, cache, fields=("a", "b")):
        self._cons_cache = cache
        self._ast_fields = fields


@register
class Reflect(Contract):
    """terms.reflect(cls, *args): get-or-create on cls._cons_cache keyed by make_hash_key(cls, *args).
    hit: returns the cached object, constructs nothing, table unchanged.
    miss: constructs get_origin(cls)[deep types of args](*args) from exactly `args`, sets result._ast_values to the SAME
    argument objects (so a live entry keeps its identity-keyed arguments alive), alpha-mangles, and stores the mangled
    object under exactly the key of the original arguments; other entries untouched.  varargs are folded as the class
    declares.  The class of the constructed term is ALWAYS the origin class specialised to the deep types of the actual
    arguments -- also when the class passed in is already specialised (reinterpret passes type(x), whose parameters describe
    the OLD children): a term is an instance of its own recorded type, which is what pattern dispatch reads (C16)."""

    props = ("C07", "C16")
    file = "funsor/terms.py"
    qualname = "reflect"
    total = True
    assumptions = AX + ("FUNSOR_PROFILE unset (instrument.PROFILE False)",)
    mutants = (
        ("stores the un-mangled object", "    cls._cons_cache[cache_key] = result\n", "    cls._cons_cache[cache_key] = result0\n"),
        ("key computed from folded args but stored under a fresh key", "    cls._cons_cache[cache_key] = result\n", "    cls._cons_cache[reflect.make_hash_key(cls, *args[:1])] = result\n"),
        ("_ast_values copied", "result._ast_values = args", "result._ast_values = tuple(list(args))[:1]"),
        ("never caches", "    cls._cons_cache[cache_key] = result\n", "    pass\n"),
        ("an already specialised class keeps its stale parameters (seeded C16_reflect_keeps_stale_type)", "    cls_specific = get_origin(cls)[arg_types]\n", "    cls_specific = cls if get_args(cls) else get_origin(cls)[arg_types]\n"),
    )

    def locate(self, mutant=None):
        if mutant is not None and mutant[0] == "stores the un-mangled object":
            # two-site seeded fault: remember the pre-mangle object, store it
            import ast, textwrap

            loc = core.locate(self.file, self.qualname)
            src = loc.source.replace("    result = _alpha_mangle(result)\n", "    result0 = result\n    result = _alpha_mangle(result)\n").replace(mutant[1], mutant[2])
            return core.Located(loc.path, loc.qualname, ast.parse(textwrap.dedent(src)).body[0], src, loc.cls)
        return super().locate(mutant)

    def structures(self, tier):
        for kind in ("hit", "miss", "miss-mangled", "miss-varargs", "miss-specialised-cls"):
            yield kind, kind

    def build(self, p, kind):
        a0, a1 = ("arg", 0), (Unhashable(1) if kind != "miss-varargs" else ("arg", 1))
        args = (a0, a1) if kind != "miss-varargs" else (a0, a1, ("extra", 2))
        folded = args if kind != "miss-varargs" else (a0, (a1, ("extra", 2)))
        key = ("KEY",) + tuple(id(x) if isinstance(x, Unhashable) else x for x in folded)
        cache = {("KEY", "other"): "other-object"}
        if kind == "hit":
            cache[key] = "cached-object"
        cls = ConsCls(cache)
        cls.type_args = ("stale-parameter",) if kind == "miss-specialised-cls" else ()
        built = []

        class Obj:
            def __init__(self, *a):
                self.ctor_args = a

        class Specific:
            def __init__(self, types):
                self.types = types

        class Origin:
            def __sym_getitem__(self, types):
                return Specific(types)

        class Reflect_:
            @staticmethod
            def make_hash_key(c, *a):
                return ("KEY",) + tuple(id(x) if isinstance(x, Unhashable) else x for x in a)

        def mangle(o):
            if kind == "miss-mangled":
                m = Obj(*o.ctor_args)
                m.mangled_from = o
                m._ast_values = ("mangled-values",)
                return m
            return o

        ctx = Ctx(args=(cls,) + args, namespace=None, cls=cls, key=key, folded=folded, built=built, kind=kind, Obj=Obj, Specific=Specific)

        def super_hook(sc, *a):
            class S:
                def __call__(s, *cargs):
                    o = Obj(*cargs)
                    o.cls_specific = a[1]
                    built.append(o)
                    return o

            return S()

        ctx.super_hook = super_hook

        class Instr:
            PROFILE = False

        ctx.namespace = dict(reflect=Reflect_, deep_type=lambda x: ("type", id(x) if isinstance(x, Unhashable) else x), get_origin=lambda c: Origin(), get_args=lambda c: getattr(c, "type_args", ()), _alpha_mangle=mangle, instrument=Instr, FunsorMeta="FunsorMeta")
        return ctx

    def hooks(self, ctx):
        return {"super": ctx.super_hook}

    def ensures(self, ctx, result):
        c = ctx.cls._cons_cache
        frame = c.get(("KEY", "other")) == "other-object"
        if ctx.kind == "hit":
            return [("hit_returns_cached_and_constructs_nothing", result == "cached-object" and ctx.built == [] and c == {("KEY", "other"): "other-object", ctx.key: "cached-object"})]
        ok_built = len(ctx.built) == 1
        o = ctx.built[0] if ok_built else None
        def ident(x, y):
            if isinstance(x, tuple) and isinstance(y, tuple) and ctx.kind == "miss-varargs":
                return len(x) == len(y) and all(a is b for a, b in zip(x, y))
            return x is y

        same_args = ok_built and len(o.ctor_args) == len(ctx.folded) and all(ident(x, y) for x, y in zip(o.ctor_args, ctx.folded))
        ast_same = ok_built and isinstance(getattr(o, "_ast_values", None), tuple) and len(o._ast_values) == len(ctx.folded) and all(ident(x, y) for x, y in zip(o._ast_values, ctx.folded))
        typed = ok_built and isinstance(o.cls_specific, ctx.Specific) and o.cls_specific.types == tuple(("type", id(x) if isinstance(x, Unhashable) else x) for x in ctx.folded)
        expected_result_ok = (result is o) if ctx.kind != "miss-mangled" else (getattr(result, "mangled_from", None) is o)
        return [
            ("constructed_once_from_exactly_the_arguments", same_args and typed),
            ("ast_values_are_the_same_argument_objects", ast_same),
            ("returns_the_mangled_object", expected_result_ok),
            ("stored_under_the_key_of_the_arguments", set(c) == {("KEY", "other"), ctx.key} and c.get(ctx.key) is result),
            ("other_entries_untouched", frame),
        ]


@register
class ArrayTypeGetitem(Contract):
    """ArrayType.__getitem__((dtype, shape)): get-or-create on ArrayType._type_cache keyed by (dtype, shape).
    hit: the cached class; miss: a RealsType (dtype 'real', all sizes ints >= 0) or BintType (int dtype >= 0) carrying
    exactly that dtype and shape, stored under exactly that key; anything else raises and caches nothing."""

    props = ("C07", "C06")
    file = "funsor/domains.py"
    qualname = "ArrayType.__getitem__"
    assumptions = AX + ("numpy backend, no tracing (the jax int-coercion branch is not executed)",)
    mutants = (("shape dropped from the key", "key = dtype, shape", "key = dtype, ()"), ("miss not stored", "            ArrayType._type_cache[key] = result\n", "            pass\n"))

    def structures(self, tier):
        for dt in ("real", "int", "bad"):
            for rank in (0, 1, 2):
                for hit in (False, True):
                    yield "dtype=%s,rank=%d,%s" % (dt, rank, "hit" if hit else "miss"), (dt, rank, hit)

    def build(self, p, st):
        dt, rank, hit = st
        shape = tuple(2 + i for i in range(rank))
        dtype = "real" if dt == "real" else 3 if dt == "int" else "complex"
        cache = {("real", (99,)): "other"}
        if hit:
            cache[(dtype, shape)] = "cached"

        class AT:
            _type_cache = cache

        class Cls:
            dtype = None
            shape = None

        made = []

        def RealsType(name, bases, dct):
            made.append(("Reals", name, dct))
            return made[-1]

        def BintType(name, bases, dct):
            made.append(("Bint", name, dct))
            return made[-1]

        ns = dict(ArrayType=AT, RealsType=RealsType, BintType=BintType, get_tracing_state=lambda: False, get_backend=lambda: "numpy")
        return Ctx(args=(Cls, (dtype, shape)), namespace=ns, cache=cache, made=made, st=st, dtype=dtype, shape=shape)

    def may_raise(self, ctx, etype):
        return ctx.st[0] == "bad" and not ctx.st[2]

    def allow_vacuous(self, st):
        return st[0] == "bad" and not st[2]

    def ensures_raise(self, ctx, etype):
        return [("nothing_cached_on_failure", set(ctx.cache) == {("real", (99,))})]

    def ensures(self, ctx, result):
        dt, rank, hit = ctx.st
        key = (ctx.dtype, ctx.shape)
        if hit:
            return [("hit_returns_cached", result == "cached" and ctx.made == [] and ctx.cache == {("real", (99,)): "other", key: "cached"})]
        ok = len(ctx.made) == 1 and result is ctx.made[0]
        if dt == "real":
            ok = ok and result[0] == "Reals" and result[2] == {"shape": ctx.shape}
        else:
            ok = ok and result[0] == "Bint" and result[2] == {"dtype": ctx.dtype, "shape": ctx.shape}
        return [("miss_builds_exactly_that_domain", ok), ("stored_under_exactly_that_key", ctx.cache == {("real", (99,)): "other", key: result})]


@register
class OpMetaCall(Contract):
    """OpMeta.__call__: parametrised ops are interned per class on hash_args_kwargs(bound args, kwargs): hit returns the
    cached instance, miss constructs from exactly the bound arguments and stores under exactly that key."""

    props = ("C07",)
    file = "funsor/ops/op.py"
    qualname = "OpMeta.__call__"
    total = True
    assumptions = AX
    mutants = (("key ignores kwargs", "key = cls.hash_args_kwargs(args, kwargs)", "key = cls.hash_args_kwargs(args, {})"),)

    def structures(self, tier):
        yield "hit", True
        yield "miss", False

    def build(self, p, hit):
        made = []

        class Bound:
            def __init__(self, a, k):
                self.args, self.kwargs = a, k

            def apply_defaults(self):
                self.kwargs = dict(self.kwargs)
                self.kwargs.setdefault("keepdims", False)

        class Sig:
            @staticmethod
            def bind_partial(*a, **k):
                return Bound(a, k)

        class Cls:
            arity = 1
            signature = Sig
            _instance_cache = {("other",): "other-op"}

            @staticmethod
            def hash_args_kwargs(args, kwargs):
                return args, tuple(kwargs.items())

        key = ((0,), (("keepdims", False),))
        if hit:
            Cls._instance_cache[key] = "cached-op"
        ctx = Ctx(args=(Cls, 0), namespace={}, Cls=Cls, made=made, key=key, hit=hit)

        def super_hook(sc, *a):
            class S:
                def __call__(s, *cargs, **ckw):
                    made.append((cargs, ckw))
                    return ("new-op", cargs, tuple(ckw.items()))

            return S()

        ctx.super_hook = super_hook
        return ctx

    def hooks(self, ctx):
        return {"super": ctx.super_hook}

    def ensures(self, ctx, result):
        c = ctx.Cls._instance_cache
        if ctx.hit:
            return [("hit_returns_cached", result == "cached-op" and ctx.made == [] and c == {("other",): "other-op", ctx.key: "cached-op"})]
        return [("miss_constructs_from_bound_args_and_stores", ctx.made == [((0,), {"keepdims": False})] and result == ("new-op", (0,), (("keepdims", False),)) and c == {("other",): "other-op", ctx.key: result})]


@register
class GenericTypeGetitem(Contract):
    """GenericTypeMeta.__getitem__(arg_types): parametrised term classes are interned per origin class on the tuple of
    (typing-normalised) argument types; a subscripted class cannot be subscripted again."""

    props = ("C07", "C16")
    file = "funsor/typing.py"
    qualname = "GenericTypeMeta.__getitem__"
    assumptions = AX
    mutants = (("cached under the raw key", "cls._type_cache[arg_types] = result", "cls._type_cache[(arg_types,)] = result"),)

    def structures(self, tier):
        yield "hit", "hit"
        yield "miss", "miss"
        yield "already-subscripted", "sub"

    def build(self, p, kind):
        made = []
        key = ("T:int", "T:str")

        class Meta(type):
            def __call__(mcls, name, bases, dct):
                made.append((name, bases, dict(dct)))
                return ("new-class", name, bases, dct.get("__args__"))

        class Cls:
            __name__ = "Term"
            __dict__ = {"x": 1}

        cls = Cls()
        cls._type_cache = {("other",): "other-class"}
        if kind == "hit":
            cls._type_cache[key] = "cached-class"
        cls.__dict__ = {"x": 1}
        cls.args_ = () if kind != "sub" else ("already",)

        def type_(c):
            return lambda name, bases, dct: (made.append((name, bases, dict(dct))), ("new-class", name, bases, dct.get("__args__")))[1]

        ns = dict(_type_to_typing=lambda t: "T:" + t, get_args=lambda c: c.args_, isvariadic=lambda t: False, type=type_)
        return Ctx(args=(cls, ("int", "str")), namespace=ns, cls=cls, made=made, key=key, kind=kind)

    def may_raise(self, ctx, etype):
        return ctx.kind == "sub"

    def allow_vacuous(self, st):
        return st == "sub"

    def ensures(self, ctx, result):
        c = ctx.cls._type_cache
        if ctx.kind == "hit":
            return [("hit_returns_cached", result == "cached-class" and ctx.made == [] and c == {("other",): "other-class", ctx.key: "cached-class"})]
        ok = len(ctx.made) == 1 and ctx.made[0][0] == "Term" and ctx.made[0][1] == (ctx.cls,) and ctx.made[0][2].get("__args__") == ctx.key
        return [("miss_builds_subclass_with_those_args", ok), ("stored_under_exactly_that_key", c == {("other",): "other-class", ctx.key: result})]


# ==================================================================================================
# key injectivity of the parametrised-op tables: OpMetaCall returns the cached op for an EQUAL key, so two argument
# tuples that denote different ops must never get equal keys
# ==================================================================================================
def _same_index(a, b):
    """structural identity of two getslice indices: same kind (tuple or not), same length, entries of the same type and value"""
    if isinstance(a, tuple) != isinstance(b, tuple):
        return False
    if isinstance(a, tuple):
        return len(a) == len(b) and all(_same_index(x, y) for x, y in zip(a, b))
    if type(a) is not type(b):
        return False
    if isinstance(a, slice):
        return (a.start, a.stop, a.step) == (b.start, b.stop, b.step) and all(type(u) is type(v) for u, v in zip((a.start, a.stop, a.step), (b.start, b.stop, b.step)))
    return a == b or (a is b)


@register
class GetsliceKeyInjective(Contract):
    """GetsliceMeta.hash_args_kwargs -- the key under which GetsliceOp instances are interned (slices are not hashable, so the
    class builds its own key): for every pair of indices of a universe covering each supported kind (None, Ellipsis, ints
    incl. negative, booleans, slices with None / 0 / negative fields, and tuples of up to two of those) and both calling
    conventions (positional, keyword), EQUAL KEYS IMPLY THE SAME INDEX (same tuple-ness, same entry types and values); and
    the key is hashable.  With contract OpMetaCall (a hit returns the cached op) this gives: the op returned for an index
    was constructed from that very index -- x[0] is never answered with the op of x[(0,)] (the repaired defect), nor x[1]
    with x[True].  one structure per left index, all right indices inside."""

    props = ("C07",)
    file = "funsor/ops/builtin.py"
    qualname = "GetsliceMeta.hash_args_kwargs"
    total = True
    mutants = (
        ("a bare index is keyed as the one-tuple of it (the pinned-tree defect)", "        return is_tuple, key", "        return key"),
        ("entries keyed by value only", "(x.start, x.stop, x.step) if isinstance(x, slice) else (type(x), x)", "(x.start, x.stop, x.step) if isinstance(x, slice) else x"),
        ("slices keyed without their step", "(x.start, x.stop, x.step) if isinstance(x, slice)", "(x.start, x.stop) if isinstance(x, slice)"),
    )

    @staticmethod
    def universe():
        atoms = [None, Ellipsis, 0, 1, -1, True, False, slice(None), slice(0, None), slice(None, None, 1), slice(None, None, -1), slice(0, None, -1), slice(1, 3, 2), slice(None, 3)]
        u = list(atoms)
        u += [(a,) for a in atoms]
        u += [(a, b) for a in atoms[:9] for b in atoms[:9]]
        return u

    def structures(self, tier):
        for i, a in enumerate(self.universe()):
            yield "left=%r" % (a,), i

    def build(self, p, i):
        return Ctx(args=(), namespace=dict(isinstance=core.sisinstance, tuple=tuple, slice=slice, type=type), i=i)

    def entry(self, loc, ctx):
        f, interp = core.make_callable(loc, ctx.namespace, self.hooks(ctx))
        u = self.universe()

        def run():
            a = u[ctx.i]
            ka = [f(None, (a,), {}), f(None, (), {"index": a})]
            out = []
            for b in u:
                out.append((b, f(None, (b,), {})))
            return a, ka, out

        return run, interp

    def ensures(self, ctx, result):
        a, ka, out = result
        ok_conv = ka[0] == ka[1]
        try:
            hash(ka[0])
            hashable = True
        except TypeError:
            hashable = False
        inj = all(_same_index(a, b) for b, kb in out if kb == ka[0])
        refl = any(kb == ka[0] for b, kb in out)
        return [("equal_keys_imply_the_same_index", inj and refl), ("positional_and_keyword_calls_agree", ok_conv), ("key_is_hashable", hashable)]


@register
class ReshapeKeyInjective(Contract):
    """ReshapeMeta.hash_args_kwargs: the shape is converted to a tuple (so a list / torch.Size and the equal tuple share one
    op) and then keyed like every op; equal keys imply equal shapes as tuples of ints, and no-argument calls key as ((), ())."""

    props = ("C07",)
    file = "funsor/ops/array.py"
    qualname = "ReshapeMeta.hash_args_kwargs"
    total = True
    mutants = (("shape keyed by its length", "            shape = tuple(shape)  # necessary to convert torch.Size to tuple", "            shape = (len(tuple(shape)),)"),)

    SHAPES = [(), (1,), (2,), (2, 3), (3, 2), (6,), (1, 6), [2, 3], [6], (2, 3, 1)]

    def structures(self, tier):
        for i, s in enumerate(self.SHAPES):
            yield "left=%r" % (s,), i

    def build(self, p, i):
        def sup(sc, *a):
            class S:
                @staticmethod
                def hash_args_kwargs(args, kwargs):
                    return args, tuple(kwargs.items())

            return S()

        return Ctx(args=(), namespace=dict(tuple=tuple), i=i, sup=sup)

    def hooks(self, ctx):
        return {"super": ctx.sup}

    def entry(self, loc, ctx):
        f, interp = core.make_callable(loc, ctx.namespace, self.hooks(ctx))

        def run():
            a = self.SHAPES[ctx.i]
            return a, f(None, (a,), {}), [(b, f(None, (b,), {})) for b in self.SHAPES], f(None, (), {})

        return run, interp

    def ensures(self, ctx, result):
        a, ka, out, k0 = result
        inj = all(tuple(a) == tuple(b) for b, kb in out if kb == ka) and all(kb == ka for b, kb in out if tuple(a) == tuple(b))
        return [("equal_keys_iff_equal_shapes", inj), ("no_argument_call_has_the_generic_key", k0 == ((), ()))]


@register
class TensorMetaCall(Contract):
    """TensorMeta.__call__(data, inputs, dtype): fills the defaults (inputs -> (), a dict -> tuple of its items, dtype "real")
    and hands the constructor THE VERY ARRAY OBJECT it was given -- the intern key of a Tensor is the identity of its array
    (make_hash_key), so wrapping a copy would make Tensor(a) is Tensor(a) false and leave x.data is not a.  Only a numpy scalar
    (np.generic, which is hashable by value) is converted to a 0-d array."""

    props = ("C07", "C20")
    file = "funsor/tensor.py"
    qualname = "TensorMeta.__call__"
    total = True
    mutants = (
        ("non-contiguous arrays are copied (seeded C07_tensor_copies_noncontiguous)", "        if isinstance(data, np.generic):\n            data = data.__array__()\n", "        if isinstance(data, np.generic):\n            data = data.__array__()\n        elif not data.flags.c_contiguous:\n            data = np.ascontiguousarray(data)\n"),
        ("inputs dict passed through unconverted", "            inputs = tuple(inputs.items())", "            pass"),
    )

    def structures(self, tier):
        for kind in ("array", "strided-array", "numpy-scalar"):
            for inputs in ("none", "dict", "tuple"):
                yield "%s,inputs=%s" % (kind, inputs), (kind, inputs)

    def build(self, p, st):
        import numpy as np
        from collections import OrderedDict

        kind, inputs = st
        data = {"array": np.arange(3.0), "strided-array": np.arange(6.0)[::2], "numpy-scalar": np.float64(1.5)}[kind]
        ins = {"none": None, "dict": OrderedDict(i="Bint[3]"), "tuple": (("i", "Bint[3]"),)}[inputs]
        calls = []

        def sup(sc, *a):
            class S:
                def __call__(s, *cargs):
                    calls.append(cargs)
                    return ("tensor",) + cargs[1:]

            return S()

        ctx = Ctx(args=("TensorCls", data) + (() if ins is None else (ins,)), namespace=dict(np=np, isinstance=isinstance, dict=dict, tuple=tuple, TensorMeta="TensorMeta"), data=data, ins=ins, calls=calls, st=st, sup=sup)
        return ctx

    def hooks(self, ctx):
        return {"super": ctx.sup}

    def ensures(self, ctx, result):
        import numpy as np

        kind, inputs = ctx.st
        if len(ctx.calls) != 1 or len(ctx.calls[0]) != 3:
            return [("constructs_once_with_three_arguments", False)]
        d, ins, dtype = ctx.calls[0]
        exp_ins = () if inputs == "none" else (("i", "Bint[3]"),)
        if kind == "numpy-scalar":
            same = isinstance(d, np.ndarray) and d.shape == () and float(d) == 1.5
        else:
            same = d is ctx.data
        return [("the_array_object_itself_is_wrapped", same), ("inputs_as_a_tuple_of_pairs_and_default_dtype", ins == exp_ins and isinstance(ins, tuple) and dtype == "real")]
