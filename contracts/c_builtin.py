"""Contracts on funsor/ops/builtin.py (pure integer / tuple helpers)."""
from pyvc.contract import Contract, Ctx, register, mval
from pyvc.core import SV, And, Or, Not, If, deep_eq
from .specs import spec_slice_indices


@register
class ParseSlice(Contract):
    """requires size >= 0, s.start/s.stop in Z u {None}, s.step None or >= 1 (derived from the call sites:
    find_domain(getslice) and slice_to_funsor compute lengths that are numpy's only for step >= 1).
    ensures (start, stop, step) == slice(s.start, s.stop, s.step).indices(size)   [CPython rule, step > 0]
            0 <= start <= size, 0 <= stop <= size."""

    props = ("C01", "C06")
    file = "funsor/ops/builtin.py"
    qualname = "parse_slice"
    total = True
    mutants = (
        ("min->max on start clamp", "start = min(size, start)", "start = max(size, start)"),
        ("size+start -> size-start", "start = max(0, size + start)", "start = max(0, size - start)"),
        ("drop stop clamp", "stop = min(size, stop)", "stop = stop"),
        ("negative stop off by one", "stop = max(0, size + stop)", "stop = max(0, size + stop + 1)"),
    )

    def structures(self, tier):
        for a in ("None", "int"):
            for b in ("None", "int"):
                for c in ("None", "int"):
                    yield "start=%s,stop=%s,step=%s" % (a, b, c), (a, b, c)

    def build(self, p, st):
        a, b, c = st
        size = p.fresh_int("size")
        p.assume(size >= 0)
        start = None if a == "None" else p.fresh_int("start")
        stop = None if b == "None" else p.fresh_int("stop")
        step = None if c == "None" else p.fresh_int("step")
        if step is not None:
            p.assume(step >= 1)
        return Ctx(args=(slice(start, stop, step), size), namespace={}, size=size, s=(start, stop, step))

    def ensures(self, ctx, result):
        a, b, c = spec_slice_indices(*ctx.s, ctx.size)
        start, stop, step = result
        return [
            ("equals_cpython_indices", And(start == a, stop == b, step == c)),
            ("in_range", And(0 <= start, start <= ctx.size, 0 <= stop, stop <= ctx.size)),
        ]

    def replay(self, ctx, m, st, clause):
        s = tuple(mval(m, x) for x in ctx.s)
        size = mval(m, ctx.size)
        return (
            "import sys\nfrom funsor.ops.builtin import parse_slice\n"
            "s, size = slice%r, %r\nr = parse_slice(s, size)\nexp = s.indices(size)\n"
            "print('parse_slice', s, size, '->', r, 'expected', exp)\nsys.exit(1 if tuple(r) != tuple(exp) else 0)\n" % (s, size)
        )
