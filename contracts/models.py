"""Models (assumed contracts) of the funsor objects the verified functions touch.

A model is the *contract* of the real class as seen by callers: its constructor asserts the real
constructor's precondition (raising Declined where the real one raises) and its fields carry the real
postcondition. Every model class used by a contract is listed in that contract's evidence under
`assumed_contracts`; where the real constructor is itself under contract (Slice.__init__, Tensor.__init__,
ArrayType.__getitem__) the model is exactly that proved postcondition.
"""
from collections import OrderedDict

from pyvc import core
from pyvc.core import SV, And, Declined, If, Not, Or, Unsupported, deep_eq, has_sym, is_sym, truth


# --------------------------------------------------------------------------------------------------
# domains
# --------------------------------------------------------------------------------------------------
class _MetaMarker(type):
    pass


class ArrayTypeM:
    """stands for funsor.domains.ArrayType in isinstance tests"""

    @staticmethod
    def __sym_instancecheck__(x):
        return isinstance(x, MDom)


class BintTypeM:
    @staticmethod
    def __sym_instancecheck__(x):
        return isinstance(x, MDom) and x.dtype != "real"


class RealsTypeM:
    @staticmethod
    def __sym_instancecheck__(x):
        return isinstance(x, MDom) and x.dtype == "real"


class ProductDomainM:
    @staticmethod
    def __sym_instancecheck__(x):
        return False


class MDom:
    """Array[dtype, shape] as a record; interned in the real code, so == is structural here"""

    def __init__(self, dtype, shape):
        self.dtype = dtype
        self.shape = tuple(shape)

    @property
    def size(self):
        if isinstance(self.dtype, str):
            raise Unsupported("size of a real domain")
        return self.dtype

    @property
    def num_elements(self):
        r = 1
        for s in self.shape:
            r = r * s
        return r

    is_concrete = True

    def __has_sym__(self):
        return has_sym(self.dtype) or has_sym(self.shape)

    def __deep_eq__(self, other):
        if not isinstance(other, MDom):
            return False
        if isinstance(self.dtype, str) != isinstance(other.dtype, str):
            return False
        return And(deep_eq(self.dtype, other.dtype), deep_eq(self.shape, other.shape))

    def __repr__(self):
        return "MDom(%r,%r)" % (self.dtype, self.shape)


def make_domain(dtype, shape):
    """contract of ArrayType.__getitem__ (domains.py:26-56): raises unless dtype=='real' with int sizes >= 0,
    or int dtype >= 0"""
    if dtype is None or shape is None:
        raise Declined("AssertionError")
    shape = tuple(shape)
    if isinstance(dtype, str):
        if dtype != "real":
            raise Declined("ValueError", "invalid dtype")
        for s in shape:
            if not core.sisinstance(s, int):
                raise Declined("AssertionError")
            if not truth(s >= 0):
                raise Declined("AssertionError")
    elif core.sisinstance(dtype, int):
        if not truth(dtype >= 0):
            raise Declined("AssertionError")
    else:
        raise Declined("ValueError", "invalid dtype")
    return MDom(dtype, shape)


class _ArrayFactory:
    def __sym_getitem__(self, idx):
        dtype, shape = idx
        return make_domain(dtype, shape)


class _BintFactory:
    def __sym_getitem__(self, idx):
        if isinstance(idx, tuple):
            return make_domain(idx[0], idx[1:])
        return make_domain(idx, ())


class _RealsFactory:
    def __sym_getitem__(self, idx):
        if not isinstance(idx, tuple):
            idx = (idx,)
        return make_domain("real", idx)


Array = _ArrayFactory()
Bint = _BintFactory()
Reals = _RealsFactory()
Real = MDom("real", ())

DOMAIN_NS = {
    "Array": Array,
    "Bint": Bint,
    "Reals": Reals,
    "Real": Real,
    "ArrayType": ArrayTypeM,
    "BintType": BintTypeM,
    "RealsType": RealsTypeM,
    "ProductDomain": ProductDomainM,
}


# --------------------------------------------------------------------------------------------------
# numpy shape specs (from the numpy documentation; conformance-tested against numpy in selftest)
# --------------------------------------------------------------------------------------------------
def spec_broadcast(shapes):
    """numpy broadcasting: returns (compatible: formula, shape). Right-aligned; per position the sizes that
    are not 1 must all be equal; the result is that size, or 1 if all are 1."""
    n = max([len(s) for s in shapes] + [0])
    ok = []
    out = []
    for pos in range(1, n + 1):
        sizes = [s[-pos] for s in shapes if len(s) >= pos]
        r = sizes[0]
        for x in sizes[1:]:
            r = If(deep_eq(r, 1), x, r)
        # all non-1 sizes equal r
        for x in sizes:
            ok.append(Or(deep_eq(x, 1), deep_eq(x, r)))
        out.append(r)
    return And(*ok) if ok else True, tuple(reversed(out))


def spec_reduce_shape(shape, axis, keepdims):
    """numpy reduction shape; axis None | int | tuple of ints, each in [-ndim, ndim)"""
    n = len(shape)
    if axis is None:
        dims = set(range(n))
    elif isinstance(axis, int):
        dims = {axis + n if axis < 0 else axis}
    else:
        dims = {a + n if a < 0 else a for a in axis}
    if keepdims:
        return tuple(1 if i in dims else shape[i] for i in range(n))
    return tuple(shape[i] for i in range(n) if i not in dims)


def spec_basic_index_shape(shape, index):
    """shape of x[index] for numpy basic indexing, index a tuple of None | int | slice (with int-or-None fields,
    step None or >= 1) | Ellipsis (at most one). Written from the numpy indexing documentation."""
    from .specs import spec_range_len, spec_slice_indices

    if not isinstance(index, tuple):
        index = (index,)
    consumed = sum(1 for p in index if p is not None and p is not Ellipsis)
    if any(p is Ellipsis for p in index):
        k = [i for i, p in enumerate(index) if p is Ellipsis][0]
        index = index[:k] + (slice(None),) * (len(shape) - consumed) + index[k + 1:]
    else:
        index = index + (slice(None),) * (len(shape) - consumed)
    out = []
    d = 0
    for p in index:
        if p is None:
            out.append(1)
        elif isinstance(p, slice):
            a, b, c = spec_slice_indices(p.start, p.stop, p.step, shape[d])
            out.append(spec_range_len(a, b, c))
            d += 1
        else:  # integer
            d += 1
    return tuple(out)


def conformance():
    import itertools

    import numpy as np

    bad = []
    for shapes in itertools.product([(), (1,), (2,), (0,), (3, 1), (1, 2), (2, 2), (2, 1, 3)], repeat=2):
        ok, out = spec_broadcast(shapes)
        try:
            exp = np.broadcast_shapes(*shapes)
            if ok is not True and not ok or tuple(out) != tuple(exp):
                bad.append(("broadcast", shapes, out, exp))
        except ValueError:
            if ok is True or ok:
                bad.append(("broadcast-should-fail", shapes))
    for shape in [(), (2,), (2, 3), (2, 3, 1)]:
        x = np.zeros(shape)
        n = len(shape)
        axes = [None] + list(range(-n, n)) + [t for t in itertools.permutations(range(n), 2)]
        for ax in axes:
            for kd in (False, True):
                if spec_reduce_shape(shape, ax, kd) != np.sum(x, axis=ax, keepdims=kd).shape:
                    bad.append(("reduce", shape, ax, kd))
        parts = [None, 0, -1, slice(None), slice(1, None), slice(None, -1), slice(0, 5, 2), slice(-5, 1), Ellipsis]
        for k in range(0, 4):
            for idx in itertools.product(parts, repeat=k):
                if sum(1 for p in idx if p is Ellipsis) > 1:
                    continue
                try:
                    exp = x[idx].shape
                except IndexError:
                    continue
                if spec_basic_index_shape(shape, idx) != exp:
                    bad.append(("index", shape, idx, exp, spec_basic_index_shape(shape, idx)))
    return bad
