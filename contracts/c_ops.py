"""C15: every entry of the published algebraic op tables is true on the op's carrier.

The table statements (UNITS[..] = .., DISTRIBUTIVE_OPS.add((..)), BINARY_INVERSES, SAFE_BINARY_INVERSES, UNARY_INVERSES,
PRODUCT_TO_POWER) are EXTRACTED FROM THE AST of funsor/ops/builtin.py and funsor/ops/array.py on every run; each op's
meaning is taken from its definition in the same files (`X.make(operator.f)` -> Python's f; decorated `def`s -> the body is
executed symbolically).  One obligation per entry (so an entry that is added, removed or changed changes the obligations).

Arithmetic model (assumption A-real): floats are extended reals -- finite values are exact reals, +-inf follow IEEE-754
(inf + finite = inf, exp(-inf) = 0, log(0) = -inf as funsor's scalar log defines it; inf - inf is NaN and makes the path
undecided); exp/log are uninterpreted with the listed ground axioms.  Booleans are exact."""
import ast

import z3

from pyvc import core
from pyvc.contract import Contract, Ctx, mval, register
from pyvc.core import SV, And, Declined, If, Implies, Not, Or, Unsupported, truth

EXP = z3.Function("exp", z3.RealSort(), z3.RealSort())
LOG = z3.Function("log", z3.RealSort(), z3.RealSort())
AXIOMS_USED = [
    "exp(t) > 0; log(exp(t)) = t; exp(0) = 1; log(1) = 0; exp(log(u)) = u for u > 0 (ground instances only)",
    "IEEE-754 infinities as extended reals: inf+finite=inf, exp(-inf)=0, exp(+inf)=inf, log(+inf)=inf; funsor's scalar log(x<=0) = -inf",
    "operator.pow on a natural exponent is repeated multiplication (definition of the power op)",
]


class XR:
    """extended real: k in {-1, 0, +1} (concrete), v a real term when k == 0"""

    def __init__(self, k, v=None):
        self.k, self.v = k, v

    @staticmethod
    def lift(x):
        if isinstance(x, XR):
            return x
        if isinstance(x, SV):
            return XR(0, SV(z3.ToReal(x.e)) if x.is_int else x)
        if isinstance(x, bool):
            raise Unsupported("bool in real arithmetic")
        if isinstance(x, (int, float)):
            if x == float("inf"):
                return XR(1)
            if x == float("-inf"):
                return XR(-1)
            return XR(0, SV(core._lift(float(x))))
        raise Unsupported("cannot lift %r" % (x,))

    def __add__(self, o):
        o = XR.lift(o)
        if self.k == "nan" or o.k == "nan":
            return XR("nan")
        if self.k == 0 and o.k == 0:
            return XR(0, self.v + o.v)
        if self.k * o.k == -1:
            return XR("nan")  # inf - inf
        return XR(self.k or o.k)

    __radd__ = __add__

    def __neg__(self):
        if self.k == "nan":
            return self
        return XR(-self.k, None if self.k else -self.v)

    def __sub__(self, o):
        return self + (-XR.lift(o))

    def __rsub__(self, o):
        return XR.lift(o) + (-self)

    def sign(self):
        if self.k == "nan":
            raise Unsupported("sign of NaN")
        if self.k:
            return self.k
        if truth(self.v > 0):
            return 1
        if truth(self.v < 0):
            return -1
        return 0

    def __mul__(self, o):
        o = XR.lift(o)
        if self.k == "nan" or o.k == "nan":
            return XR("nan")
        if self.k == 0 and o.k == 0:
            return XR(0, self.v * o.v)
        s = self.sign() * o.sign()
        if s == 0:
            raise Unsupported("0 * inf (NaN)")
        return XR(s)

    __rmul__ = __mul__

    def __truediv__(self, o):
        o = XR.lift(o)
        if o.k == 0:
            if not truth(o.v != 0):
                raise Declined("ZeroDivisionError")
            if self.k == 0:
                return XR(0, self.v / o.v)
            return XR(self.k * o.sign())
        if self.k:
            raise Unsupported("inf / inf (NaN)")
        return XR(0, SV(z3.RealVal(0)))

    def __rtruediv__(self, o):
        return XR.lift(o) / self

    def __pow__(self, n):
        raise Unsupported("pow")

    def cmp(self, o):
        """returns formula self > o (every comparison with NaN is False, IEEE-754)"""
        o = XR.lift(o)
        if self.k == "nan" or o.k == "nan":
            return False
        if self.k == 0 and o.k == 0:
            return self.v > o.v
        return self.k > o.k

    def __gt__(self, o):
        return self.cmp(o)

    def __lt__(self, o):
        return XR.lift(o).cmp(self)

    def __ge__(self, o):
        o = XR.lift(o)
        if self.k == "nan" or o.k == "nan":
            return False
        return Not(o.cmp(self))

    def __le__(self, o):
        o = XR.lift(o)
        if self.k == "nan" or o.k == "nan":
            return False
        return Not(self.cmp(o))

    def __sym_compare__(self, opname, o):
        return {"Gt": self.__gt__, "Lt": self.__lt__, "GtE": self.__ge__, "LtE": self.__le__}[opname](o)

    def __deep_eq__(self, o):
        o = XR.lift(o)
        if self.k == "nan" or o.k == "nan":
            return False
        if self.k != o.k:
            return False
        return True if self.k else self.v == o.v

    def __has_sym__(self):
        return True


def xr_max(a, b):
    a, b = XR.lift(a), XR.lift(b)
    return b if truth(b > a) else a  # Python's max returns the first maximal argument


def xr_min(a, b):
    a, b = XR.lift(a), XR.lift(b)
    return b if truth(b < a) else a


def xr_exp(x):
    x = XR.lift(x)
    if x.k == "nan":
        return x
    if x.k == -1:
        return XR(0, SV(z3.RealVal(0)))
    if x.k == 1:
        return XR(1)
    p = core.cur()
    t = z3.simplify(x.v.e)
    e = EXP(t)
    p.assume(e > 0)
    p.assume(LOG(e) == t)
    p.assume(z3.Implies(t == 0, e == 1))
    return XR(0, SV(e))


def math_log(x):
    """math.log: NaN for NaN, +inf for +inf, ValueError for x <= 0 and for -inf"""
    x = XR.lift(x)
    if x.k == "nan" or x.k == 1:
        return x
    if x.k == -1 or not truth(x.v > 0):
        raise Declined("ValueError", "math domain error")
    p = core.cur()
    u = z3.simplify(x.v.e)
    l = LOG(u)
    p.assume(EXP(l) == u)
    p.assume(z3.Implies(u == 1, l == 0))
    return XR(0, SV(l))


def xr_log(x):
    """the scalar `log` op: its REAL body from ops/builtin.py (`math.log(x) if x > 0 else -math.inf`) is interpreted"""
    return OpMeaning("log", CURRENT_MEANING[0])(x)


CURRENT_MEANING = [{}]


# ---- extraction of tables and op meanings from the AST ----------------------------------------------
FILES = ("funsor/ops/builtin.py", "funsor/ops/array.py")
TABLES = ("UNITS", "BINARY_INVERSES", "SAFE_BINARY_INVERSES", "UNARY_INVERSES", "PRODUCT_TO_POWER")


def extract():
    entries = []  # (table, key op, value source/ast, file, line)
    meaning = {}  # op name -> ("operator", fname) | ("def", Located-like node) | ("alias", other)
    for path in FILES:
        src, tree = core.parse_file(path)
        for n in tree.body:
            if isinstance(n, ast.Assign) and len(n.targets) == 1:
                t = n.targets[0]
                if isinstance(t, ast.Subscript) and isinstance(t.value, ast.Name) and t.value.id in TABLES and isinstance(t.slice, ast.Name):
                    entries.append((t.value.id, t.slice.id, n.value, path, n.lineno))
                elif isinstance(t, ast.Name) and isinstance(n.value, ast.Call) and isinstance(n.value.func, ast.Attribute) and n.value.func.attr == "make" and n.value.args:
                    a = n.value.args[0]
                    if isinstance(a, ast.Attribute) and isinstance(a.value, ast.Name) and a.value.id in ("operator", "math"):
                        meaning[t.id] = (a.value.id, a.attr)
                    elif isinstance(a, ast.Attribute) and a.attr == "default" and isinstance(a.value, ast.Name):
                        meaning[t.id] = ("alias", a.value.id)
                    elif isinstance(a, ast.Name):
                        meaning[t.id] = ("builtin", a.id)
            elif isinstance(n, ast.Expr) and isinstance(n.value, ast.Call) and isinstance(n.value.func, ast.Attribute) and n.value.func.attr == "add" and isinstance(n.value.func.value, ast.Name) and n.value.func.value.id == "DISTRIBUTIVE_OPS":
                tup = n.value.args[0]
                if isinstance(tup, ast.Tuple) and len(tup.elts) == 2 and all(isinstance(e, ast.Name) for e in tup.elts):
                    entries.append(("DISTRIBUTIVE_OPS", tup.elts[0].id, tup.elts[1], path, n.lineno))
            elif isinstance(n, ast.FunctionDef) and n.decorator_list:
                d = n.decorator_list[0]
                if isinstance(d, ast.Attribute) and d.attr == "make" or isinstance(d, ast.Call) and isinstance(d.func, ast.Attribute) and d.func.attr == "make":
                    if n.name not in meaning or path.endswith("builtin.py"):
                        meaning[n.name] = ("def", n, path)
    return entries, meaning


class OpMeaning:
    """callable giving the meaning of an op on XR / boolean symbolic values"""

    def __init__(self, name, meaning):
        self.name, self.meaning = name, meaning

    def __call__(self, *args):
        m = self.meaning.get(self.name)
        if m is None:
            raise Unsupported("no definition found for op %s" % self.name)
        if m[0] == "alias":
            return OpMeaning(m[1], self.meaning)(*args)
        if m[0] == "operator":
            f = m[1]
            a = args
            if f in ("and_", "or_", "xor"):
                x, y = (core._lift(v) for v in a)
                return SV({"and_": z3.And, "or_": z3.Or, "xor": z3.Xor}[f](x, y))
            if f == "add":
                return XR.lift(a[0]) + a[1]
            if f == "sub":
                return XR.lift(a[0]) - a[1]
            if f == "mul":
                return XR.lift(a[0]) * a[1]
            if f == "truediv":
                return XR.lift(a[0]) / a[1]
            if f == "neg":
                return -XR.lift(a[0])
            raise Unsupported("operator.%s" % f)
        if m[0] == "def":
            node = m[1]
            CURRENT_MEANING[0] = self.meaning
            ns = dict(
                _builtin_max=xr_max,
                _builtin_min=xr_min,
                max=xr_max,
                min=xr_min,
                detach=lambda x: x,
                log=xr_log,
                exp=xr_exp,
                Number=_NumberCls,
                operator=_OperatorNS,
                sub=OpMeaning("sub", self.meaning),
                math=_MathNS,
            )
            interp = core.Interp()
            f = core.IFunc(interp, node, core.Scope(None, ns), node.name)
            return f(*[XR.lift(x) if not (isinstance(x, SV) and x.is_bool) else x for x in args])
        raise Unsupported("meaning %r" % (m,))


class _NumberCls:
    @staticmethod
    def __sym_instancecheck__(x):
        return isinstance(x, (XR, SV, int, float))


class _OperatorNS:
    truediv = staticmethod(lambda a, b: XR.lift(a) / b)
    sub = staticmethod(lambda a, b: XR.lift(a) - b)


class _MathNS:
    inf = float("inf")
    log = staticmethod(math_log)
    exp = staticmethod(xr_exp)


def fin(p, name):
    return XR(0, p.fresh_real(name))


def const_value(node):
    src = ast.unparse(node)
    table = {"1.0": 1.0, "0.0": 0.0, "-math.inf": float("-inf"), "math.inf": float("inf"), "True": True, "False": False}
    if src not in table:
        raise Unsupported("unit constant %s" % src)
    return table[src]


@register
class OpTables(Contract):
    """one obligation per table entry found in the source (see module docstring)"""

    props = ("C15",)
    file = "funsor/ops/builtin.py"
    qualname = "<module-level table statements of ops/builtin.py and ops/array.py>"
    assumptions = tuple("C15 axiom: " + a for a in AXIOMS_USED)
    mutants = (
        ("and_/or_ units swapped (the pinned-tree defect)", "UNITS[and_] = True", "UNITS[and_] = False"),
        ("max unit +inf", "UNITS[max] = -math.inf", "UNITS[max] = math.inf"),
        ("add/mul declared the wrong way round", "DISTRIBUTIVE_OPS.add((add, mul))", "DISTRIBUTIVE_OPS.add((mul, add))"),
        ("inverse of add declared neg-less", "BINARY_INVERSES[add] = sub", "BINARY_INVERSES[add] = add"),
        ("power of add declared pow", "PRODUCT_TO_POWER[add] = mul", "PRODUCT_TO_POWER[add] = add"),
    )
    _mut = None

    def locate(self, mutant=None):
        # "location" = the two module sources; a mutant is applied textually to whichever file contains the pattern
        import hashlib

        srcs = {}
        for path in FILES:
            srcs[path] = core.parse_file(path)[0]
        if mutant is not None:
            label, old, new = mutant
            hit = [p for p, s in srcs.items() if old in s]
            if not hit:
                raise core.FunctionMissing("mutant %r: pattern not found" % (label,))
            srcs[hit[0]] = srcs[hit[0]].replace(old, new, 1)

        class L:
            sha = hashlib.sha256("".join(srcs.values()).encode()).hexdigest()[:16]
            lineno = 0

        L.srcs = srcs
        return L

    def _extract(self, srcs=None):
        if srcs is None:
            return extract()
        # same extraction on (possibly mutated) sources
        saved = {}
        import os

        entries, meaning = [], {}
        orig = core.parse_file

        def fake(path):
            return srcs[path], ast.parse(srcs[path])

        core.parse_file = fake
        try:
            return extract()
        finally:
            core.parse_file = orig

    def structures(self, tier, srcs=None):
        entries, meaning = self._extract(srcs)
        seen = {}
        for table, key, val, path, line in entries:
            v = ast.unparse(val)
            label = "%s[%s]=%s" % (table, key, v) if table != "DISTRIBUTIVE_OPS" else "DISTRIBUTIVE_OPS(%s,%s)" % (key, v)
            if label in seen:
                continue
            seen[label] = 1
            for case in self.cases(table, key):
                yield label + case, (table, key, v, case)

    def mutant_structures(self, tier, label):
        # the table entries (hence the obligations) are re-extracted from the mutated source
        mu = [m for m in self.mutants if m[0] == label][0]
        return self.structures(tier, self.locate(mu).srcs)

    def cases(self, table, key):
        if table == "UNITS" and key in ("max", "min"):
            return ["|x=finite", "|x=+inf", "|x=-inf"]
        if table == "UNITS" and key in ("logaddexp", "sample"):
            return ["", "|x=-inf"]
        if table == "PRODUCT_TO_POWER":
            return ["|base", "|step"]
        return [""]

    def build(self, p, st):
        table, key, v, case = st
        return Ctx(args=(), namespace={}, st=st, p=p)

    def entry(self, loc, ctx):
        entries, meaning = self._extract(loc.srcs)
        table, key, v, case = ctx.st
        # the entry must still exist verbatim in the (possibly mutated) source; otherwise the table changed
        found = [e for e in entries if e[0] == table and e[1] == key]
        ctx.entries, ctx.meaning = found, meaning

        def run():
            if not found:
                raise Unsupported("table entry %s[%s] not found any more" % (table, key))
            return [(e[2], ) for e in found]

        return run, None

    def ensures(self, ctx, result):
        table, key, v, case = ctx.st
        p = ctx.p
        M = ctx.meaning
        out = []
        for (valnode,) in result:
            vsrc = ast.unparse(valnode)
            name = "holds" if vsrc == v else "holds[value now %s]" % vsrc
            out.append((name, self.goal(p, M, table, key, valnode, case)))
        return out

    def goal(self, p, M, table, key, valnode, case):
        op = OpMeaning(key, M)
        boolean = M.get(key, ("", ""))[1] in ("and_", "or_", "xor")
        if table == "UNITS":
            u = const_value(valnode)
            if boolean:
                x = p.fresh_bool("x")
                return And(op(u, x) == x, op(x, u) == x)
            if isinstance(u, bool):
                raise Unsupported("boolean unit for a non-boolean op")
            x = fin(p, "x") if case in ("", "|x=finite") else XR(1) if case == "|x=+inf" else XR(-1)
            if key not in ("max", "min") and u in (float("inf"), float("-inf")) and case == "":
                x = fin(p, "x")
            return And(core.deep_eq(op(u, x), x), core.deep_eq(op(x, u), x))
        if table == "DISTRIBUTIVE_OPS":
            mul = OpMeaning(ast.unparse(valnode), M)
            bool2 = M.get(ast.unparse(valnode), ("", ""))[1] in ("and_", "or_", "xor")
            if boolean and bool2:
                a, b, c = (p.fresh_bool(n) for n in "abc")
                return And(mul(op(a, b), c) == op(mul(a, c), mul(b, c)), mul(c, op(a, b)) == op(mul(c, a), mul(c, b)))
            a, b, c = (fin(p, n) for n in "abc")
            if key in ("max", "min") and M.get(ast.unparse(valnode)) == ("operator", "mul"):
                p.assume(c.v >= 0)  # declared carrier: non-negative data where max/min is paired with mul
                p.assume(And(a.v >= 0, b.v >= 0))
            return And(core.deep_eq(mul(op(a, b), c), op(mul(a, c), mul(b, c))), core.deep_eq(mul(c, op(a, b)), op(mul(c, a), mul(c, b))))
        if table in ("BINARY_INVERSES", "SAFE_BINARY_INVERSES"):
            inv = OpMeaning(ast.unparse(valnode), M)
            if boolean:
                a, b = p.fresh_bool("a"), p.fresh_bool("b")
                return inv(op(a, b), b) == a
            a, b = fin(p, "a"), fin(p, "b")
            if M.get(key) == ("operator", "mul"):
                p.assume(b.v != 0)
            return core.deep_eq(inv(op(a, b), b), a)
        if table == "UNARY_INVERSES":
            inv = OpMeaning(ast.unparse(valnode), M)
            a = fin(p, "a")
            if M.get(key) == ("operator", "mul"):
                p.assume(a.v != 0)
                return core.deep_eq(op(a, inv(a)), 1.0)
            return core.deep_eq(op(a, inv(a)), 0.0)
        if table == "PRODUCT_TO_POWER":
            # n-fold `op` of x equals power(x, n): induction on n with power given by its defining recursion for pow
            x = fin(p, "x")
            power = ast.unparse(valnode)
            n = p.fresh_int("n")
            p.assume(n >= 1)
            nr = XR(0, SV(z3.ToReal(n.e)))
            if M.get(power) != ("operator", "pow"):
                pw = lambda k: OpMeaning(power, M)(x, k)
                if case == "|base":
                    return core.deep_eq(pw(XR.lift(1.0)), x)
                fold_n = pw(nr)  # induction hypothesis: n-fold op == power(x, n)
                return core.deep_eq(op(fold_n, x), pw(XR(0, nr.v + 1)))
            if True:
                POW = z3.Function("pow", z3.RealSort(), z3.IntSort(), z3.RealSort())
                p.assume(POW(x.v.e, 1) == x.v.e)
                p.assume(POW(x.v.e, n.e + 1) == POW(x.v.e, n.e) * x.v.e)  # definition of the power op on naturals
                if case == "|base":
                    return SV(POW(x.v.e, 1) == x.v.e)
                return core.deep_eq(op(XR(0, SV(POW(x.v.e, n.e))), x), XR(0, SV(POW(x.v.e, n.e + 1))))
            raise Unsupported("power op %s" % power)
        raise Unsupported(table)


FMAX = z3.Real("FLOAT_MAX")


@register
class SafeSubArray(Contract):
    """ops.array._safesub(x, y) (array paths): for finite operands equals x - y; never NaN unless both operands are +inf
    (inf - inf, the one undefined form: known finding C15/safe-ops-undefined-forms); in particular safesub(x, -inf) is not
    NaN for any x -- the case the op exists for.  np.clip(v, None, max) is modelled as min(v, FLOAT_MAX) on extended reals.
    Also an obligation of C11: the plate rule of adjoint_reduce divides by SAFE_BINARY_INVERSES[product] -- in the
    (logaddexp, add) semiring this very function -- and the contract of that rule relies on it being the inverse of add."""

    props = ("C15", "C11")
    file = "funsor/ops/array.py"
    qualname = "_safesub"
    total = True
    mutants = (("clip applied before the negation", "return x + np.clip(-y, None, finfo.max)", "return x - np.clip(y, None, finfo.max)"),)

    def structures(self, tier):
        for a in ("finite", "+inf", "-inf"):
            for b in ("finite", "+inf", "-inf"):
                yield "x=%s,y=%s" % (a, b), (a, b)

    def build(self, p, st):
        def mk(kind, name):
            return fin(p, name) if kind == "finite" else XR(1) if kind == "+inf" else XR(-1)

        x, y = mk(st[0], "x"), mk(st[1], "y")
        p.assume(FMAX > 10)
        for v in (x, y):
            if v.k == 0:
                p.assume(And(v.v <= SV(FMAX), v.v >= SV(-FMAX)))

        class FInfo:
            max = XR(0, SV(FMAX))

        class NP:
            @staticmethod
            def finfo(dt):
                return FInfo

            iinfo = finfo

            @staticmethod
            def clip(v, lo, hi):
                assert lo is None
                v = XR.lift(v)
                return xr_min(v, hi)

        class Y(XR):
            dtype = "float64"

        yy = Y(y.k, y.v)
        return Ctx(args=(x, yy), namespace={"np": NP, "ValueError": ValueError}, x=x, y=y, st=st)

    def ensures(self, ctx, result):
        a, b = ctx.st
        r = XR.lift(result)
        tag = "[both +inf]" if (a, b) == ("+inf", "+inf") else ""
        cl = [("never_nan" + tag, r.k != "nan")]
        if a == "finite" and b == "finite":
            cl.append(("finite_operands_plain_subtraction", core.deep_eq(r, ctx.x - ctx.y)))
        return cl
