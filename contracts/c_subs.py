"""C04: substitution bookkeeping in funsor/terms.py and funsor/cnf.py.

Terms are opaque bodies with known ordered inputs; the meaning of a (nested) substitution is computed by the spec
`evaluate(term, env)` -- environment extension with ALL values evaluated in the caller's environment, simultaneously --
and compared structurally, so the fusion rules are checked against the substitution law itself, for every body.
Name structure is enumerated (which names coincide); the domains are opaque tokens."""
import itertools
from collections import OrderedDict

from pyvc import core
from pyvc.contract import Contract, Ctx, register
from pyvc.core import Declined, Unsupported

from .c_terms import make_super


class F:
    """opaque funsor with ordered inputs"""

    def __init__(self, label, inputs, output="out"):
        self.label = label
        self.inputs = OrderedDict((k, "dom_" + k) for k in inputs)
        self.output = output
        self.fresh = frozenset()

    def __repr__(self):
        return "%s(%s)" % (self.label, ",".join(self.inputs))


class SubsT(F):
    """contract of SubsMeta.__call__ + Subs.__init__ (both proved below): foreign keys dropped, values coerced with the
    key's domain, inputs = unsubstituted inputs of arg in order followed by the values' inputs in first-occurrence order; a
    repeated key raises"""

    def __init__(self, arg, subs):
        if isinstance(subs, dict):
            subs = tuple(subs.items())
        subs = tuple((k, to_funsor(v, arg.inputs[k])) for k, v in subs if k in arg.inputs)
        inputs = OrderedDict(arg.inputs)
        for k, v in subs:
            if k not in inputs:
                raise Declined("KeyError", "duplicate substitution key")
            del inputs[k]
        for k, v in subs:
            inputs.update(v.inputs)
        self.arg, self.subs = arg, OrderedDict(subs)
        self.inputs = inputs
        self.output = arg.output
        self.label = "Subs"
        self.fresh = frozenset()


def to_funsor(v, dom=None):
    if isinstance(v, F):
        return v
    if isinstance(v, str):
        x = F("Var:" + v, [v])
        x.inputs = OrderedDict([(v, dom)])
        return x
    return F("Const:%r" % (v,), [])


def evaluate(t, env):
    """the substitution law: Subs(a, {k: v}) at env == a at env[k := v at env] (all v in the caller's env)"""
    if isinstance(t, SubsT):
        env2 = dict(env)
        for k, v in t.subs.items():
            env2[k] = evaluate(v, env)
        return evaluate(t.arg, env2)
    if t.label.startswith("Var:"):
        return env[t.label[4:]]
    return ("F", t.label, tuple((k, env[k]) for k in t.inputs))


def ident_env(names):
    return {n: ("free", n) for n in names}


ALLN = "abcd"
NS = dict(OrderedDict=OrderedDict, Subs=SubsT, to_funsor=to_funsor, tuple=tuple, isinstance=core.sisinstance)


@register
class FunsorCall(Contract):
    """Funsor.__call__(*args, **kwargs): builds Subs(self, pairs) where positional values bind the inputs in order,
    keyword values bind by name and override a positional binding of the same input, and names that are not inputs are
    ignored."""

    props = ("C04",)
    file = "funsor/terms.py"
    qualname = "Funsor.__call__"
    total = True
    mutants = (("foreign names kept", "        for k in self.inputs:\n            if k in kwargs:\n                subs[k] = kwargs[k]", "        subs.update(kwargs)"),)

    def structures(self, tier):
        for n in range(0, 4):
            for npos in range(0, n + 1):
                for kw in itertools.chain.from_iterable(itertools.combinations("abcx", r) for r in range(0, 3)):
                    yield "inputs=%d,positional=%d,keywords=%s" % (n, npos, "".join(kw) or "-"), (n, npos, kw)

    def build(self, p, st):
        n, npos, kw = st
        f = F("f", ALLN[:n])
        args = tuple("pos%d" % i for i in range(npos))
        kwargs = {k: "kw_" + k for k in kw}
        made = []

        def Subs(arg, subs):
            made.append((arg, subs))
            return ("Subs", arg, subs)

        return Ctx(args=(f,) + args, kwargs=kwargs, namespace=dict(NS, Subs=Subs), f=f, made=made, st=st)

    def ensures(self, ctx, result):
        n, npos, kw = ctx.st
        exp = OrderedDict()
        for i in range(npos):
            exp[ALLN[i]] = "pos%d" % i
        for k in ALLN[:n]:
            if k in kw:
                exp[k] = "kw_" + k
        return [("binds_inputs_only_keywords_override", ctx.made == [(ctx.f, tuple(exp.items()))] and result == ("Subs", ctx.f, tuple(exp.items())))]


@register
class SubsMetaCall(Contract):
    """SubsMeta.__call__(arg, subs): drops pairs whose key is not an input of arg, coerces each value with the input's
    domain (to_funsor(v, arg.inputs[k])), keeps the order, and delegates once."""

    props = ("C04",)
    file = "funsor/terms.py"
    qualname = "SubsMeta.__call__"
    total = True
    mutants = (("foreign keys kept", "for k, v in subs if k in arg.inputs", "for k, v in subs"),)

    def structures(self, tier):
        for keys in itertools.chain.from_iterable(itertools.permutations("abx", r) for r in range(0, 4)):
            yield "keys=%s" % ("".join(keys) or "-"), keys

    def build(self, p, keys):
        f = F("f", "ab")
        rec = []
        coerced = []

        def tf(v, dom):
            coerced.append((v, dom))
            return ("funsor", v, dom)

        subs = tuple((k, "val_" + k) for k in keys)
        return Ctx(args=(object(), f, subs), namespace=dict(NS, to_funsor=tf), rec=rec, f=f, keys=keys)

    def hooks(self, ctx):
        return {"super": lambda sc, *a: make_super(ctx.rec)}

    def ensures(self, ctx, result):
        exp = tuple((k, ("funsor", "val_" + k, "dom_" + k)) for k in ctx.keys if k in "ab")
        return [("foreign_dropped_values_coerced_with_input_domain", len(ctx.rec) == 1 and ctx.rec[0][1] == (ctx.f, exp))]


@register
class SubsInit(Contract):
    """Subs.__init__(arg, subs): inputs == arg's unsubstituted inputs in their order, followed by the inputs of the values
    in first-occurrence order (a value's input that coincides with a surviving input keeps the earlier position);
    output == arg.output; bound == {key: value.output}; a repeated or foreign key raises."""

    props = ("C04", "C06")
    file = "funsor/terms.py"
    qualname = "Subs.__init__"
    mutants = (("values' inputs put first", "        inputs = arg.inputs.copy()\n        for key, value in subs:\n            del inputs[key]\n        for key, value in subs:\n            inputs.update(value.inputs)", "        inputs = OrderedDict()\n        for key, value in subs:\n            inputs.update(value.inputs)\n        for k, d in arg.inputs.items():\n            if k not in dict(subs):\n                inputs.setdefault(k, d)"),)

    VALS = [(), ("c",), ("a",), ("b", "d")]

    def structures(self, tier):
        for keys in itertools.chain.from_iterable(itertools.permutations("abx", r) for r in range(0, 3)):
            for vi in itertools.product(range(len(self.VALS)), repeat=len(keys)):
                yield "keys=%s,value_inputs=%s" % ("".join(keys) or "-", [self.VALS[i] for i in vi]), (keys, vi)
        yield "repeated-key", (("a", "a"), (0, 1))

    def build(self, p, st):
        keys, vi = st
        f = F("f", "ab")
        vals = []
        for k, i in zip(keys, vi):
            v = F("v_" + k, self.VALS[i], output="dom_" + k)
            vals.append(v)
        rec = []

        class Self:
            pass

        class FunsorCls:
            @staticmethod
            def __sym_instancecheck__(x):
                return isinstance(x, F)

        return Ctx(args=(Self(), f, tuple(zip(keys, vals))), namespace=dict(NS, Funsor=FunsorCls, Subs="SubsClass"), rec=rec, f=f, keys=keys, vals=vals)

    def hooks(self, ctx):
        return {"super": lambda sc, *a: make_super(ctx.rec)}

    def may_raise(self, ctx, etype):
        return "x" in ctx.keys or len(set(ctx.keys)) != len(ctx.keys)

    def allow_vacuous(self, st):
        return "x" in st[0] or len(set(st[0])) != len(st[0])

    def ensures(self, ctx, result):
        exp = [k for k in "ab" if k not in ctx.keys]
        for v in ctx.vals:
            for k in v.inputs:
                if k not in exp:
                    exp.append(k)
        if len(ctx.rec) != 1:
            return [("delegates_once", False)]
        inputs, output, fresh, bound = ctx.rec[0][1]
        return [
            ("keys_valid_when_returns", "x" not in ctx.keys and len(set(ctx.keys)) == len(ctx.keys)),
            ("inputs_rule", list(inputs) == exp and all(inputs[k] == "dom_" + k for k in exp)),
            ("output_and_bound", output == "out" and bound == {k: "dom_" + k for k in ctx.keys} and fresh == frozenset()),
        ]


def fusion_cases(tier):
    """f(sigma)(tau): f over (a,b); sigma binds a subset of f's inputs to values with chosen inputs; tau binds a subset of
    {a,b,c} (inputs of the inner Subs and foreign ones) to values"""
    sig_vals = [(), ("c",), ("a",), ("b",)]
    tau_vals = [(), ("d",), ("a",)]
    for skeys in [(), ("a",), ("b",), ("a", "b")]:
        for sv in itertools.product(range(len(sig_vals)), repeat=len(skeys)):
            for tkeys in [(), ("a",), ("c",), ("b", "c"), ("a", "c"), ("x",)]:
                for tv in itertools.product(range(len(tau_vals)), repeat=len(tkeys)):
                    if tier == "quick" and len(skeys) + len(tkeys) > 3:
                        continue
                    yield (skeys, tuple(sig_vals[i] for i in sv), tkeys, tuple(tau_vals[i] for i in tv))


class _Fusion(Contract):
    props = ("C04", "C02")
    total = False

    def structures(self, tier):
        for c in fusion_cases(tier):
            yield "sigma=%s%s,tau=%s%s" % (c[0], c[1], c[2], c[3]), c

    prefiltered = False  # True: the rule only ever sees pairs already restricted to arg.inputs (by SubsMeta.__call__)

    def mk(self, st):
        skeys, svals, tkeys, tvals = st
        f = F("f", "ab")
        sigma = tuple((k, F("s_" + k, inp)) for k, inp in zip(skeys, svals))
        inner = SubsT(f, sigma)
        tau = tuple((k, F("t_" + k, inp)) for k, inp in zip(tkeys, tvals))
        if self.prefiltered:
            tau = tuple((k, v) for k, v in tau if k in inner.inputs)
        return f, inner, tau

    def repeats(self, st):
        f, inner, tau = self.mk(st)
        return any(k in inner.subs for k, _ in tau if k in inner.inputs)

    def allow_vacuous(self, st):
        return self.repeats(st)

    def law(self, ctx, result):
        """result must denote the chained substitution f(sigma)(tau) and have exactly its inputs"""
        f, inner, tau = ctx.f, ctx.inner, ctx.tau
        chained = SubsT(inner, tau)  # reflect: the lazily built f(sigma)(tau)
        names = set(ALLN) | {"x"}
        env = ident_env(names)
        if result is inner:
            same = evaluate(inner, env) == evaluate(chained, env)
            return [("denotes_the_chained_substitution", same), ("inputs_exactly_those_of_the_chained_term", list(inner.inputs) == list(chained.inputs))]
        if not isinstance(result, SubsT):
            return [("returns_a_substitution", False)]
        return [
            ("denotes_the_chained_substitution", evaluate(result, env) == evaluate(chained, env)),
            ("inputs_exactly_those_of_the_chained_term", set(result.inputs) == set(chained.inputs)),
        ]

    def may_raise(self, ctx, etype):
        # a key of tau that sigma both consumed and re-introduced makes the fused pair list repeat a key: it must raise
        # (never pick a winner); nothing else may raise
        skeys = [k for k, _ in ctx.inner.subs.items()]
        return any(k in skeys for k, _ in ctx.tau if k in ctx.inner.inputs) and etype == "KeyError"


@register
class EagerSubsSubs(_Fusion):
    """eager_subs_subs(arg=f(sigma), subs=tau): returns the single fused substitution f(sigma∘tau ∪ tau|inputs(f)∖dom sigma),
    which denotes f(sigma)(tau) for every f and all values (substitution law) and has the same inputs; when tau rebinds a
    name that sigma consumed and a sigma-value re-introduced, the fused pair list repeats a key and the constructor raises
    (no winner is picked)."""

    file = "funsor/terms.py"
    qualname = "eager_subs_subs"
    mutants = (("tau not pushed into sigma's values", "fused_subs = tuple((k, Subs(v, subs)) for k, v in arg.subs.items())", "fused_subs = tuple((k, v) for k, v in arg.subs.items())"), ("tau dropped", "    fused_subs += subs\n", "    pass\n"))

    def build(self, p, st):
        f, inner, tau = self.mk(st)
        return Ctx(args=(inner, tau), namespace=NS, f=f, inner=inner, tau=tau)

    def ensures(self, ctx, result):
        return self.law(ctx, result)


@register
class NormalizeFuseSubs(_Fusion):
    """cnf.normalize_fuse_subs(arg=a(b), subs=c): a(b)(c) -> a(c restricted, b(c)); same law and inputs as above."""

    file = "funsor/cnf.py"
    qualname = "normalize_fuse_subs"
    prefiltered = True
    mutants = (("inner values keep their old environment", "new_subs = subs + tuple((k, Subs(v, subs)) for k, v in arg_subs)", "new_subs = subs + tuple((k, v) for k, v in arg_subs)"),)

    def build(self, p, st):
        f, inner, tau = self.mk(st)
        return Ctx(args=(inner, tau), namespace=NS, f=f, inner=inner, tau=tau)

    def ensures(self, ctx, result):
        return self.law(ctx, result)


@register
class EagerSubsFunsor(Contract):
    """eager_subs_funsor(arg, subs): returns arg itself when no key is an input of arg (names that are not inputs are
    ignored), otherwise delegates to substitute(arg, subs)."""

    props = ("C04",)
    file = "funsor/terms.py"
    qualname = "eager_subs_funsor"
    total = True

    def structures(self, tier):
        for keys in [(), ("x",), ("a",), ("x", "b")]:
            yield "keys=%s" % ("".join(keys) or "-"), keys

    def build(self, p, keys):
        f = F("f", "ab")
        subs = tuple((k, F("v", ())) for k in keys)
        return Ctx(args=(f, subs), namespace=dict(NS, substitute=lambda a, s: ("substitute", a, s)), f=f, subs=subs, keys=keys)

    def ensures(self, ctx, result):
        if any(k in "ab" for k in ctx.keys):
            return [("delegates_to_substitute", result == ("substitute", ctx.f, ctx.subs))]
        return [("foreign_names_ignored", result is ctx.f)]
