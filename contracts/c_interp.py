"""Contracts on the interpretation stack (C17) and on interpretation plumbing (C03): funsor/interpreter.py,
funsor/interpretations.py, funsor/adjoint.py.

The global `_STACK` is modelled by SymStack: an ARBITRARY unknown base sequence B (any depth) from which k elements
have been popped, followed by a concrete suffix of pushed elements -- so every contract holds for every stack depth."""
from pyvc import core
from pyvc.contract import Contract, Ctx, register
from pyvc.core import SV, And, Declined, If, Implies, Not, Or, deep_eq, truth


class BaseElem:
    """the element B[-k] of the unknown base stack"""

    _cache = {}

    def __new__(cls, k):
        if k not in cls._cache:
            o = object.__new__(cls)
            o.k = k
            cls._cache[k] = o
        return cls._cache[k]

    def __repr__(self):
        return "B[-%d]" % self.k

    def __call__(self, *a):
        return None

    is_total = True
    subinterpretations = None


class FrontElem:
    _cache = {}

    def __new__(cls, k):
        if k not in cls._cache:
            o = object.__new__(cls)
            o.k = k
            cls._cache[k] = o
        return cls._cache[k]


class SymStack:
    """_STACK == front ++ B[fk : len(B)-k] ++ suffix ; requires len(B) >= need"""

    def __init__(self):
        self.k = 0
        self.fk = 0
        self.front = []
        self.suffix = []
        self.need = 0  # how many base elements were touched (precondition on the depth)
        self.writes = 0

    def state(self):
        return (self.k, tuple(self.suffix), self.fk, tuple(self.front))

    def append(self, x):
        self.writes += 1
        self.suffix.append(x)

    def insert(self, i, x):
        if i != 0:
            raise core.Unsupported("insert at a position other than 0")
        self.writes += 1
        self.front.insert(0, x)

    def pop(self, *a):
        self.writes += 1
        if a:
            if a[0] != 0:
                raise core.Unsupported("pop at a position other than 0 / -1")
            if self.front:
                return self.front.pop(0)
            self.fk += 1
            return FrontElem(self.fk)
        if self.suffix:
            return self.suffix.pop()
        self.k += 1
        self.need = max(self.need, self.k)
        return BaseElem(self.k)

    def __sym_getitem__(self, i):
        if i == 0:
            return self.front[0] if self.front else FrontElem(self.fk + 1)
        if i != -1:
            raise core.Unsupported("only _STACK[-1] and _STACK[0] are modelled")
        if self.suffix:
            return self.suffix[-1]
        self.need = max(self.need, self.k + 1)
        return BaseElem(self.k + 1)


def same(a, b):
    """stack states equal (the expected state b is given as (k, suffix) with untouched front)"""
    if a[2] != 0 or a[3] != ():
        return False
    return a[0] == b[0] and len(a[1]) == len(b[1]) and all(x is y for x, y in zip(a[1], b[1]))


class _Base(Contract):
    props = ("C17",)
    file = "funsor/interpreter.py"

    def structures(self, tier):
        yield "-", None


@register
class PushInterpretation(_Base):
    """modifies _STACK; ensures _STACK == old(_STACK) ++ [new] (any depth)"""

    qualname = "push_interpretation"
    total = True
    mutants = (("prepends", "_STACK.append(new)", "_STACK.insert(0, new)"), ("pushes twice", "_STACK.append(new)", "_STACK.append(new); _STACK.append(new)"))

    def build(self, p, st):
        stk = SymStack()
        new = BaseElem(99)
        return Ctx(args=(new,), namespace={"_STACK": stk, "callable": callable}, stk=stk, new=new)

    def ensures(self, ctx, result):
        return [("appends_exactly_new", same(ctx.stk.state(), (0, (ctx.new,)))), ("returns_none", result is None)]


@register
class PopInterpretation(_Base):
    """requires len(_STACK) >= 1; modifies _STACK; ensures _STACK == old[:-1] and result is old[-1]"""

    qualname = "pop_interpretation"
    total = True
    mutants = (("pops the bottom", "_STACK.pop()", "_STACK.pop(0)"), ("peeks only", "_STACK.pop()", "_STACK[-1]"))

    def structures(self, tier):
        yield "top-is-base", 0
        yield "top-was-pushed", 1

    def build(self, p, st):
        stk = SymStack()
        x = BaseElem(77)
        if st:
            stk.suffix.append(x)
        return Ctx(args=(), namespace={"_STACK": stk}, stk=stk, st=st, x=x)

    def ensures(self, ctx, result):
        if ctx.st:
            return [("removes_last", same(ctx.stk.state(), (0, ()))), ("returns_old_last", result is ctx.x)]
        return [("removes_last", same(ctx.stk.state(), (1, ()))), ("returns_old_last", result is BaseElem(1))]


@register
class GetInterpretation(_Base):
    """ensures result is _STACK[-1] and _STACK is unchanged"""

    qualname = "get_interpretation"
    total = True
    mutants = (("returns the bottom", "_STACK[-1]", "_STACK[0]"),)

    def build(self, p, st):
        stk = SymStack()
        return Ctx(args=(), namespace={"_STACK": stk}, stk=stk)

    def ensures(self, ctx, result):
        return [("is_top", result is BaseElem(1)), ("stack_unchanged", same(ctx.stk.state(), (0, ())) and ctx.stk.writes == 0)]


# ---- models = the contracts above, used by callers --------------------------------------------------
def stack_api(stk):
    def get_interpretation():
        return stk.__sym_getitem__(-1)

    def push_interpretation(new):
        stk.append(new)

    def pop_interpretation():
        return stk.pop()

    return dict(get_interpretation=get_interpretation, push_interpretation=push_interpretation, pop_interpretation=pop_interpretation)


class InterpM:
    """an interpretation object: is_total symbolic or concrete"""

    def __init__(self, name, is_total, subs=None):
        self.__name__ = name
        self.is_total = is_total
        self._subs = subs

    @property
    def subinterpretations(self):
        return self._subs if self._subs is not None else (self,)


class PrioritizedM(InterpM):
    """contract of PrioritizedInterpretation.__init__ (proved below): flattens, asserts non-empty, < 10 and totality
    only in last position; may raise AssertionError"""

    def __init__(self, *subs):
        flat = []
        for s in subs:
            if isinstance(s, BaseElem):
                flat.append(s)
            else:
                flat.extend(s.subinterpretations)
        if not flat or len(flat) >= 10:
            raise Declined("AssertionError")
        for s in flat[:-1]:
            if truth(s.is_total):
                raise Declined("AssertionError")
        self.args = subs
        InterpM.__init__(self, "/".join(getattr(s, "__name__", "?") for s in flat), core.Or(*[s.is_total for s in flat]), tuple(flat))


@register
class InterpretationEnter(Contract):
    """Interpretation.__enter__: modifies _STACK.
    normal exit: _STACK == old ++ [self if self.is_total else PrioritizedInterpretation(self, old[-1])], result is self;
    exceptional exit (the PrioritizedInterpretation constructor may assert): _STACK == old (nothing leaked)."""

    props = ("C17",)
    file = "funsor/interpretations.py"
    qualname = "Interpretation.__enter__"
    mutants = (
        ("pushes before building the layered interpretation", "        new = self\n        if not self.is_total:", "        new = self\n        push_interpretation(new)\n        if not self.is_total:"),
        ("partial interpretation pushed bare", "new = PrioritizedInterpretation(new, get_interpretation())", "new = new"),
        ("returns the pushed object", "return self", "return new"),
    )

    def structures(self, tier):
        yield "is_total=symbolic", None

    def build(self, p, st):
        stk = SymStack()
        self_ = InterpM("me", p.fresh_bool("is_total"))
        # the constructor of the layered interpretation may fail (nondeterministically, per its contract)
        fail = p.fresh_bool("ctor_fails")

        def PI(*subs):
            if truth(fail):
                raise Declined("AssertionError")
            r = PrioritizedM.__new__(PrioritizedM)
            r.args = subs
            r.is_total = True
            return r

        ns = dict(stack_api(stk), PrioritizedInterpretation=PI)
        return Ctx(args=(self_,), namespace=ns, stk=stk, self_=self_)

    def may_raise(self, ctx, etype):
        return True

    def ensures_raise(self, ctx, etype):
        return [("stack_unchanged_on_failure", same(ctx.stk.state(), (0, ())))]

    def ensures(self, ctx, result):
        k, suf = ctx.stk.state()[:2]
        ok_shape = k == 0 and len(suf) == 1
        if not ok_shape:
            return [("pushes_exactly_one", False)]
        top = suf[0]
        layered = isinstance(top, PrioritizedM) and len(top.args) == 2 and top.args[0] is ctx.self_ and top.args[1] is BaseElem(1)
        return [
            ("pushes_exactly_one", True),
            ("pushed_self_if_total_else_layered_over_old_top", If(ctx.self_.is_total, top is ctx.self_, layered)),
            ("returns_self", result is ctx.self_),
        ]


@register
class InterpretationExit(Contract):
    """Interpretation.__exit__(*exc): requires len(_STACK) >= 1; pops exactly one element whatever the exception
    arguments are, and returns a false value (never swallows an exception)."""

    props = ("C17",)
    file = "funsor/interpretations.py"
    qualname = "Interpretation.__exit__"
    total = True
    mutants = (
        ("swallows exceptions", "pop_interpretation()", "pop_interpretation()\n        return True"),
        ("pops only on normal exit", "pop_interpretation()", "if args[0] is None:\n            pop_interpretation()"),
    )

    def structures(self, tier):
        yield "normal-exit", 0
        yield "exceptional-exit", 1

    def build(self, p, st):
        stk = SymStack()
        pushed = BaseElem(55)
        stk.suffix.append(pushed)
        args = (None, None, None) if st == 0 else (ValueError, ValueError("x"), None)
        return Ctx(args=(InterpM("me", True),) + args, namespace=stack_api(stk), stk=stk)

    def ensures(self, ctx, result):
        return [("pops_exactly_one", same(ctx.stk.state(), (0, ())) and ctx.stk.writes == 1), ("does_not_swallow", not result)]


@register
class PrioritizedInit(Contract):
    """PrioritizedInterpretation.__init__(*subs): ensures _subinterpretations == concatenation of the arguments'
    subinterpretations in order; raises iff that is empty, has >= 10 entries or a non-last entry is total.
    structure bound: <= 3 arguments each with 1..2 subinterpretations; totality flags symbolic."""

    props = ("C17", "C03")
    file = "funsor/interpretations.py"
    qualname = "PrioritizedInterpretation.__init__"
    mutants = (("order reversed", "for s in subinterpretations for ss in s.subinterpretations", "for s in reversed(subinterpretations) for ss in s.subinterpretations"), ("total allowed anywhere", "assert not any(s.is_total for s in subinterpretations[:-1])", "pass"))

    def structures(self, tier):
        import itertools

        for n in (0, 1, 2, 3):
            for shape in itertools.product((1, 2), repeat=n):
                yield "arg_subcounts=%s" % (shape,), shape

    def build(self, p, shape):
        leaves = []
        args = []
        for i, m in enumerate(shape):
            ls = [InterpM("i%d_%d" % (i, j), p.fresh_bool("total")) for j in range(m)]
            leaves += ls
            args.append(ls[0] if m == 1 else InterpM("grp%d" % i, True, tuple(ls)))

        class Self:
            pass

        rec = []
        from .c_terms import make_super

        self_ = Self()
        return Ctx(args=(self_,) + tuple(args), namespace={}, leaves=leaves, rec=rec, self_=self_)

    def hooks(self, ctx):
        from .c_terms import make_super

        return {"super": lambda sc: make_super(ctx.rec)}

    def allow_vacuous(self, st):
        return len(st) == 0

    def may_raise(self, ctx, etype):
        L = ctx.leaves
        return Or(len(L) == 0, len(L) >= 10, Or(*[s.is_total for s in L[:-1]]))

    def ensures(self, ctx, result):
        L = ctx.leaves
        got = getattr(ctx.self_, "_subinterpretations", None)
        return [
            ("flattened_in_order", isinstance(got, tuple) and len(got) == len(L) and all(a is b for a, b in zip(got, L))),
            ("only_last_may_be_total", Not(Or(*[s.is_total for s in L[:-1]]))),
        ]


@register
class PrioritizedInterpret(Contract):
    """PrioritizedInterpretation.interpret(cls, *args): returns the first non-None result of the subinterpretations
    in priority order (None if all decline); later ones are not consulted after a hit; an exception propagates.
    structure bound: <= 9 subinterpretations (the constructor asserts < 10, so this is complete)."""

    props = ("C17", "C03")
    file = "funsor/interpretations.py"
    qualname = "PrioritizedInterpretation.interpret"
    total = True
    mutants = (("last wins", "for s in self._subinterpretations:", "for s in reversed(self._subinterpretations):"), ("falsy results skipped", "if result is not None:", "if result:"))

    def structures(self, tier):
        for n in range(1, 10 if tier != "quick" else 6):
            yield "n=%d" % n, n

    def build(self, p, n):
        calls = []
        results = []

        class Sub:
            def __init__(self, i, declines):
                self.i, self.declines = i, declines

            def interpret(self, cls, *args):
                calls.append((self.i, cls, args))
                if truth(self.declines):
                    return None
                return results[self.i]

        subs = []
        for i in range(n):
            d = p.fresh_bool("declines%d" % i)
            subs.append(Sub(i, d))
            results.append(("result", i, 0) if i % 2 else 0)  # includes a falsy non-None result

        class Self:
            _subinterpretations = tuple(subs)

        return Ctx(args=(Self(), "CLS", "a", "b"), namespace={}, subs=subs, calls=calls, results=results)

    def ensures(self, ctx, result):
        n = len(ctx.subs)
        calls = ctx.calls
        k = len(calls)  # number consulted on this path
        in_order = all(c[0] == i and c[1] == "CLS" and c[2] == ("a", "b") for i, c in enumerate(calls))
        if result is None:
            return [("consulted_all_in_order_and_all_declined", And(in_order, k == n, *[s.declines for s in ctx.subs]))]
        return [("first_hit_wins", And(in_order, result is ctx.results[k - 1], Not(ctx.subs[k - 1].declines), *[s.declines for s in ctx.subs[: k - 1]]))]


@register
class MemoizeInterpret(Contract):
    """Memoize.interpret(cls, *args): get-or-compute on the key make_hash_key(cls, *args).
    hit (a non-None value stored under the key): returns it and does not call the base interpretation;
    miss: stores and returns base.interpret(cls, *args) under exactly that key; other keys untouched.
    (That equal keys mean equal (cls, args) is the key-injectivity obligation of make_hash_key, C07/C03.)"""

    props = ("C03", "C07")
    file = "funsor/interpretations.py"
    qualname = "Memoize.interpret"
    total = True
    mutants = (("never stores", "self.cache[key] = value = self.base_interpretation.interpret(cls, *args)", "value = self.base_interpretation.interpret(cls, *args)"), ("recomputes on hit", "if value is None:", "if True:"))

    def structures(self, tier):
        yield "hit", "hit"
        yield "miss", "miss"
        yield "cached-None", "none"

    def build(self, p, st):
        calls = []
        KEY = ("key-of", "CLS", "a")
        cache = {("other",): "other-value"}
        if st == "hit":
            cache[KEY] = "cached"
        elif st == "none":
            cache[KEY] = None

        class Base:
            def interpret(self, cls, *args):
                calls.append((cls, args))
                return "computed"

        class Self:
            base_interpretation = Base()

            def make_hash_key(self, cls, *args):
                return ("key-of", cls) + args

        s = Self()
        s.cache = cache
        return Ctx(args=(s, "CLS", "a"), namespace={}, cache=cache, calls=calls, st=st, KEY=KEY)

    def ensures(self, ctx, result):
        frame = ctx.cache.get(("other",)) == "other-value" and set(ctx.cache) == {("other",), ctx.KEY}
        if ctx.st == "hit":
            return [("hit_returns_cached_without_recomputing", result == "cached" and ctx.calls == [] and ctx.cache.get(ctx.KEY) == "cached"), ("other_keys_untouched", frame)]
        return [("miss_computes_once_and_stores_under_the_key", result == "computed" and ctx.calls == [("CLS", ("a",))] and ctx.cache.get(ctx.KEY) == "computed"), ("other_keys_untouched", frame)]


@register
class MemoizeContext(Contract):
    """memoize(cache): generator context manager. ensures: pushes exactly one Memoize(get_interpretation(), cache) (via
    Interpretation.__enter__'s contract), yields its cache, and pops it again when the body finishes normally or raises
    -- _STACK is restored on both exits."""

    props = ("C17",)
    file = "funsor/interpretations.py"
    qualname = "memoize"
    mutants = (("yield outside the with block", "    with Memoize(base_interpretation, cache) as interp:\n        yield interp.cache", "    interp = Memoize(base_interpretation, cache)\n    interp.__enter__()\n    yield interp.cache"),)

    def structures(self, tier):
        yield "body-normal-or-raises", None

    def build(self, p, st):
        stk = SymStack()
        api = stack_api(stk)
        ctx = Ctx(namespace=None, stk=stk, yielded=[], at_yield=None, p=p)

        class MemoizeM(InterpM):
            def __init__(self, base, cache=None):
                InterpM.__init__(self, "Memoize", True)
                self.base, self.cache = base, {} if cache is None else cache

            # Interpretation.__enter__/__exit__ by their contracts (total interpretation: pushes self)
            def __enter__(self):
                api["push_interpretation"](self)
                return self

            def __exit__(self, *a):
                api["pop_interpretation"]()

        ctx.namespace = dict(api, Memoize=MemoizeM)
        ctx.args = ({"user": "cache"},)
        ctx.M = MemoizeM
        return ctx

    def hooks(self, ctx):
        def on_yield(v):
            ctx.yielded.append(v)
            ctx.at_yield = ctx.stk.state()
            if truth(ctx.p.fresh_bool("body_raises")):
                raise Declined("BodyException")
            return None

        return {"yield": on_yield}

    def may_raise(self, ctx, etype):
        return etype == "BodyException"

    def _common(self, ctx):
        k, suf = ctx.at_yield[:2] if ctx.at_yield else (None, ())
        pushed = ctx.at_yield is not None and k == 0 and len(suf) == 1 and isinstance(suf[0], ctx.M) and suf[0].base is BaseElem(1)
        return [
            ("yields_once_the_cache_with_memoize_on_top", len(ctx.yielded) == 1 and pushed and ctx.yielded[0] is suf[0].cache and ctx.yielded[0] == {"user": "cache"}),
            ("stack_restored", same(ctx.stk.state(), (0, ()))),
        ]

    def ensures_raise(self, ctx, etype):
        return self._common(ctx)

    def ensures(self, ctx, result):
        return self._common(ctx)


@register
class AdjointTapeEnter(Contract):
    """AdjointTape.__enter__: on EVERY entry (also a re-entry of the same tape object) records the interpretation that is active now (old top) and delegates to
    Interpretation.__enter__ exactly once, returning its result; the stack is touched only by the delegate."""

    props = ("C17", "C11")
    file = "funsor/adjoint.py"
    qualname = "AdjointTape.__enter__"
    total = True
    mutants = (("does not delegate", "return super().__enter__()", "return self"), ("records after pushing", "        self._old_interpretation = interpreter.get_interpretation()\n        return super().__enter__()", "        r = super().__enter__()\n        self._old_interpretation = interpreter.get_interpretation()\n        return r"), ("keeps the base recorded at the first entry", "        self._old_interpretation = interpreter.get_interpretation()", "        if self._old_interpretation is None:\n            self._old_interpretation = interpreter.get_interpretation()"))

    def structures(self, tier):
        yield "first-entry", None
        yield "re-entry-of-the-same-tape", "stale"

    def build(self, p, st):
        stk = SymStack()
        api = stack_api(stk)

        class Interp:
            get_interpretation = staticmethod(api["get_interpretation"])

        class Self:
            tape = ["stale"]
            _old_interpretation = None if st is None else "interpretation-recorded-at-an-earlier-entry"

        rec = []
        return Ctx(args=(Self(),), namespace={"interpreter": Interp}, stk=stk, rec=rec, api=api)

    def hooks(self, ctx):
        class S:
            def __enter__(s):
                ctx.rec.append("enter")
                ctx.api["push_interpretation"]("pushed-by-base-enter")
                return "base-enter-result"

        return {"super": lambda sc: S()}

    def ensures(self, ctx, result):
        self_ = ctx.args[0]
        return [
            ("records_old_top", self_._old_interpretation is BaseElem(1)),
            ("tape_reset", self_.tape == []),
            ("delegates_once_and_returns_its_result", ctx.rec == ["enter"] and result == "base-enter-result"),
            ("stack_only_changed_by_delegate", same(ctx.stk.state(), (0, ("pushed-by-base-enter",)))),
        ]
