"""C12 / C13 / C14, value level: the real Gaussian code of funsor/gaussian.py and funsor/integrate.py executed on arrays whose
entries are INDETERMINATES of an exact real field (contracts/realalg.py), and the result compared -- as an identity of the
field, hence at every real input -- with the closed form of the Gaussian integral / the dense quadratic form.

What is proved here and what is not:
  proved    for every real value of every array entry, for the listed shape families (dims and ranks up to 3..4, stated per
            contract): the arithmetic of the function (which rows are taken, which factor is solved against, which branch is
            chosen for which rank, what is subtracted from what) yields exactly the mathematical value.
  assumed   the callee contracts of cholesky / triangular_solve / qr (models in realalg.py), float arithmetic read as exact real
            arithmetic, and the closed forms of Gaussian integrals used as specifications (complete-the-square identities).
  elsewhere batch alignment and broadcasting (record-level contracts in c_gauss_adj.py), larger shapes and rounding (bounded tier).
"""
import itertools
from collections import OrderedDict, defaultdict

import numpy as np

from pyvc import core
from pyvc.contract import Contract, Ctx, register
from pyvc.core import Declined, Unsupported

from . import realalg as ra
from .realalg import RE, LinV, ExpV

GFILE = "funsor/gaussian.py"
ASSUME = (
    "exact-real models of ops.cholesky / ops.triangular_solve / ops.qr (contracts/realalg.py): the factor with positive diagonal, the unique solution, Gram-Schmidt up to column signs",
    "float arithmetic read as exact real arithmetic in the value-level Gaussian contracts; log / exp uninterpreted (formal terms)",
    "closed forms of Gaussian integrals (complete the square) used as specifications of marginals / normalisers / expectations",
)
BACKEND = "exact-field-normal-form (sympy QQ fraction field + square-root tower)"


class Dm:
    def __init__(self, dtype, shape=()):
        self.dtype, self.shape = dtype, tuple(shape)
        self.num_elements = int(np.prod(shape)) if shape else 1
        self.size = dtype if isinstance(dtype, int) else None

    def __eq__(self, o):
        return isinstance(o, Dm) and (self.dtype, self.shape) == (o.dtype, o.shape)

    def __hash__(self):
        return hash((self.dtype, self.shape))

    def __repr__(self):
        return "Reals%s" % (list(self.shape),) if self.dtype == "real" else "Bint[%s]" % self.dtype


def R(n):
    return Dm("real", (n,))


class ApplyR:
    def __init__(self, op, args):
        self.op, self.args = op, args


class Sentinel:
    def __init__(self, name):
        self.name = name

    def __call__(self, *args):
        return ApplyR(self, args)

    def __repr__(self):
        return "ops." + self.name


class DeltaR:
    def __init__(self, name, point, log_density=0):
        self.name, self.point, self.log_density = name, point, log_density


class ReduceR:
    def __init__(self, arg, op, vars_):
        self.arg, self.op, self.vars = arg, op, frozenset(vars_)


class _Red:
    def reduce(self, op, vars_):
        vars_ = frozenset(vars_)
        return self if not vars_ else ReduceR(self, op, vars_)


class TensorR(_Red):
    def __init__(self, data, inputs=None, dtype="real"):
        self.data, self.inputs, self.dtype = data, OrderedDict(inputs or ()), dtype

    @property
    def output(self):
        return Dm("real", np.asarray(self.data, dtype=object).shape[sum(1 for d in self.inputs.values()):])

    @property
    def shape(self):
        return self.output.shape

    def __add__(self, o):
        if isinstance(o, GaussBase):
            return SumR(self, o)
        return NotImplemented

    __iadd__ = __add__


class SumR(_Red):
    def __init__(self, tensor, gaussian):
        self.tensor, self.gaussian = tensor, gaussian


class GaussBase(_Red):
    def __add__(self, o):
        if isinstance(o, TensorR):
            return SumR(o, self)
        return NotImplemented

    __iadd__ = __add__


HELPERS = ("_log_det_tri", "_vv", "_mv", "_vm", "_mmt", "_mtm", "_compute_offsets", "_split_real_inputs", "_find_intervals", "_parse_slices", "_norm2", "_inverse_cholesky", "_compress_rank")
PROPS_ = ("rank", "is_full_rank", "_precision", "_precision_chol", "_covariance", "_scale_tril", "_mean", "_info_vec", "_log_normalizer", "log_normalizer")
METHODS = ("_marginalize_after_split",)


def build_env(T, qr_signs=None, skip=(), replace=None):
    """namespace in which the real functions of funsor/gaussian.py are interpreted: every helper is the REAL helper (re-read
    from /repo), ops / math are the exact-real models, Tensor / Gaussian are records"""
    ops = ra.OpsReal(T, qr_signs)
    for nm in ("logaddexp", "add", "mul", "min", "max"):
        setattr(ops, nm, Sentinel(nm))
    ns = dict(ops=ops, math=ra.MathNS(T), OrderedDict=OrderedDict, defaultdict=defaultdict, get_tracing_state=lambda: False, Tensor=TensorR)

    def align_tensor(new_inputs, x, expand=False):
        """callee contract of tensor.align_tensor (proved: AlignTensor) on object arrays: dims permuted to the order of
        new_inputs, a unit dim for every input x lacks (its full size with expand=True), every value staying with its names"""
        old = list(x.inputs)
        data = np.asarray(x.data, dtype=object)
        present = [k_ for k_ in new_inputs if k_ in x.inputs]
        if set(old) - set(present):
            raise Declined("AssertionError", "align_tensor: an input of x is missing from new_inputs")
        data = np.transpose(data, [old.index(k_) for k_ in present] + list(range(len(old), data.ndim)))
        shape, pos = [], 0
        for k_ in new_inputs:
            if k_ in x.inputs:
                shape.append(data.shape[pos])
                pos += 1
            else:
                shape.append(1)
        event = data.shape[pos:]
        data = data.reshape(tuple(shape) + event)
        if expand:
            data = np.broadcast_to(data, tuple(d.size for d in new_inputs.values()) + event)
        return data

    ns["align_tensor"] = align_tensor
    for h in HELPERS:
        if h in skip:
            continue
        ns[h] = core.make_callable(core.locate(GFILE, h), ns)[0]
    # BlockVector / BlockMatrix: python classes whose methods are the interpreted real methods
    for cname in ("BlockVector", "BlockMatrix"):
        fs = {m: core.make_callable(core.locate(GFILE, "%s.%s" % (cname, m)), ns)[0] for m in ("__init__", "__setitem__", "as_tensor")}

        def mk(fs):
            class K:
                def __init__(self, *a):
                    fs["__init__"](self, *a)

                def __setitem__(self, i, v):
                    fs["__setitem__"](self, i, v)

                def as_tensor(self):
                    return fs["as_tensor"](self)

            return K

        ns[cname] = mk(fs)

    class GaussR(GaussBase):
        output = Dm("real", ())

        def __init__(self, white_vec=None, prec_sqrt=None, inputs=None, negate=False):
            self.white_vec, self.prec_sqrt = white_vec, prec_sqrt
            self.inputs = OrderedDict(inputs.items() if isinstance(inputs, OrderedDict) else inputs)
            self._cache = {}

        def __getattr__(self, name):
            if name in PROPS_ or name in METHODS:
                if name in (replace or {}):
                    f = replace[name]
                else:
                    f = core.make_callable(core.locate(GFILE, "Gaussian." + name), ns)[0]
                if name in METHODS:
                    return lambda *a, **k: f(self, *a, **k)
                if name not in self._cache:
                    self._cache[name] = f(self)
                return self._cache[name]
            raise AttributeError(name)

    ns["Gaussian"] = GaussR
    ns["align_gaussian"] = core.make_callable(core.locate(GFILE, "align_gaussian"), ns)[0]
    return ns, ops, GaussR


def mk_tower(**shapes):
    names = []
    for k, sh in shapes.items():
        names += ra.names_of(k, sh)
    T = ra.Tower(names)
    return T, {k: ra.fresh(T, k, sh) for k, sh in shapes.items()}


def offsets(inputs):
    off, tot = OrderedDict(), 0
    for k, d in inputs.items():
        if d.dtype == "real":
            off[k] = (tot, tot + d.num_elements)
            tot += d.num_elements
    return off, tot


def rows(inputs, names):
    off, _ = offsets(inputs)
    out = []
    for k in inputs:
        if k in names and inputs[k].dtype == "real":
            out += list(range(*off[k]))
    return out


def lin_same(a, b):
    """equality of two formal values q + sum c_k log a_k with rational c_k: q equal, log(2 pi) coefficients equal, and
    prod a_k^(2 c_k) equal (arguments are positive)"""
    T = a.T if isinstance(a, LinV) else b.T
    a, b = LinV.lift(T, a), LinV.lift(T, b)
    if not (a.q - b.q).is_zero():
        return False

    def parts(x):
        c2pi = RE.coerce(T, 0)
        prod = RE.coerce(T, 1)
        for k, (c, arg) in x.logs.items():
            if arg is None:
                c2pi = c2pi + c
                continue
            two_c = c * 2
            if two_c.lvl != 0 and not T.is_zero(two_c.rep[1], two_c.lvl - 1):
                raise Unsupported("non-constant log coefficient")
            rep = two_c.rep
            for _ in range(two_c.lvl):
                rep = rep[0]
            if rep.denom != 1 or not rep.numer.is_ground:
                raise Unsupported("log coefficient is not a half-integer")
            n = int(rep.numer.LC) if rep.numer != 0 else 0
            prod = prod * (arg ** n if n >= 0 else RE.coerce(T, 1) / (arg ** (-n)))
        return c2pi, prod

    pa, pb = parts(a), parts(b)
    return (pa[0] - pb[0]).is_zero() and (pa[1] - pb[1]).is_zero()


def lin_verdict(T, a, b):
    if lin_same(a, b):
        return True
    a2, b2 = LinV.lift(T, a), LinV.lift(T, b)
    if ra.differs_numerically(T, a2, b2):
        return False
    raise Unsupported("formal log terms differ but no numeric difference found")


def as_scalar(x):
    x = np.asarray(x, dtype=object)
    if x.shape != ():
        raise Unsupported("expected a scalar, got shape %s" % (x.shape,))
    return x[()]


def log_normalizer_spec(T, P, w):
    """log integral exp(-1/2 |x P - w|^2) dx over R^dim = dim/2 log 2pi - 1/2 log det(P P') - 1/2 (w w' - (P w')' (P P')^-1 (P w'))"""
    dim = P.shape[0]
    Lam = P @ P.T
    Pw = P @ w
    z = ra.solve_spd(Lam, Pw)
    quad_min = w @ w - Pw @ z
    det = ra.det_spd(Lam)
    return ra.log2pi(T, ra.Fraction(dim, 2)) - ra.formal_log(T, det) * ra.Fraction(1, 2) - quad_min * ra.Fraction(1, 2)


REPLAY_HEAD = """import sys
from collections import OrderedDict
import numpy as np
import funsor
import funsor.ops as ops
from funsor import Tensor, Variable, Real, Reals, Bint
from funsor.gaussian import Gaussian, _compress_rank
funsor.set_backend("numpy")
V = %(vals)r
A = {k: np.array(v, dtype=float) for k, v in V.items()}

def dense(P, w):
    return P @ P.T, P @ w, -0.5 * float(w @ w)

def quad(x, P, w):
    r = x @ P - w
    return -0.5 * float(r @ r)

def lognorm(P, w):
    L, eta, c = dense(P, w)
    n = P.shape[0]
    return 0.5 * n * np.log(2 * np.pi) - 0.5 * np.log(np.linalg.det(L)) + 0.5 * float(eta @ np.linalg.solve(L, eta)) + c

def report(got, want, what):
    ok = np.allclose(np.asarray(got, dtype=float), np.asarray(want, dtype=float), rtol=1e-6, atol=1e-8)
    print(what, 'funsor:', np.asarray(got).tolist(), 'closed form:', np.asarray(want).tolist(), 'OK' if ok else 'MISMATCH')
    return ok
"""


class NativeReplay:
    """replay(): the numeric point at which the exact back end confirmed a refutation is turned into a stand-alone script that
    calls the REAL funsor code on those numbers and compares with a dense numpy closed form (exit 1 = reproduced)."""

    def replay(self, ctx, model, st, clause):
        T = getattr(ctx, "T", None)
        if T is None or not hasattr(self, "native"):
            return None
        vals = ra.numeric_values(T, ctx.a)
        if vals is None:
            return None
        body = self.native(ctx, st)
        if body is None:
            return None
        return REPLAY_HEAD % dict(vals=vals) + body


# ==================================================================================================
@register
class CompressRankExact(NativeReplay, Contract):
    """_compress_rank(white_vec, prec_sqrt, assume_full_rank): returns (wc, Pc, shift) with Pc square (dim x dim) and
        -1/2 |x P - w|^2  ==  -1/2 |x Pc - wc|^2 + shift      for EVERY real x, w, P
    on both branches (Cholesky re-factorisation when assume_full_rank, reduced QR otherwise, every QR sign pattern).
    shape family: dim 1..2, rank dim..dim+2 (quick: rank <= 3), no batch dims and one batch dim of size 2 at dim 1."""

    props = ("C12", "C13")
    file = GFILE
    qualname = "_compress_rank"
    total = True
    assumptions = ASSUME
    ground_backend = BACKEND
    mutants = (
        ("shift has the wrong sign", "    shift = 0.5 * (new_norm2 - old_norm2)", "    shift = 0.5 * (old_norm2 - new_norm2)"),
        ("white_vec not rotated into the compressed space", "        white_vec = _vm(white_vec, Q)", "        white_vec = white_vec[..., : Q.shape[-1]]"),
        ("information vector solved against the transposed factor", "        white_vec = ops.triangular_solve(info_vec_, prec_sqrt)[..., 0]", "        white_vec = ops.triangular_solve(info_vec_, prec_sqrt, transpose=True)[..., 0]"),
    )

    def structures(self, tier):
        for dim in (1, 2):
            for rank in range(dim, dim + 3):
                if tier == "quick" and rank > 3:
                    continue
                yield "dim=%d,rank=%d,cholesky" % (dim, rank), (dim, rank, True, None, ())
                for signs in itertools.product((1, -1), repeat=dim):
                    yield "dim=%d,rank=%d,qr,signs=%s" % (dim, rank, "".join("+" if s > 0 else "-" for s in signs)), (dim, rank, False, signs, ())
        yield "dim=1,rank=2,cholesky,batch=2", (1, 2, True, None, (2,))
        yield "dim=1,rank=2,qr,batch=2", (1, 2, False, (1,), (2,))

    def native(self, ctx, st):
        dim, rank, full, signs, batch = st
        return """wc, Pc, shift = _compress_rank(A['w'], A['P'], assume_full_rank=%r)
ok = True
for b in np.ndindex(*%r):
    ok = report(quad(A['x'], Pc[b], wc[b]) + float(np.asarray(shift)[b]), quad(A['x'], A['P'][b], A['w'][b]), '_compress_rank density at x, batch %%s:' %% (b,)) and ok
sys.exit(0 if ok else 1)
""" % (full, tuple(batch))

    def build(self, p, st):
        dim, rank, full, signs, batch = st
        T, a = mk_tower(P=batch + (dim, rank), w=batch + (rank,), x=(dim,))
        ns, ops, _ = build_env(T, signs, skip=("_compress_rank",))
        return Ctx(args=(a["w"], a["P"]), kwargs=dict(assume_full_rank=full), namespace=ns, T=T, a=a, st=st)

    def ensures(self, ctx, result):
        dim, rank, full, signs, batch = ctx.st
        T, a = ctx.T, ctx.a
        wc, Pc, shift = result
        ok_shape = Pc.shape == batch + (dim, dim) and wc.shape == batch + (dim,)
        cl = [("compressed_factor_is_square", ok_shape)]
        if not ok_shape:
            return cl
        lhs, rhs = [], []
        for b in itertools.product(*map(range, batch)):
            sh = np.asarray(shift, dtype=object)[b] if batch else shift
            lhs.append(ra.quad(a["x"], a["P"][b], a["w"][b]) * ra.Fraction(-1, 2))
            rhs.append(ra.quad(a["x"], Pc[b], wc[b]) * ra.Fraction(-1, 2) + sh)
        cl.append(("same_quadratic_function_up_to_the_returned_shift", ra.verdict(T, np.array(lhs, dtype=object), np.array(rhs, dtype=object))))
        return cl


# ==================================================================================================
@register
class LogNormalizerExact(NativeReplay, Contract):
    """Gaussian._log_normalizer: for prec_sqrt of full row rank (rank >= dim) the value is
        log integral exp(-1/2 |x P - w|^2) dx  =  dim/2 log(2 pi) - 1/2 log det(P P') - 1/2 min_x |x P - w|^2
    (the minimum is 0 when P is square), for every real w, P.  The properties it reads (_precision, _precision_chol, _info_vec)
    are the real ones.  shape family: dim 1..2, rank dim..dim+2 (quick: rank <= 3); one batch dim at dim 1."""

    props = ("C13",)
    file = GFILE
    qualname = "Gaussian._log_normalizer"
    total = True
    assumptions = ASSUME
    ground_backend = BACKEND
    mutants = (
        ("shift dropped for wide factors", "        if self.rank == dim:\n            return result", "        if self.rank >= dim:\n            return result"),
        ("log-determinant of prec_sqrt's own diagonal", "        log_det_term = _log_det_tri(self._precision_chol)", "        log_det_term = _log_det_tri(self.prec_sqrt[..., :, : self.prec_sqrt.shape[-2]])"),
        ("shift with the wrong sign", "        shift = 0.5 * (new_norm2 - old_norm2)", "        shift = 0.5 * (old_norm2 - new_norm2)"),
    )

    def structures(self, tier):
        for dim in (1, 2):
            for rank in range(dim, dim + 3):
                if tier == "quick" and rank > 3:
                    continue
                yield "dim=%d,rank=%d" % (dim, rank), (dim, rank, ())
        yield "dim=1,rank=2,batch=2", (1, 2, (2,))
        yield "dim=2,rank=1: must raise", (2, 1, ())

    def may_raise(self, ctx, etype):
        import z3

        dim, rank, batch = ctx.st
        return z3.BoolVal(rank < dim and etype in ("AssertionError", "LinAlgError", "ValueError"))

    def allow_vacuous(self, st):
        return st[1] < st[0]

    def native(self, ctx, st):
        dim, rank, batch = st
        return """inputs = OrderedDict([('i%%d' %% k, Bint[n]) for k, n in enumerate(%r)] + [('x', Reals[%d])])
with Gaussian.set_compression_threshold(1e9):
    g = Gaussian(white_vec=A['w'], prec_sqrt=A['P'], inputs=inputs)
got = g.log_normalizer.data
ok = True
for b in np.ndindex(*%r):
    ok = report(np.asarray(got)[b], lognorm(A['P'][b], A['w'][b]), 'log_normalizer, batch %%s:' %% (b,)) and ok
sys.exit(0 if ok else 1)
""" % (tuple(batch), dim, tuple(batch))

    def build(self, p, st):
        dim, rank, batch = st
        T, a = mk_tower(P=batch + (dim, rank), w=batch + (rank,))
        ns, ops, G = build_env(T)
        g = G(a["w"], a["P"], OrderedDict(x=R(dim)))
        return Ctx(args=(g,), namespace=ns, T=T, a=a, st=st)

    def ensures(self, ctx, result):
        dim, rank, batch = ctx.st
        T, a = ctx.T, ctx.a
        if rank < dim:
            return [("too_little_information_raises_instead_of_returning", False)]
        res = np.asarray(result, dtype=object)
        if res.shape != batch:
            return [("one_value_per_batch_element", False)]
        ok = True
        for b in itertools.product(*map(range, batch)):
            v = lin_verdict(T, res[b] if batch else res[()], log_normalizer_spec(T, a["P"][b], a["w"][b]))
            ok = ok and v
        return [("one_value_per_batch_element", True), ("equals_the_log_of_the_gaussian_integral", ok)]


# ==================================================================================================
def marginal_spec(T, P, w, keep_rows, red_rows, xa):
    """log integral over the reduced coordinates of exp(-1/2 |[xa xb] P - w|^2), as (constant LinV, quadratic RE in xa)"""
    Pa, Pb = P[keep_rows, :], P[red_rows, :]
    db = len(red_rows)
    v = w - (xa[None, :] @ Pa)[0] if len(keep_rows) else w
    Lam = Pb @ Pb.T
    Pbv = Pb @ v
    z = ra.solve_spd(Lam, Pbv)
    quad_min = v @ v - Pbv @ z
    const = ra.log2pi(T, ra.Fraction(db, 2)) - ra.formal_log(T, ra.det_spd(Lam)) * ra.Fraction(1, 2)
    return const, quad_min * ra.Fraction(-1, 2)


@register
class MarginalizeExact(NativeReplay, Contract):
    """Gaussian.eager_reduce(ops.logaddexp, reduced real inputs) -- with the real _split_real_inputs and the real
    _marginalize_after_split --: the result is  Tensor(c) + Gaussian(w', P', remaining inputs)  with, for EVERY real xa, w, P,
        c - 1/2 |xa P' - w'|^2  ==  log integral exp(-1/2 |[xa xb] P - w|^2) d xb
                                 =  db/2 log 2pi - 1/2 log det(Pb Pb') - 1/2 min_xb |xa Pa + xb Pb - w|^2
    where Pa / Pb are the rows of P at the offsets of the kept / reduced inputs (leading, trailing and interleaved layouts;
    the interleaved one goes through index arrays), on both rank branches (rank > db: projected Gaussian; rank == db: the
    empty Gaussian); reducing ALL real inputs returns log_normalizer reduced over the integer inputs; remaining integer
    variables are reduced afterwards.  shape family: 2..3 real inputs of sizes 1..2, total dim <= 3, rank <= 3 (thorough: 4)."""

    props = ("C13",)
    file = GFILE
    qualname = "Gaussian.eager_reduce"
    total = True
    assumptions = ASSUME
    ground_backend = BACKEND
    mutants = (
        ("kept and reduced rows swapped", "            prec_sqrt_a = self.prec_sqrt[..., a, :]\n            prec_sqrt_b = self.prec_sqrt[..., b, :]", "            prec_sqrt_a = self.prec_sqrt[..., b, :]\n            prec_sqrt_b = self.prec_sqrt[..., a, :]"),
        ("factor of the whole precision instead of the reduced block", "            precision_chol_b = ops.cholesky(_mmt(prec_sqrt_b))  # assume full rank", "            precision_chol_b = ops.cholesky(_mmt(self.prec_sqrt))[..., : prec_sqrt_b.shape[-2], : prec_sqrt_b.shape[-2]]"),
        ("the information check compares with the kept block", "            if self.rank < dim_b:", "            if self.rank < prec_sqrt_a.shape[-2]:"),
    )

    def native(self, ctx, st):
        lay, red, rank, mode = st
        if mode != "partial":
            return None
        return """lay = %r
red = %r
inputs = OrderedDict((k, Reals[n]) for k, n in lay)
with Gaussian.set_compression_threshold(1e9):
    g = Gaussian(white_vec=A['w'], prec_sqrt=A['P'], inputs=inputs)
    r = g.reduce(ops.logaddexp, frozenset(red))
off, tot = {}, 0
for k, n in lay:
    off[k] = (tot, tot + n); tot += n
keep = [k for k, n in lay if k not in red]
pt, pos = {}, 0
for k in keep:
    n = off[k][1] - off[k][0]
    pt[k] = Tensor(A['xa'][pos:pos + n]); pos += n
got = r(**pt)
got = float(np.asarray(got.data))
# closed form: integrate the reduced block out of the dense form
L, eta, c = dense(A['P'], A['w'])
ia = np.concatenate([np.arange(*off[k]) for k in keep]).astype(int)
ib = np.concatenate([np.arange(*off[k]) for k, n in lay if k in red]).astype(int)
xa = A['xa'][:len(ia)]
Lbb, Lba = L[np.ix_(ib, ib)], L[np.ix_(ib, ia)]
eb = eta[ib] - Lba @ xa
want = -0.5 * float(xa @ L[np.ix_(ia, ia)] @ xa) + float(xa @ eta[ia]) + c + 0.5 * len(ib) * np.log(2 * np.pi) - 0.5 * np.log(np.linalg.det(Lbb)) + 0.5 * float(eb @ np.linalg.solve(Lbb, eb))
sys.exit(0 if report(got, want, 'marginal at the kept point:') else 1)
""" % (self.LAYOUTS[lay], red)

    LAYOUTS = {
        "x1y1": (("x", 1), ("y", 1)),
        "x1y1z1": (("x", 1), ("y", 1), ("z", 1)),
        "x2y1": (("x", 2), ("y", 1)),
        "x1y2": (("x", 1), ("y", 2)),
    }

    def structures(self, tier):
        cases = [
            ("x1y1", "y", 2), ("x1y1", "x", 2), ("x1y1", "y", 1), ("x1y1", "x", 3),
            ("x1y1z1", "xz", 3), ("x1y1z1", "y", 3), ("x1y1z1", "xy", 3), ("x1y1z1", "z", 2),
            ("x2y1", "x", 3), ("x2y1", "y", 3), ("x1y2", "y", 2), ("x1y2", "y", 3),
        ]
        if tier != "quick":
            cases += [("x1y1z1", "xz", 4), ("x2y1", "x", 4), ("x1y2", "x", 4)]
        for lay, red, rank in cases:
            yield "inputs=%s,reduced=%s,rank=%d" % (lay, red, rank), (lay, red, rank, "partial")
        yield "inputs=x1y1,reduced=all,rank=2", ("x1y1", "xy", 2, "all")
        yield "inputs=i,x1y1,reduced=y+i,rank=2", ("x1y1", "y", 2, "ints")
        # too little information: the reduced block has more dimensions than the factor has columns -> ValueError, not a number
        yield "inputs=x1y2,reduced=y,rank=1: must raise", ("x1y2", "y", 1, "deficient")
        yield "inputs=x1y1z1,reduced=xz,rank=1: must raise", ("x1y1z1", "xz", 1, "deficient")

    def build(self, p, st):
        lay, red, rank, mode = st
        inputs = OrderedDict()
        batch = ()
        if mode == "ints":
            inputs["i"] = Dm(2)
            batch = (2,)
        for k, n in self.LAYOUTS[lay]:
            inputs[k] = R(n)
        dim = sum(n for _, n in self.LAYOUTS[lay])
        keep = [k for k, _ in self.LAYOUTS[lay] if k not in red]
        T, a = mk_tower(P=batch + (dim, rank), w=batch + (rank,), xa=(sum(inputs[k].num_elements for k in keep),))
        ns, ops, G = build_env(T)
        g = G(a["w"], a["P"], inputs)
        rv = frozenset(red) | (frozenset("i") if mode == "ints" else frozenset())
        return Ctx(args=(g, ops.logaddexp, rv), namespace=ns, T=T, a=a, st=st, g=g, ops=ops, keep=keep)

    def may_raise(self, ctx, etype):
        import z3

        # a formula (not the constant True): the exceptional exit of the deficient structures is a counted obligation
        return z3.BoolVal(ctx.st[3] == "deficient" and etype == "ValueError")

    def allow_vacuous(self, st):
        return st[3] == "deficient"

    def ensures(self, ctx, result):
        lay, red, rank, mode = ctx.st
        T, a, g = ctx.T, ctx.a, ctx.g
        if mode == "deficient":
            return [("too_little_information_raises_instead_of_returning", False)]
        if mode == "all":
            ok = isinstance(result, TensorR) and not result.inputs and lin_same(as_scalar(result.data), log_normalizer_spec(T, a["P"], a["w"]))
            return [("all_reals_reduced_gives_the_log_normalizer", bool(ok))]
        if mode == "ints":
            if not (isinstance(result, ReduceR) and result.op is ctx.ops.logaddexp and result.vars == frozenset("i")):
                return [("integer_variables_reduced_after_the_real_ones", False)]
            result = result.arg
            batch = (2,)
        else:
            batch = ()
        if not isinstance(result, SumR):
            return [("tensor_plus_gaussian", False)]
        t, g2 = result.tensor, result.gaussian
        exp_inputs = [k for k in g.inputs if k not in red]
        cl = [("remaining_inputs_in_order", list(g2.inputs) == exp_inputs and list(t.inputs) == [k for k in exp_inputs if g.inputs[k].dtype != "real"])]
        keep_rows, red_rows = rows(g.inputs, ctx.keep), rows(g.inputs, red)
        okc, okq = True, True
        for b in itertools.product(*map(range, batch)):
            P, w = a["P"][b], a["w"][b]
            const, quad = marginal_spec(T, P, w, keep_rows, red_rows, a["xa"])
            c = np.asarray(t.data, dtype=object)[b] if batch else as_scalar(t.data)
            okc = lin_verdict(T, c, const) and okc
            w2, P2 = g2.white_vec[b], g2.prec_sqrt[b]
            if P2.shape[0] != len(keep_rows) or P2.shape[1] != w2.shape[0]:
                return cl + [("marginal_has_the_kept_dimensions", False)]
            got = ra.quad(a["xa"], P2, w2) * ra.Fraction(-1, 2) if P2.shape[1] else RE.coerce(T, 0)
            okq = ra.verdict(T, got, quad) and okq
        cl += [("constant_is_the_gaussian_integral_over_the_reduced_block", okc), ("marginal_density_equals_the_integral_for_every_kept_point", okq)]
        return cl


@register
class MarginalizeAfterSplitExact(Contract):
    """Gaussian._marginalize_after_split(inputs, int_inputs, Pa, Pb, chol(Pa Pa')) -- the helper shared by partial reduction
    and partial sampling; it integrates out the block it calls `a` and returns Tensor(c) + Gaussian over `b`:
        c - 1/2 |xb P' - w'|^2  ==  da/2 log 2pi - 1/2 log det(Pa Pa') - 1/2 min_xa |xa Pa + xb Pb - w|^2      for every real xb
    with the branch chosen by rank > da (rank == da: the empty Gaussian, whose density is 0).
    shape family: da, db in 1..2, rank da..3 (thorough: ..4)."""

    props = ("C13", "C14")
    file = GFILE
    qualname = "Gaussian._marginalize_after_split"
    total = True
    assumptions = ASSUME
    ground_backend = BACKEND
    mutants = (
        ("branch taken on the other block's dimension (seeded C13_marginalize_rank_branch)", "        if self.rank > dim_a:", "        if self.rank > dim_b:"),
        ("projection not applied to white_vec", "            white_vec = self.white_vec - _vm(self.white_vec, proj_a)", "            white_vec = self.white_vec"),
        ("normalising constant counts the other block", "            dim_a * math.log(2 * math.pi) / 2 - _log_det_tri(precision_chol_a),", "            dim_b * math.log(2 * math.pi) / 2 - _log_det_tri(precision_chol_a),"),
    )

    def structures(self, tier):
        for da, db in ((1, 1), (1, 2), (2, 1)):
            for rank in range(da, 5):
                if rank > (3 if tier == "quick" else 4):
                    continue
                yield "da=%d,db=%d,rank=%d" % (da, db, rank), (da, db, rank)

    def build(self, p, st):
        da, db, rank = st
        T, a = mk_tower(Pa=(da, rank), Pb=(db, rank), w=(rank,), xb=(db,))
        ns, ops, G = build_env(T)
        inputs_all = OrderedDict(u=R(da), v=R(db))
        g = G(a["w"], np.concatenate([a["Pa"], a["Pb"]], 0), inputs_all)
        chol = ops.cholesky(a["Pa"] @ a["Pa"].T)
        ops.calls.clear()
        return Ctx(args=(g, OrderedDict(v=R(db)), OrderedDict(), a["Pa"], a["Pb"], chol), namespace=ns, T=T, a=a, st=st)

    def ensures(self, ctx, result):
        da, db, rank = ctx.st
        T, a = ctx.T, ctx.a
        if not isinstance(result, SumR):
            return [("tensor_plus_gaussian", False)]
        P = np.concatenate([a["Pa"], a["Pb"]], 0)
        const, quad = marginal_spec(T, P, a["w"], list(range(da, da + db)), list(range(da)), a["xb"])
        g2 = result.gaussian
        w2, P2 = g2.white_vec, g2.prec_sqrt
        if P2.shape[0] != db or P2.shape[1] != w2.shape[0]:
            return [("marginal_has_the_kept_dimensions", False)]
        got = ra.quad(a["xb"], P2, w2) * ra.Fraction(-1, 2) if P2.shape[1] else RE.coerce(T, 0)
        return [
            ("constant_is_the_gaussian_integral_over_the_reduced_block", lin_verdict(T, as_scalar(result.tensor.data), const)),
            ("marginal_density_equals_the_integral_for_every_kept_point", ra.verdict(T, got, quad)),
        ]


# ==================================================================================================
@register
class AddGaussiansExact(NativeReplay, Contract):
    """eager_add_gaussian_gaussian(op, lhs, rhs) -- with the real align_gaussian / BlockVector --: the result is a Gaussian
    over the union of the inputs (lhs's first, then rhs's new ones) whose density at EVERY real point is the sum of the two
    densities, each read at its own inputs' coordinates:  -1/2 |x P - w|^2 == -1/2 |x_l Pl - wl|^2 - 1/2 |x_r Pr - wr|^2.
    shape family: real inputs of size 1..2 in equal / permuted / partly overlapping / disjoint layouts, ranks 1..2."""

    props = ("C12",)
    file = GFILE
    qualname = "eager_add_gaussian_gaussian"
    total = True
    assumptions = ASSUME
    ground_backend = BACKEND
    mutants = (
        ("rhs not aligned to the joint layout", "    rhs_white_vec, rhs_prec_sqrt = align_gaussian(inputs, rhs, expand=True)", "    rhs_white_vec, rhs_prec_sqrt = rhs.white_vec, rhs.prec_sqrt"),
        ("white_vecs concatenated in the other order than the factors", "    white_vec = ops.cat([lhs_white_vec, rhs_white_vec], -1)", "    white_vec = ops.cat([rhs_white_vec, lhs_white_vec], -1)"),
    )

    def native(self, ctx, st):
        name, rl, rr = st
        li, ri = self.CASES[name]
        return """li, ri = %r, %r
with Gaussian.set_compression_threshold(1e9):
    g1 = Gaussian(white_vec=A['wl'], prec_sqrt=A['Pl'], inputs=OrderedDict((k, Reals[n]) for k, n in li))
    g2 = Gaussian(white_vec=A['wr'], prec_sqrt=A['Pr'], inputs=OrderedDict((k, Reals[n]) for k, n in ri))
    s_ = g1 + g2
joint = OrderedDict(li); joint.update(ri)
off, tot = {}, 0
for k, n in joint.items():
    off[k] = (tot, tot + n); tot += n
pt = {k: Tensor(A['x'][off[k][0]:off[k][1]]) for k in joint}
got = float(np.asarray(s_(**pt).data))
xl = np.concatenate([A['x'][off[k][0]:off[k][1]] for k, n in li])
xr = np.concatenate([A['x'][off[k][0]:off[k][1]] for k, n in ri])
sys.exit(0 if report(got, quad(xl, A['Pl'], A['wl']) + quad(xr, A['Pr'], A['wr']), 'g1 + g2 at x:') else 1)
""" % (li, ri)

    CASES = {
        "same": ((("x", 1), ("y", 1)), (("x", 1), ("y", 1))),
        "permuted": ((("x", 1), ("y", 2)), (("y", 2), ("x", 1))),
        "overlap": ((("x", 1), ("y", 1)), (("y", 1), ("z", 1))),
        "subset": ((("x", 1), ("y", 1), ("z", 1)), (("z", 1), ("x", 1))),
        "disjoint": ((("x", 1),), (("y", 2),)),
    }

    def structures(self, tier):
        for name in self.CASES:
            for rl, rr in ((1, 1), (2, 1), (2, 2)):
                yield "%s,ranks=%d+%d" % (name, rl, rr), (name, rl, rr)

    def build(self, p, st):
        name, rl, rr = st
        li, ri = self.CASES[name]
        lin_, rin = OrderedDict((k, R(n)) for k, n in li), OrderedDict((k, R(n)) for k, n in ri)
        dl, dr = sum(n for _, n in li), sum(n for _, n in ri)
        joint = OrderedDict(lin_)
        joint.update(rin)
        dj = sum(d.num_elements for d in joint.values())
        T, a = mk_tower(Pl=(dl, rl), wl=(rl,), Pr=(dr, rr), wr=(rr,), x=(dj,))
        ns, ops, G = build_env(T)
        return Ctx(args=(ops.add, G(a["wl"], a["Pl"], lin_), G(a["wr"], a["Pr"], rin)), namespace=ns, T=T, a=a, st=st, joint=joint, lin=lin_, rin=rin)

    def ensures(self, ctx, result):
        T, a = ctx.T, ctx.a
        if not isinstance(result, GaussBase):
            return [("returns_a_gaussian", False)]
        cl = [("inputs_are_lhs_then_new_rhs_inputs", list(result.inputs.items()) == list(ctx.joint.items()))]
        if not cl[0][1]:
            return cl
        x = a["x"]
        xl = x[rows(ctx.joint, ctx.lin)] if True else None
        # coordinates of each operand in ITS OWN input order
        off, _ = offsets(ctx.joint)
        xl = np.concatenate([x[off[k][0]:off[k][1]] for k in ctx.lin])
        xr = np.concatenate([x[off[k][0]:off[k][1]] for k in ctx.rin])
        lhs = ra.quad(x, result.prec_sqrt, result.white_vec)
        rhs = ra.quad(xl, a["Pl"], a["wl"]) + ra.quad(xr, a["Pr"], a["wr"])
        cl.append(("density_is_the_sum_of_the_densities_at_every_point", ra.verdict(T, lhs, rhs)))
        return cl


# ==================================================================================================
@register
class IntegrateGaussianGaussianExact(NativeReplay, Contract):
    """integrate.eager_integrate_gaussian_gaussian(log_measure, integrand, reduced_vars) with both operands Gaussian over the
    same real inputs (in equal or permuted order), all reduced -- with the real align_gaussian and the real _mean,
    _log_normalizer, _precision_chol properties --:
        integral exp(-1/2 |x Pl - wl|^2) * (-1/2 |x Pr - wr|^2) dx  =  Z * (-1/2) * ( |mu Pr - wr|^2 + Tr(Pr' Sigma Pr) )
    with Z = exp(log normaliser of the measure), mu = Sigma Pl wl', Sigma = (Pl Pl')^-1  (expectation of a quadratic form
    under N(mu, Sigma)); the result is Tensor(value) over the integer inputs.  shape family: dim 1..2 split over 1..2 inputs,
    measure rank dim..dim+1, integrand rank 1..2."""

    props = ("C13",)
    file = "funsor/integrate.py"
    qualname = "eager_integrate_gaussian_gaussian"
    total = True
    assumptions = ASSUME
    ground_backend = BACKEND
    mutants = (
        ("integrand not aligned (seeded C13_integrate_skip_align)", "            rhs_white_vec, rhs_prec_sqrt = align_gaussian(inputs, integrand)", "            rhs_white_vec, rhs_prec_sqrt = integrand.white_vec, integrand.prec_sqrt"),
        ("trace term from the unaligned factor (seeded C13_integrate_unaligned_trace)", "(ops.triangular_solve(rhs_prec_sqrt, lhs._precision_chol) ** 2)", "(ops.triangular_solve(integrand.prec_sqrt, lhs._precision_chol) ** 2)"),
        ("trace term dropped", "            data = (-0.5) * norm * (vmv_term + trace_term)", "            data = (-0.5) * norm * vmv_term"),
    )

    def native(self, ctx, st):
        name, rl, rr = st
        li, ri = self.CASES[name]
        return """from funsor.integrate import Integrate
li, ri = %r, %r
with Gaussian.set_compression_threshold(1e9):
    g1 = Gaussian(white_vec=A['wl'], prec_sqrt=A['Pl'], inputs=OrderedDict((k, Reals[n]) for k, n in li))
    g2 = Gaussian(white_vec=A['wr'], prec_sqrt=A['Pr'], inputs=OrderedDict((k, Reals[n]) for k, n in ri))
    r = Integrate(g1, g2, frozenset(Variable(k, Reals[n]) for k, n in li))
off, tot = {}, 0
for k, n in li:
    off[k] = (tot, tot + n); tot += n
Pr = np.zeros((tot, A['Pr'].shape[1]))
pos = 0
for k, n in ri:
    Pr[off[k][0]:off[k][1]] = A['Pr'][pos:pos + n]; pos += n
L, eta, c = dense(A['Pl'], A['wl'])
mu, Sig = np.linalg.solve(L, eta), np.linalg.inv(L)
res = mu @ Pr - A['wr']
want = np.exp(lognorm(A['Pl'], A['wl'])) * (-0.5) * (float(res @ res) + float(np.trace(Pr.T @ Sig @ Pr)))
sys.exit(0 if report(float(np.asarray(r.data)), want, 'Integrate(g1, g2):') else 1)
""" % (li, ri)

    CASES = {
        "x1": ((("x", 1),), (("x", 1),)),
        "x1y1": ((("x", 1), ("y", 1)), (("x", 1), ("y", 1))),
        "x1y1-permuted": ((("x", 1), ("y", 1)), (("y", 1), ("x", 1))),
        "x1y1-integrand-on-y": ((("x", 1), ("y", 1)), (("y", 1),)),
    }

    def structures(self, tier):
        for name, (li, ri) in self.CASES.items():
            dl = sum(n for _, n in li)
            for rl in (dl, dl + 1):
                for rr in (1, 2):
                    if tier == "quick" and rl + rr > 4:
                        continue
                    yield "%s,ranks=%d,%d" % (name, rl, rr), (name, rl, rr)

    def build(self, p, st):
        name, rl, rr = st
        li, ri = self.CASES[name]
        lin_, rin = OrderedDict((k, R(n)) for k, n in li), OrderedDict((k, R(n)) for k, n in ri)
        dl, dr = sum(n for _, n in li), sum(n for _, n in ri)
        T, a = mk_tower(Pl=(dl, rl), wl=(rl,), Pr=(dr, rr), wr=(rr,))
        ns, ops, G = build_env(T)

        class VarR:
            def __init__(self, name, dom):
                self.name, self.dtype, self.output = name, dom.dtype, dom

            def __hash__(self):
                return hash(self.name)

            def __eq__(self, o):
                return isinstance(o, VarR) and o.name == self.name

        ns = dict(ns)
        ns.update(_vm=ns["_vm"], _norm2=ns["_norm2"])
        rv = frozenset(VarR(k, d) for k, d in lin_.items())
        return Ctx(args=(G(a["wl"], a["Pl"], lin_), G(a["wr"], a["Pr"], rin), rv), namespace=ns, T=T, a=a, st=st, lin=lin_, rin=rin)

    def ensures(self, ctx, result):
        T, a = ctx.T, ctx.a
        if not (isinstance(result, TensorR) and not result.inputs):
            return [("returns_a_tensor_over_the_integer_inputs", False)]
        val = as_scalar(result.data)
        if not isinstance(val, ExpV):
            return [("value_is_normaliser_times_expectation", False)]
        Pl, wl = a["Pl"], a["wl"]
        # integrand factor embedded at the measure's coordinates
        off, dl = offsets(ctx.lin)
        Pr = ra.const(T, 0, (dl, a["Pr"].shape[1]))
        roff, _ = offsets(ctx.rin)
        for k in ctx.rin:
            Pr[off[k][0]:off[k][1], :] = a["Pr"][roff[k][0]:roff[k][1], :]
        Lam = Pl @ Pl.T
        mu = ra.solve_spd(Lam, Pl @ wl)
        resid = mu @ Pr - a["wr"]
        tr = RE.coerce(T, 0)
        SigPr = ra.solve_spd(Lam, Pr)
        for i in range(dl):
            for j in range(Pr.shape[1]):
                tr = tr + Pr[i, j] * SigPr[i, j]
        expect = (resid @ resid + tr) * ra.Fraction(-1, 2)
        return [
            ("normaliser_factor_is_the_measures_integral", lin_verdict(T, val.lin, log_normalizer_spec(T, Pl, wl))),
            ("expectation_of_the_quadratic_integrand_under_the_normalised_measure", ra.verdict(T, val.coef, expect)),
        ]


# ==================================================================================================
@register
class SampleAllExact(Contract):
    """Gaussian._sample(all real inputs, no sample inputs, no integer inputs) with symbolic white noise eps (the model of
    _sample_white_noise returns an indeterminate array: the statement is for EVERY noise value):
      * the result is  log_normalizer + Delta(k, point_k) for every sampled input k  (summed with ops.add, in input order),
        and the Tensor IS the Gaussian's total log-mass (closed form of LogNormalizerExact): sampling preserves mass;
      * the concatenated point x(eps) satisfies  |x P - w|^2 - min_x' |x' P - w|^2 == |eps|^2  for every eps: x is an affine
        image of the noise under which the Gaussian's normalised density becomes the standard normal density of eps, i.e.
        x ~ N(mean, precision^-1) exactly when eps ~ N(0, I);
      * each point is the slice of x at ITS input's offsets, reshaped to the input's shape.
    shape family: one or two real inputs, dim 1..2, rank dim..dim+1 (thorough: dim 3)."""

    props = ("C14",)
    file = GFILE
    qualname = "Gaussian._sample"
    total = True
    assumptions = ASSUME
    ground_backend = BACKEND
    mutants = (
        ("remaining mass from the compressed factor only (seeded C14_gaussian_sample_mass_shift)", "            remaining = self.log_normalizer", "            remaining = Tensor(0.5 * dim * math.log(2 * math.pi) - _log_det_tri(prec_sqrt), int_inputs)"),
        ("noise solved against the untransposed factor", "                (white_noise + white_vec)[..., None], prec_sqrt, transpose=True", "                (white_noise + white_vec)[..., None], prec_sqrt, transpose=False"),
        ("noise not centred at white_vec", "                (white_noise + white_vec)[..., None], prec_sqrt, transpose=True", "                (white_noise)[..., None], prec_sqrt, transpose=True"),
    )

    LAY = {"x1": (("x", (1,)),), "x2": (("x", (2,)),), "x1y1": (("x", (1,)), ("y", (1,))), "y1x1": (("y", (1,)), ("x", (1,))), "x11y1": (("x", (1, 1)), ("y", (1,))), "x2y1": (("x", (2,)), ("y", (1,)))}

    def structures(self, tier):
        for lay, items in self.LAY.items():
            dim = sum(int(np.prod(sh)) for _, sh in items)
            if dim > 2 and tier == "quick":
                continue
            for rank in (dim, dim + 1):
                if dim >= 3 and rank > dim:
                    continue  # fraction-field arithmetic for a 3 x 4 factor does not finish in an hour
                if tier == "quick" and dim == 2 and rank == 3 and lay != "x1y1":
                    continue  # ~25 s each; the thorough tier runs all of them
                yield "inputs=%s,rank=%d" % (lay, rank), (lay, rank)

    def build(self, p, st):
        lay, rank = st
        inputs = OrderedDict((k, Dm("real", sh)) for k, sh in self.LAY[lay])
        dim = sum(d.num_elements for d in inputs.values())
        T, a = mk_tower(P=(dim, rank), w=(rank,), eps=(dim,))
        ns, ops, G = build_env(T)
        ns = dict(ns)

        class FunsorK:
            pass

        def white_noise(sample_inputs, int_inputs, dim_, prototype, rng_key):
            if dim_ != dim or sample_inputs or int_inputs:
                raise Unsupported("white noise model")
            return a["eps"]

        import functools

        ns.update(Funsor=FunsorK, _sample_white_noise=white_noise, Delta=DeltaR, reduce=functools.reduce, Variable=None)
        g = G(a["w"], a["P"], inputs)
        return Ctx(args=(g, frozenset(inputs), OrderedDict(), None), namespace=ns, T=T, a=a, st=st, g=g, ops=ops, inputs=inputs)

    def ensures(self, ctx, result):
        T, a = ctx.T, ctx.a
        # unfold the left-nested ops.add applications
        terms = []
        r = result
        while isinstance(r, ApplyR) and r.op is ctx.ops.add and len(r.args) == 2:
            terms.append(r.args[1])
            r = r.args[0]
        terms.append(r)
        terms.reverse()
        if not (isinstance(terms[0], TensorR) and all(isinstance(t, DeltaR) for t in terms[1:]) and [t.name for t in terms[1:]] == list(ctx.inputs)):
            return [("log_mass_plus_one_delta_per_sampled_input", False)]
        cl = [("log_mass_plus_one_delta_per_sampled_input", True)]
        cl.append(("remaining_tensor_is_the_total_log_mass", not terms[0].inputs and lin_verdict(T, as_scalar(terms[0].data), log_normalizer_spec(T, a["P"], a["w"]))))
        pts = []
        shapes_ok = True
        for t, (k, d) in zip(terms[1:], ctx.inputs.items()):
            data = np.asarray(t.point.data, dtype=object)
            shapes_ok = shapes_ok and data.shape == d.shape and not t.point.inputs
            pts.append(data.reshape(-1))
        cl.append(("each_point_has_its_inputs_shape", shapes_ok))
        if not shapes_ok:
            return cl
        x = np.concatenate(pts)
        P, w = a["P"], a["w"]
        Lam = P @ P.T
        Pw = P @ w
        qmin = w @ w - Pw @ ra.solve_spd(Lam, Pw)
        lhs = ra.quad(x, P, w) - qmin
        rhs = a["eps"] @ a["eps"]
        cl.append(("sample_is_the_whitening_preimage_of_the_noise", ra.verdict(T, lhs, rhs)))
        return cl


# ==================================================================================================
@register
class GaussianConstructExact(Contract):
    """GaussianMeta.__call__ -- every (white_vec | mean | info_vec) x (prec_sqrt | precision | covariance | scale_tril)
    parametrisation the constructor accepts: the constructed Gaussian (plus the compression Tensor when the factor is wider
    than compression_threshold * dim, through the real _compress_rank) has, at EVERY real point x, the density
        white_vec, prec_sqrt:   -1/2 |x P - w|^2
        mean m:                 -1/2 (x - m) Lambda (x - m)'
        info_vec h:             -1/2 x Lambda x' + x.h - 1/2 h' Lambda^-1 h
    with Lambda = P P' | precision | covariance^-1 | (scale_tril scale_tril')^-1.   white_vec without prec_sqrt raises.
    shape family: dim 1..2; prec_sqrt of rank dim..dim+2 (compression when rank > 2 dim, every QR sign pattern)."""

    props = ("C12",)
    file = GFILE
    qualname = "GaussianMeta.__call__"
    total = True
    assumptions = ASSUME
    ground_backend = BACKEND
    mutants = (
        ("covariance treated as precision", "            prec_sqrt = _inverse_cholesky(covariance)", "            prec_sqrt = ops.cholesky(covariance)"),
        ("scale_tril inverse not transposed", "            prec_sqrt = ops.transpose(ops.triangular_inv(scale_tril), -1, -2)", "            prec_sqrt = ops.triangular_inv(scale_tril)"),
        ("info_vec solved against an untriangularised factor", "            if not is_tril:\n                prec_sqrt = ops.cholesky(_mmt(prec_sqrt))  # triangularize\n                is_tril = True\n", ""),
        ("compression shift dropped", "            result += Tensor(shift, int_inputs)", "            pass"),
    )

    def structures(self, tier):
        for dim in (1, 2):
            for scale in ("prec_sqrt", "precision", "covariance", "scale_tril"):
                for loc in ("white_vec", "mean", "info_vec"):
                    if loc == "white_vec" and scale != "prec_sqrt":
                        continue
                    ranks = range(dim, dim + 3) if scale == "prec_sqrt" else (dim,)
                    for rank in ranks:
                        if rank > 2 * dim:
                            if tier == "quick" and dim > 1:
                                continue
                            for signs in itertools.product((1, -1), repeat=dim):
                                yield "dim=%d,%s,%s,rank=%d,qr=%s" % (dim, loc, scale, rank, "".join("+" if s > 0 else "-" for s in signs)), (dim, loc, scale, rank, signs)
                        else:
                            yield "dim=%d,%s,%s,rank=%d" % (dim, loc, scale, rank), (dim, loc, scale, rank, None)
        yield "white_vec-without-prec_sqrt", (1, "white_vec", "precision", 1, None)

    def build(self, p, st):
        dim, loc, scale, rank, signs = st
        # symmetric positive definite inputs are given as S S' for an indeterminate square S (every SPD matrix is one)
        T, a = mk_tower(S=(dim, rank if scale == "prec_sqrt" else dim), v=(rank if loc == "white_vec" else dim,), x=(dim,))
        ns, ops, G = build_env(T, signs)
        S = a["S"]
        if scale == "prec_sqrt":
            M = S
        elif scale == "scale_tril":
            M = np.array(S, dtype=object)
            for i in range(dim):
                for j in range(i + 1, dim):
                    M[i, j] = RE.coerce(T, 0)
        else:
            M = S @ S.T
        kwargs = {scale: M, loc: a["v"]}
        inputs = OrderedDict(x=R(dim))

        class Cls:
            __args__ = ()
            compression_threshold = 2

        made = []

        def sup(sc, *args):
            class S_:
                @staticmethod
                def __call__(w, P, ins):
                    g = G(w, P, OrderedDict(ins))
                    made.append(g)
                    return g

            return S_()

        return Ctx(args=(Cls,), kwargs=dict(kwargs, inputs=inputs), namespace=ns, T=T, a=a, st=st, M=M, sup=sup, made=made)

    def hooks(self, ctx):
        return {"super": ctx.sup}

    def allow_vacuous(self, st):
        return st[1] == "white_vec" and st[2] != "prec_sqrt"

    def may_raise(self, ctx, etype):
        dim, loc, scale, rank, signs = ctx.st
        return loc == "white_vec" and scale != "prec_sqrt" and etype == "ValueError"

    def ensures(self, ctx, result):
        dim, loc, scale, rank, signs = ctx.st
        T, a, M = ctx.T, ctx.a, ctx.M
        if loc == "white_vec" and scale != "prec_sqrt":
            return [("white_vec_without_prec_sqrt_is_rejected", False)]
        shift = RE.coerce(T, 0)
        g = result
        if isinstance(result, SumR):
            g, shift = result.gaussian, as_scalar(result.tensor.data)
        if not isinstance(g, GaussBase):
            return [("returns_a_gaussian", False)]
        x, v = a["x"], a["v"]
        if scale == "prec_sqrt":
            Lam = M @ M.T
        elif scale == "precision":
            Lam = M
        elif scale == "covariance":
            Lam = ra.solve_spd(M, ra.OpsReal(T).new_eye(None, (dim,)))
        else:
            Lam = ra.solve_spd(M @ M.T, ra.OpsReal(T).new_eye(None, (dim,)))
        if loc == "white_vec":
            spec = ra.quad(x, M, v) * ra.Fraction(-1, 2)
        elif loc == "mean":
            d = x - v
            spec = (d @ Lam @ d) * ra.Fraction(-1, 2)
        else:
            spec = (x @ Lam @ x) * ra.Fraction(-1, 2) + x @ v - (v @ ra.solve_spd(Lam, v)) * ra.Fraction(1, 2)
        got = ra.quad(x, g.prec_sqrt, g.white_vec) * ra.Fraction(-1, 2) + shift
        cl = [("density_equals_the_dense_quadratic_form_at_every_point", ra.verdict(T, got, spec))]
        cl.append(("wide_factors_are_compressed_to_square", (g.prec_sqrt.shape[-1] <= 2 * dim)))
        return cl


# ==================================================================================================
@register
class PlateSumExact(Contract):
    """Gaussian.eager_reduce(ops.add, integer inputs) -- plate fusion by transpose and reshape --: at EVERY real point x and
    every index of the kept integer inputs, the density of the result is the SUM over the reduced indices of the densities
    of the operand:  -1/2 |x P'[j] - w'[j]|^2 == sum_i -1/2 |x P[i, j] - w[i, j]|^2  (for every layout of kept / reduced batch
    dims).  Summing along a real input raises.  shape family: 1..2 integer inputs of sizes 2 (3), dim 1, rank 1..2."""

    props = ("C13", "C12")
    file = GFILE
    qualname = "Gaussian.eager_reduce"
    total = True
    assumptions = ASSUME
    ground_backend = BACKEND
    mutants = (
        ("reduced dims moved in front of the kept ones", "            perm = kept_perm + reduced_perm + [n]\n", "            perm = reduced_perm + kept_perm + [n]\n"),
        ("prec_sqrt fused along the wrong axis order", "            perm = kept_perm + [n] + reduced_perm + [n + 1]", "            perm = kept_perm + reduced_perm + [n] + [n + 1]"),
    )

    def structures(self, tier):
        for lay, red in (("i", "i"), ("ij", "i"), ("ij", "j"), ("ij", "ij"), ("ixj", "j"), ("ixj", "i")):
            for rank in (1, 2):
                if tier == "quick" and rank == 2 and len(lay) > 2:
                    continue
                yield "inputs=%s,reduced=%s,rank=%d" % (lay, red, rank), (lay, red, rank)

    SIZES = {"i": 2, "j": 3}

    def build(self, p, st):
        lay, red, rank = st
        inputs = OrderedDict()
        for c in lay:
            inputs[c] = R(1) if c == "x" else Dm(self.SIZES[c])
        if "x" not in inputs:
            inputs["x"] = R(1)
        batch = tuple(self.SIZES[c] for c in lay if c != "x")
        T, a = mk_tower(P=batch + (1, rank), w=batch + (rank,), x=(1,))
        ns, ops, G = build_env(T)
        g = G(a["w"], a["P"], inputs)
        return Ctx(args=(g, ops.add, frozenset(red)), namespace=ns, T=T, a=a, st=st, g=g, batch=batch)

    def ensures(self, ctx, result):
        lay, red, rank = ctx.st
        T, a, g = ctx.T, ctx.a, ctx.g
        if not isinstance(result, GaussBase):
            return [("returns_a_gaussian", False)]
        ints = [c for c in lay if c != "x"]
        kept = [c for c in ints if c not in red]
        cl = [("inputs_are_the_remaining_inputs_in_order", list(result.inputs) == [k for k in g.inputs if k not in red])]
        kshape = tuple(self.SIZES[c] for c in kept)
        if result.prec_sqrt.shape[:-2] != kshape or result.white_vec.shape[:-1] != kshape:
            return cl + [("batch_shape_is_the_kept_inputs", False)]
        lhs, rhs = [], []
        for kidx in itertools.product(*map(range, kshape)):
            lhs.append(ra.quad(a["x"], result.prec_sqrt[kidx], result.white_vec[kidx]))
            tot = RE.coerce(T, 0)
            for ridx in itertools.product(*[range(self.SIZES[c]) for c in ints if c in red]):
                full, ki, ri = [], iter(kidx), iter(ridx)
                for c in ints:
                    full.append(next(ri) if c in red else next(ki))
                tot = tot + ra.quad(a["x"], a["P"][tuple(full)], a["w"][tuple(full)])
            rhs.append(tot)
        cl.append(("density_is_the_sum_over_the_plate_at_every_point", ra.verdict(T, np.array(lhs, dtype=object), np.array(rhs, dtype=object))))
        return cl


# ==================================================================================================
@register
class SubsRealExact(NativeReplay, Contract):
    """Gaussian._eager_subs_real(pairs, ()) with real values: substituting values for SOME real inputs gives a Gaussian over the
    others with  -1/2 |xa P' - w'|^2 == -1/2 |[xa vb] P - w|^2  at every xa (values placed at their own inputs' offsets,
    pairs in any order); substituting ALL of them gives the Tensor of that number.  (BlockVector is the real one.)
    shape family: 2..3 real inputs of sizes 1..2, rank 1..3."""

    props = ("C12", "C04")
    file = GFILE
    qualname = "Gaussian._eager_subs_real"
    total = True
    assumptions = ASSUME
    ground_backend = BACKEND
    mutants = (
        ("substituted block added instead of subtracted", "        white_vec_a = white_vec - _vm(value_b, prec_sqrt_b)", "        white_vec_a = white_vec + _vm(value_b, prec_sqrt_b)"),
        ("complete substitution loses the factor 1/2", "            result = -0.5 * _norm2(_vm(value, prec_sqrt) - white_vec)", "            result = -_norm2(_vm(value, prec_sqrt) - white_vec)"),
    )

    LAY = {"x1y1": (("x", 1), ("y", 1)), "x1y2": (("x", 1), ("y", 2)), "x1y1z1": (("x", 1), ("y", 1), ("z", 1))}

    def native(self, ctx, st):
        lay, sub, rank = st
        return """from funsor.terms import Subs
lay, sub = %r, %r
inputs = OrderedDict((k, Reals[n]) for k, n in lay)
with Gaussian.set_compression_threshold(1e9):
    g = Gaussian(white_vec=A['w'], prec_sqrt=A['P'], inputs=inputs)
    r = Subs(g, tuple((k, Tensor(A['v' + k])) for k in sub))
pos, pt, xs = 0, {}, []
for k, n in lay:
    if k in sub:
        xs.append(A['v' + k])
    else:
        pt[k] = Tensor(A['xa'][pos:pos + n]); xs.append(A['xa'][pos:pos + n]); pos += n
got = r(**pt) if pt else r
sys.exit(0 if report(float(np.asarray(got.data)), quad(np.concatenate(xs), A['P'], A['w']), 'substituted density:') else 1)
""" % (self.LAY[lay], tuple(sub))

    def structures(self, tier):
        for lay, items in self.LAY.items():
            names = [k for k, _ in items]
            for r in range(1, len(names) + 1):
                for sub in itertools.permutations(names, r):
                    if tier == "quick" and len(sub) > 1 and list(sub) == sorted(sub) and len(names) == 3:
                        continue
                    for rank in (1, 3) if tier == "quick" else (1, 2, 3):
                        yield "inputs=%s,pairs=%s,rank=%d" % (lay, "".join(sub), rank), (lay, sub, rank)

    def build(self, p, st):
        lay, sub, rank = st
        inputs = OrderedDict((k, R(n)) for k, n in self.LAY[lay])
        dim = sum(n for _, n in self.LAY[lay])
        shapes = dict(P=(dim, rank), w=(rank,), xa=(max(1, sum(inputs[k].num_elements for k in inputs if k not in sub)),))
        for k in sub:
            shapes["v" + k] = (inputs[k].num_elements,)
        T, a = mk_tower(**shapes)
        ns, ops, G = build_env(T)
        ns = dict(ns)

        def align_tensors(*ts):
            return OrderedDict(), [np.asarray(t.data, dtype=object) for t in ts]

        ns.update(align_tensors=align_tensors, broadcast_shape=lambda *shs: tuple(np.broadcast_shapes(*shs)), Real=Dm("real", ()), Subs=None)
        g = G(a["w"], a["P"], inputs)
        pairs = tuple((k, TensorR(a["v" + k])) for k in sub)
        return Ctx(args=(g, pairs, ()), namespace=ns, T=T, a=a, st=st, g=g, inputs=inputs)

    def ensures(self, ctx, result):
        lay, sub, rank = ctx.st
        T, a, inputs = ctx.T, ctx.a, ctx.inputs
        keep = [k for k in inputs if k not in sub]
        off, dim = offsets(inputs)
        x = ra.const(T, 0, (dim,))
        pos = 0
        for k in inputs:
            n = inputs[k].num_elements
            if k in sub:
                x[off[k][0]:off[k][1]] = a["v" + k]
            else:
                x[off[k][0]:off[k][1]] = a["xa"][pos:pos + n]
                pos += n
        spec = ra.quad(x, a["P"], a["w"]) * ra.Fraction(-1, 2)
        if not keep:
            ok = isinstance(result, TensorR) and not result.inputs
            return [("complete_substitution_is_the_density_at_the_point", ok and ra.verdict(T, as_scalar(result.data), spec))]
        if not isinstance(result, GaussBase):
            return [("returns_a_gaussian_over_the_remaining_inputs", False)]
        cl = [("returns_a_gaussian_over_the_remaining_inputs", list(result.inputs) == keep)]
        n_keep = sum(inputs[k].num_elements for k in keep)
        got = ra.quad(a["xa"][:n_keep], result.prec_sqrt, result.white_vec) * ra.Fraction(-1, 2)
        cl.append(("density_at_the_remaining_inputs_equals_the_joint_density_at_the_values", ra.verdict(T, got, spec)))
        return cl


# ==================================================================================================
@register
class SubsAffineExact(Contract):
    """Gaussian._eager_subs_affine(pairs, ()) -- affine values  x_k := b_k + sum_u  u . A_{k,u}  given through the contract of
    extract_affine (constant b_k, one coefficient tensor per variable u with the einsum equation 'ab,a->b') --: the result is a
    Gaussian over (the inputs that are not substituted, in order) followed by (the variables of the values, in order of first
    mention), and at EVERY real point of those inputs
        -1/2 |y P' - w'|^2  ==  -1/2 |x P - w|^2     with  x_k = b_k + sum_u y_u A_{k,u}  for substituted k,  x_k = y_k otherwise,
    a SIMULTANEOUS substitution: a value may mention a kept input, ANOTHER substituted key (g(x=2y, y=3x)), or its OWN key
    (g(x=2x+1)) -- each mention reads the caller's variable of that name.
    shape family: 2..3 real inputs of sizes 1..2, rank 1..3, values over a fresh variable / a kept input / substituted keys."""

    props = ("C12", "C04")
    file = GFILE
    qualname = "Gaussian._eager_subs_affine"
    total = True
    assumptions = ASSUME + ("extract_affine returns (constant, {variable: (coefficient, einsum equation)}) with value = constant + sum einsum(eqn, coefficient, variable) (affine.py; bounded tier)",)
    ground_backend = BACKEND
    mutants = (
        ("new inputs built by delete-then-add in one loop (the pinned-tree defect)", "        new_real_inputs = OrderedDict(\n            (k, d) for k, d in old_real_inputs.items() if k not in affine\n        )\n        for old_k, (const, coeffs) in affine.items():\n", "        new_real_inputs = old_real_inputs.copy()\n        for old_k, (const, coeffs) in affine.items():\n            del new_real_inputs[old_k]\n"),
        ("identity block for every name that is a new input (the pinned-tree defect)", "            if old_k not in affine:", "            if old_k in new_real_inputs:"),
        ("constant added instead of subtracted", "        white_vec = white_vec - _vm(subs_vector, prec_sqrt)", "        white_vec = white_vec + _vm(subs_vector, prec_sqrt)"),
    )

    # name -> size;  substitutions: key -> list of mentioned variables (with sizes)
    CASES = {
        "x(u)": ((("x", 1), ("y", 1)), {"x": (("u", 1),)}),
        "x(u2)": ((("x", 1), ("y", 1)), {"x": (("u", 2),)}),
        "x2(u)": ((("x", 2), ("y", 1)), {"x": (("u", 1),)}),
        "y(u)": ((("x", 1), ("y", 1)), {"y": (("u", 1),)}),
        "x(y)": ((("x", 1), ("y", 1)), {"x": (("y", 1),)}),
        "x(x)": ((("x", 1), ("y", 1)), {"x": (("x", 1),)}),
        "x(u,v)": ((("x", 1), ("y", 1)), {"x": (("u", 1), ("v", 1))}),
        "x(y),y(x)": ((("x", 1), ("y", 1)), {"x": (("y", 1),), "y": (("x", 1),)}),
        "x(u),y(u)": ((("x", 1), ("y", 1)), {"x": (("u", 1),), "y": (("u", 1),)}),
        "x(y),y(u)": ((("x", 1), ("y", 1), ("z", 1)), {"x": (("y", 1),), "y": (("u", 1),)}),
        "z(x),x(z)": ((("x", 1), ("y", 1), ("z", 1)), {"z": (("x", 1),), "x": (("z", 1),)}),
    }

    def structures(self, tier):
        for name in self.CASES:
            for rank in (1, 2) if tier == "quick" else (1, 2, 3):
                yield "%s,rank=%d" % (name, rank), (name, rank)

    def build(self, p, st):
        name, rank = st
        lay, subs = self.CASES[name]
        inputs = OrderedDict((k, R(n)) for k, n in lay)
        dim = sum(n for _, n in lay)
        new_inputs = OrderedDict((k, d) for k, d in inputs.items() if k not in subs)
        for k, ms in subs.items():
            for u, n in ms:
                new_inputs.setdefault(u, R(n))
        shapes = dict(P=(dim, rank), w=(rank,))
        for k, ms in subs.items():
            shapes["b_" + k] = (inputs[k].num_elements,)
            for u, n in ms:
                shapes["A_%s_%s" % (k, u)] = (n, inputs[k].num_elements)
        for u, d in new_inputs.items():
            shapes["pt_" + u] = (d.num_elements,)
        T, a = mk_tower(**shapes)
        ns, ops, G = build_env(T)
        ns = dict(ns)

        class AffV:
            def __init__(self, key):
                self.key = key

        def extract_affine(v):
            coeffs = OrderedDict((u, (TensorR(a["A_%s_%s" % (v.key, u)]), "ab,a->b")) for u, n in subs[v.key])
            return TensorR(a["b_" + v.key]), coeffs

        def align_tensors(*ts, **kw):
            return OrderedDict(), [np.asarray(t.data, dtype=object) for t in ts]

        class TensorK:
            @staticmethod
            def __sym_instancecheck__(x):
                return isinstance(x, TensorR)

            def __call__(self, data, inputs=None, dtype="real"):
                return TensorR(data, inputs, dtype)

        class RealsNS:
            def __getitem__(self, sh):
                return Dm("real", sh if isinstance(sh, tuple) else (sh,))

        ns.update(extract_affine=extract_affine, align_tensors=align_tensors, Tensor=TensorK(), Reals=RealsNS(), Subs=None, reflect=None, isinstance=core.sisinstance)
        g = G(a["w"], a["P"], inputs)
        pairs = tuple((k, AffV(k)) for k in subs)
        return Ctx(args=(g, pairs, ()), namespace=ns, T=T, a=a, st=st, inputs=inputs, new_inputs=new_inputs, subs=subs)

    def ensures(self, ctx, result):
        T, a = ctx.T, ctx.a
        if not isinstance(result, GaussBase):
            return [("returns_a_gaussian", False)]
        cl = [("inputs_are_the_kept_inputs_then_the_values_variables", [(k, d.shape) for k, d in result.inputs.items()] == [(k, d.shape) for k, d in ctx.new_inputs.items()])]
        if not cl[0][1]:
            return cl
        y = np.concatenate([a["pt_" + u] for u in ctx.new_inputs])
        xs = []
        for k, d in ctx.inputs.items():
            if k in ctx.subs:
                v = a["b_" + k]
                for u, n in ctx.subs[k]:
                    v = v + a["pt_" + u] @ a["A_%s_%s" % (k, u)]
                xs.append(v)
            else:
                xs.append(a["pt_" + k])
        x = np.concatenate(xs)
        got = ra.quad(y, result.prec_sqrt, result.white_vec)
        spec = ra.quad(x, a["P"], a["w"])
        cl.append(("density_at_every_point_equals_the_density_at_the_substituted_point", ra.verdict(T, got, spec)))
        return cl


# ==================================================================================================
@register
class ExtractAffineExact(Contract):
    """affine.extract_affine(fn) for a funsor that is jointly affine in its real inputs, fn(x_1..x_n) = b + sum_k <A_k, x_k>
    with INDETERMINATE b, A_k (so: every such function): the returned (const, coeffs) satisfy the documented identity
        const + sum_k einsum(eqn_k, coeff_k, x_k)  ==  fn(x_1..x_n)       at every real point,
    with one entry per affine input, in input order, coeff_k of shape x_k.shape + fn.shape and eqn_k contracting exactly the
    dims of x_k.  The probing (evaluate at zero, then at every basis vector through one integer probe variable, Lambda over
    the probe, reshape) is the real code; fn(**subs), Tensor[...][var], Lambda and reshape are models with their contracts'
    meaning.  shape family: 1..2 inputs of shapes (), (2,), (2,2), (1,2); output shapes (), (2,), (2,2)."""

    props = ("C12",)
    file = "funsor/affine.py"
    qualname = "extract_affine"
    total = True
    assumptions = ASSUME
    ground_backend = BACKEND
    mutants = (
        ("coefficient reshaped output-first", "coeff = Lambda(var, fn(**subs) - const).reshape(v.shape + const.shape)", "coeff = Lambda(var, fn(**subs) - const).reshape(const.shape + v.shape)"),
        ("constant not removed from the probes", "coeff = Lambda(var, fn(**subs) - const).reshape(v.shape + const.shape)", "coeff = Lambda(var, fn(**subs)).reshape(v.shape + const.shape)"),
        ("equation contracts the trailing dims", "        inputs2 = inputs1[: len(v.shape)]\n        output = inputs1[len(v.shape) :]", "        inputs2 = inputs1[len(coeff.shape) - len(v.shape) :]\n        output = inputs1[: len(coeff.shape) - len(v.shape)]"),
    )

    def structures(self, tier):
        in_shapes = [(), (2,), (2, 2), (1, 2)]
        out_shapes = [(), (2,), (2, 2)]
        for o in out_shapes:
            for a in in_shapes:
                yield "in=%s,out=%s" % (list(a), list(o)), ((a,), o)
            for a, b in (((), (2,)), ((2,), (2,)), ((2, 2), ()), ((1, 2), (2,))):
                if tier == "quick" and len(o) == 2 and len(a) == 2:
                    continue
                yield "in=%s,%s,out=%s" % (list(a), list(b), list(o)), ((a, b), o)

    def build(self, p, st):
        in_shapes, out_shape = st
        names = ["x", "y"][: len(in_shapes)]
        shapes = dict(b=out_shape)
        for n, sh in zip(names, in_shapes):
            shapes["A_" + n] = tuple(sh) + tuple(out_shape)
            shapes["pt_" + n] = tuple(sh)
        T, a = mk_tower(**shapes)
        ops_ = ra.OpsReal(T)

        class VarR:
            def __init__(self, name, dom):
                self.name, self.output = name, dom

        class TensorE(_Red):
            """Tensor record with named leading batch dims; supports the few operations extract_affine uses"""

            def __init__(self, data, inputs=None):
                self.data = np.asarray(data, dtype=object)
                self.inputs = OrderedDict(inputs or ())

            @property
            def shape(self):
                return self.data.shape[len(self.inputs):]

            def __getitem__(self, var):
                if not isinstance(var, VarR) or self.inputs:
                    raise Unsupported("Tensor index")
                if self.data.shape[0] != var.output.size:
                    raise Declined("AssertionError", "index size")
                return TensorE(self.data, OrderedDict([(var.name, var.output)]))

            def __sub__(self, o):
                ins = OrderedDict(self.inputs)
                ins.update(o.inputs)
                if len(ins) > 1:
                    raise Unsupported("two batch inputs")

                def lift(t):
                    d = t.data
                    if ins and not t.inputs:
                        d = d[None]
                    return d

                x, y = lift(self), lift(o)
                # output dims align on the right as in funsor's Binary of Tensors: pad the shorter output shape on the left
                nb = len(ins)
                ex, ey = x.ndim - nb, y.ndim - nb
                n = max(ex, ey)
                x = x.reshape(x.shape[:nb] + (1,) * (n - ex) + x.shape[nb:])
                y = y.reshape(y.shape[:nb] + (1,) * (n - ey) + y.shape[nb:])
                return TensorE(x - y, ins)

            def reshape(self, shape):
                nb = len(self.inputs)
                return TensorE(self.data.reshape(self.data.shape[:nb] + tuple(shape)), self.inputs)

        def Lambda(var, t):
            if list(t.inputs) != [var.name]:
                raise Unsupported("Lambda over a variable that is not the only input")
            return TensorE(t.data, OrderedDict())

        inputs = OrderedDict((n, Dm("real", sh)) for n, sh in zip(names, in_shapes))

        class AffFn:
            def __init__(self):
                self.inputs = inputs

            def __call__(self, **subs):
                if set(subs) != set(inputs):
                    raise Unsupported("partial substitution into the affine function model")
                ins = OrderedDict()
                for v in subs.values():
                    ins.update(v.inputs)
                if len(ins) > 1:
                    raise Unsupported("two batch inputs")
                nb = len(ins)
                bsz = tuple(d.size for d in ins.values())
                out = np.broadcast_to(a["b"], bsz + tuple(out_shape)).copy()
                for n, sh in zip(names, in_shapes):
                    v = subs[n]
                    d = v.data if v.inputs or not ins else v.data[None]
                    if d.shape[nb:] != tuple(sh):
                        raise Declined("ValueError", "value of the wrong shape")
                    for bidx in itertools.product(*map(range, bsz)):
                        acc = out[bidx]
                        src = bidx if v.inputs else (0,) * nb
                        for idx in itertools.product(*map(range, sh)):
                            acc = acc + d[src + idx] * a["A_" + n][idx]
                        out[bidx] = acc
                return TensorE(out, ins)

        import opt_einsum

        class BintNS2:
            def __getitem__(self, n):
                return Dm(int(n))

        ns = dict(OrderedDict=OrderedDict, ops=ops_, Tensor=lambda data, inputs=None: TensorE(data, inputs), Variable=VarR, Bint=BintNS2(), Lambda=Lambda, gensym=lambda prefix: prefix + "_0",
                  get_default_prototype=lambda: None, affine_inputs=lambda fn: frozenset(fn.inputs), opt_einsum=opt_einsum, map=map, range=range, len=len)
        return Ctx(args=(AffFn(),), namespace=ns, T=T, a=a, st=st, names=names, TensorE=TensorE)

    def ensures(self, ctx, result):
        in_shapes, out_shape = ctx.st
        T, a = ctx.T, ctx.a
        const, coeffs = result
        cl = [("one_coefficient_per_affine_input_in_order", list(coeffs) == ctx.names and isinstance(const, ctx.TensorE) and not const.inputs)]
        if not cl[0][1]:
            return cl
        spec = np.array(a["b"], dtype=object)
        total = np.array(const.data, dtype=object)
        shapes_ok = const.data.shape == tuple(out_shape)
        for n, sh in zip(ctx.names, in_shapes):
            coeff, eqn = coeffs[n]
            shapes_ok = shapes_ok and not coeff.inputs and coeff.data.shape == tuple(sh) + tuple(out_shape)
            if not shapes_ok:
                break
            total = total + np.einsum(eqn, coeff.data, a["pt_" + n])
            for idx in itertools.product(*map(range, sh)):
                spec = spec + a["pt_" + n][idx] * a["A_" + n][idx]
        cl.append(("coefficients_have_shape_input_then_output", shapes_ok))
        if shapes_ok:
            cl.append(("constant_plus_einsum_terms_equal_the_function_at_every_point", ra.verdict(T, total, spec)))
        return cl


# ==================================================================================================
@register
class IntegrateGaussianVariableExact(Contract):
    """integrate.eager_integrate_gaussian_variable(log_measure, Variable x, {x}) for a Gaussian measure over the single real
    input x:   integral exp(-1/2 |x P - w|^2) x dx  ==  Z * mu,   Z = exp(log normaliser),  mu = (P P')^-1 P w'
    entry by entry, reshaped to x's shape, as a Tensor over the integer inputs; for a measure with further real inputs the rule
    declines (returns None).  The properties _mean, _log_normalizer, _precision_chol, _info_vec are the real ones.
    shape family: x of shape (1,), (2,), (1,2), (2,1); rank dim..dim+1."""

    props = ("C13",)
    file = "funsor/integrate.py"
    qualname = "eager_integrate_gaussian_variable"
    total = True
    assumptions = ASSUME
    ground_backend = BACKEND
    mutants = (
        ("information vector instead of the mean", "        loc = log_measure._mean", "        loc = log_measure._info_vec"),
        ("normaliser not applied", "        data = loc * ops.unsqueeze(ops.exp(log_measure._log_normalizer), -1)", "        data = loc * 1"),
    )

    def structures(self, tier):
        for sh in ((1,), (2,), (1, 2), (2, 1)):
            dim = int(np.prod(sh))
            for rank in (dim, dim + 1):
                yield "x=%s,rank=%d" % (list(sh), rank), (sh, rank, False)
        yield "x=[1],y=[1],rank=2: declines", ((1,), 2, True)

    def build(self, p, st):
        sh, rank, extra = st
        dim = int(np.prod(sh)) + (1 if extra else 0)
        T, a = mk_tower(P=(dim, rank), w=(rank,))
        ns, ops, G = build_env(T)

        class VarR:
            def __init__(self, name, dom):
                self.name, self.dtype, self.output = name, dom.dtype, dom

            def __hash__(self):
                return hash(self.name)

            def __eq__(self, o):
                return isinstance(o, VarR) and o.name == self.name

        inputs = OrderedDict(x=Dm("real", sh))
        if extra:
            inputs["y"] = R(1)
        g = G(a["w"], a["P"], inputs)
        g.input_vars = frozenset(VarR(k, d) for k, d in inputs.items())
        x = VarR("x", inputs["x"])
        return Ctx(args=(g, x, frozenset([x])), namespace=dict(ns), T=T, a=a, st=st)

    def ensures(self, ctx, result):
        sh, rank, extra = ctx.st
        T, a = ctx.T, ctx.a
        if extra:
            return [("declines_when_other_real_inputs_remain", result is None)]
        if not (isinstance(result, TensorR) and not result.inputs):
            return [("returns_a_tensor_over_the_integer_inputs", False)]
        data = np.asarray(result.data, dtype=object)
        if data.shape != tuple(sh):
            return [("value_has_the_variables_shape", False)]
        P, w = a["P"], a["w"]
        mu = ra.solve_spd(P @ P.T, P @ w).reshape(sh)
        spec_lin = log_normalizer_spec(T, P, w)
        ok_c, ok_l = True, True
        for idx in itertools.product(*map(range, sh)):
            v = data[idx]
            if not isinstance(v, ExpV):
                return [("value_is_normaliser_times_mean", False)]
            ok_c = ra.verdict(T, v.coef, mu[idx]) and ok_c
            ok_l = lin_verdict(T, v.lin, spec_lin) and ok_l
        return [("value_has_the_variables_shape", True), ("every_entry_is_the_mean_entry", ok_c), ("times_the_total_mass", ok_l)]


# ==================================================================================================
class _MomentExact(Contract):
    """Gaussian.%(name)s for a full-rank factor (rank >= dim), at every real w, P, with Lambda = P P':  %(spec)s.
    (The properties it reads and the helper _inverse_cholesky are the real ones.)  shape family: dim 1..2, rank dim..dim+1;
    one batch dim at dim 1."""

    props = ("C13", "C12")
    file = GFILE
    total = True
    assumptions = ASSUME
    ground_backend = BACKEND

    def structures(self, tier):
        for dim in (1, 2):
            for rank in (dim, dim + 1):
                yield "dim=%d,rank=%d" % (dim, rank), (dim, rank, ())
        yield "dim=1,rank=2,batch=2", (1, 2, (2,))

    def build(self, p, st):
        dim, rank, batch = st
        T, a = mk_tower(P=batch + (dim, rank), w=batch + (rank,))
        ns, ops, G = build_env(T)
        g = G(a["w"], a["P"], OrderedDict(x=R(dim)))
        return Ctx(args=(g,), namespace=ns, T=T, a=a, st=st)

    def ensures(self, ctx, result):
        dim, rank, batch = ctx.st
        T, a = ctx.T, ctx.a
        res = np.asarray(result, dtype=object)
        ok = True
        for b in itertools.product(*map(range, batch)):
            P, w = a["P"][b], a["w"][b]
            got = res[b] if batch else res
            ok = self.check(T, got, P, w, dim) and ok
        return [(self.clause, ok)]


def _eye(T, n):
    return ra.OpsReal(T).new_eye(None, (n,))


@register
class PrecisionExact(_MomentExact):
    __doc__ = _MomentExact.__doc__ % dict(name="_precision", spec="the value is Lambda")
    qualname = "Gaussian._precision"
    clause = "equals_P_times_P_transposed"
    mutants = (("transposed product", "return self.prec_sqrt @ ops.transpose(self.prec_sqrt, -1, -2)", "return ops.transpose(self.prec_sqrt, -1, -2) @ self.prec_sqrt"),)

    def check(self, T, got, P, w, dim):
        return ra.verdict(T, got, P @ P.T)


@register
class InfoVecExact(_MomentExact):
    __doc__ = _MomentExact.__doc__ % dict(name="_info_vec", spec="the value is P w'")
    qualname = "Gaussian._info_vec"
    clause = "equals_P_times_white_vec"
    mutants = (("vector times matrix", "return _mv(self.prec_sqrt, self.white_vec)", "return _vm(self.white_vec, ops.transpose(self.prec_sqrt, -1, -2))[..., ::-1]"),)

    def check(self, T, got, P, w, dim):
        return ra.verdict(T, got, P @ w)


@register
class MeanExact(_MomentExact):
    __doc__ = _MomentExact.__doc__ % dict(name="_mean", spec="Lambda times the value equals P w'  (the value is the mode / mean of the normalised density)")
    qualname = "Gaussian._mean"
    clause = "precision_times_mean_is_the_information_vector"
    mutants = (("solved against the factor once only", "return ops.cholesky_solve(self._info_vec[..., None], self._precision_chol)[", "return ops.triangular_solve(self._info_vec[..., None], self._precision_chol)["),)

    def check(self, T, got, P, w, dim):
        return ra.verdict(T, (P @ P.T) @ got, P @ w)


@register
class CovarianceExact(_MomentExact):
    __doc__ = _MomentExact.__doc__ % dict(name="_covariance", spec="Lambda times the value is the identity")
    qualname = "Gaussian._covariance"
    clause = "precision_times_covariance_is_the_identity"
    mutants = (("the precision itself", "return ops.cholesky_inverse(self._precision_chol)", "return self._precision"),)

    def check(self, T, got, P, w, dim):
        return ra.verdict(T, (P @ P.T) @ got, _eye(T, dim))


@register
class ScaleTrilExact(_MomentExact):
    __doc__ = _MomentExact.__doc__ % dict(name="_scale_tril", spec="the value L is lower triangular and Lambda L L' is the identity (L L' is the covariance)")
    qualname = "Gaussian._scale_tril"
    clause = "lower_triangular_square_root_of_the_covariance"
    mutants = (("square root of the precision", "return _inverse_cholesky(self._precision)", "return ops.cholesky(self._precision)"),)

    def check(self, T, got, P, w, dim):
        tri = all(got[i, j].is_zero() for i in range(dim) for j in range(i + 1, dim))
        return tri and ra.verdict(T, (P @ P.T) @ got @ got.T, _eye(T, dim))


# seeded faults are run on the quick structures only: a faulty body does not cancel, so its rational functions (and their
# numeric confirmation) grow without bound on the larger thorough shapes -- refuting a fault once is what the self-test needs
def _quick_structures_for_faults(self, tier, label):
    return list(self.structures("quick"))


for _c in list(globals().values()):
    if isinstance(_c, type) and issubclass(_c, Contract) and _c.__module__ == __name__ and "mutant_structures" not in _c.__dict__:
        _c.mutant_structures = _quick_structures_for_faults


def _sample_fault_structures(self, tier, label):
    # the rank-3 two-dimensional case costs minutes under a faulty (non-cancelling) body
    return [(l, st) for l, st in self.structures("quick") if not l.endswith("rank=3")]


SampleAllExact.mutant_structures = _sample_fault_structures


# ==================================================================================================
@register
class IntegrateGaussianGaussianBatched(Contract):
    """eager_integrate_gaussian_gaussian with integer inputs: the measure over (i, x), the integrand over (j, x) or (i, x) or x
    alone -- the real align_gaussian expands the measure to the union of the integer inputs; the result is a Tensor over those
    inputs with, for EVERY index (i, j) and every real w, P:
        data[i, j]  ==  Z_i * (-1/2) ( |mu_i Pr_j - wr_j|^2 + Tr(Pr_j' Sigma_i Pr_j) ),     Z_i, mu_i, Sigma_i of the MEASURE at i
    (in particular the normaliser is indexed by the measure's own batch index, not broadcast along the integrand's).
    shape family: x of size 1, batch sizes 2, ranks 1..2."""

    props = ("C13",)
    file = "funsor/integrate.py"
    qualname = "eager_integrate_gaussian_gaussian"
    total = True
    assumptions = ASSUME
    ground_backend = BACKEND
    mutants = (
        ("normaliser of the unaligned measure (seeded C13_integrate_unaligned_normalizer)", "            norm = ops.exp(lhs._log_normalizer)", "            norm = ops.exp(log_measure._log_normalizer)"),
        ("mean of the unaligned measure", "            mean = _vm(lhs._mean, rhs_prec_sqrt)", "            mean = _vm(log_measure._mean, rhs_prec_sqrt)"),
    )

    def structures(self, tier):
        for lay in ("i|j", "i|i", "i|-", "-|j"):
            for rl, rr in ((1, 1), (2, 1)):
                yield "batch=%s,ranks=%d,%d" % (lay, rl, rr), (lay, rl, rr)

    def build(self, p, st):
        lay, rl, rr = st
        lb, rb = lay.split("|")
        lshape = (2,) if lb != "-" else ()
        rshape = (2,) if rb != "-" else ()
        T, a = mk_tower(Pl=lshape + (1, rl), wl=lshape + (rl,), Pr=rshape + (1, rr), wr=rshape + (rr,))
        ns, ops, G = build_env(T)

        class VarR:
            def __init__(self, name, dom):
                self.name, self.dtype, self.output = name, dom.dtype, dom

            def __hash__(self):
                return hash(self.name)

            def __eq__(self, o):
                return isinstance(o, VarR) and o.name == self.name

        lin_ = OrderedDict(([(lb, Dm(2))] if lb != "-" else []) + [("x", R(1))])
        rin = OrderedDict(([(rb, Dm(2))] if rb != "-" else []) + [("x", R(1))])
        rv = frozenset([VarR("x", R(1))])
        return Ctx(args=(G(a["wl"], a["Pl"], lin_), G(a["wr"], a["Pr"], rin), rv), namespace=dict(ns), T=T, a=a, st=st, lb=lb, rb=rb)

    def ensures(self, ctx, result):
        T, a = ctx.T, ctx.a
        lb, rb = ctx.lb, ctx.rb
        names = [n for n in (lb, rb) if n != "-"]
        names = list(OrderedDict.fromkeys(names))
        if not (isinstance(result, TensorR) and list(result.inputs) == names):
            return [("returns_a_tensor_over_the_union_of_the_integer_inputs", False)]
        data = np.asarray(result.data, dtype=object)
        if data.shape != (2,) * len(names):
            return [("one_value_per_index", False)]
        ok_l, ok_c = True, True
        for idx in itertools.product(range(2), repeat=len(names)):
            env = dict(zip(names, idx))
            Pl = a["Pl"][env[lb]] if lb != "-" else a["Pl"]
            wl = a["wl"][env[lb]] if lb != "-" else a["wl"]
            Pr = a["Pr"][env[rb]] if rb != "-" else a["Pr"]
            wr = a["wr"][env[rb]] if rb != "-" else a["wr"]
            v = data[idx]
            if not isinstance(v, ExpV):
                return [("value_is_normaliser_times_expectation", False)]
            Lam = Pl @ Pl.T
            mu = ra.solve_spd(Lam, Pl @ wl)
            resid = mu @ Pr - wr
            SigPr = ra.solve_spd(Lam, Pr)
            tr = RE.coerce(T, 0)
            for r_ in range(Pr.shape[0]):
                for c_ in range(Pr.shape[1]):
                    tr = tr + Pr[r_, c_] * SigPr[r_, c_]
            ok_l = lin_verdict(T, v.lin, log_normalizer_spec(T, Pl, wl)) and ok_l
            ok_c = ra.verdict(T, v.coef, (resid @ resid + tr) * ra.Fraction(-1, 2)) and ok_c
        return [("normaliser_is_the_measures_at_its_own_index", ok_l), ("expectation_under_the_measure_at_that_index", ok_c)]


IntegrateGaussianGaussianBatched.mutant_structures = _quick_structures_for_faults
