"""Contracts on the reinterpreters (C03) and the compiler / op programs (C18): funsor/interpreter.py, funsor/compiler.py,
funsor/ops/program.py.  Terms are abstract DAG nodes (class Node: a term class tag and its ast values, which may be atoms,
nodes, or tuples/frozensets of those); `interpret` and the ops are OPAQUE (the result of interpret(cls, *args) is the
uninterpreted record ("I", cls, args)), so every obligation holds for every interpretation and every op.  The structure
bound is the enumerated set of DAG shapes (all shapes with <= 4 non-atom nodes, sharing included)."""
import itertools
from collections import OrderedDict, defaultdict, deque

from pyvc import core
from pyvc.contract import Contract, Ctx, register
from pyvc.core import Declined, Unsupported


class Node:
    """an abstract funsor term: hash/eq by identity (terms are hash-consed)"""

    def __init__(self, cls, *values):
        self.cls, self._ast_values = cls, tuple(values)

    def __repr__(self):
        return "%s%r" % (self.cls, self._ast_values)


class Cls:
    def __init__(self, name):
        self.name = name

    def __repr__(self):
        return self.name


CLASSES = {n: Cls(n) for n in ("U", "B", "T")}


def is_atom(x):
    if isinstance(x, (tuple, frozenset)):
        return all(is_atom(c) for c in x)
    return isinstance(x, (str, int, float))


def children(x):
    if isinstance(x, Node):
        return x._ast_values
    if isinstance(x, (tuple, frozenset)):
        return x
    if is_atom(x):
        return ()
    raise ValueError(type(x))


def stype(x):
    if isinstance(x, Node):
        return x.cls
    return type(x)


def shapes(tier):
    """DAG shapes: built bottom-up from atoms with unary / binary / tuple-carrying nodes, with sharing"""
    out = []
    a, b = "atom_a", "atom_b"

    def U(c):
        return Node(CLASSES["U"], "op", c)

    def B(c, d):
        return Node(CLASSES["B"], "op", c, d)

    def T(*cs):
        return Node(CLASSES["T"], tuple(cs))

    out.append(("atom", lambda: a))
    out.append(("tuple-of-atoms", lambda: (a, b)))
    out.append(("U(a)", lambda: U(a)))
    out.append(("B(a,b)", lambda: B(a, b)))
    out.append(("U(U(a))", lambda: U(U(a))))
    out.append(("B(U(a),b)", lambda: B(U(a), b)))
    out.append(("B(a,U(b))", lambda: B(a, U(b))))
    out.append(("B(U(a),U(b))", lambda: B(U(a), U(b))))

    def shared():
        s = U(a)
        return B(s, s)

    out.append(("B(s,s) shared", shared))

    def shared2():
        s = U(a)
        return B(U(s), s)

    out.append(("B(U(s),s) shared", shared2))

    def shared3():
        s = B(a, b)
        return B(B(s, a), U(s))

    out.append(("B(B(s,a),U(s)) shared", shared3))
    out.append(("T(U(a),b)", lambda: T(U(a), b)))
    out.append(("T(U(a),U(b))", lambda: T(U(a), U(b))))
    out.append(("T(T(U(a)),U(b)) nested tuple", lambda: T(T(U(a)), U(b))))
    out.append(("T(T(U(a),U(a)),T(U(b))) two nested tuples", lambda: T(T(U(a), U(a)), T(U(b)))))
    out.append(("U(T(a,U(b)))", lambda: U(T(a, U(b)))))
    out.append(("raw tuple of nodes", lambda: (U(a), B(a, b))))
    out.append(("frozenset of a node", lambda: frozenset([U(a)])))
    out.append(("B(U(U(a)),U(U(b))) depth3", lambda: B(U(U(a)), U(U(b)))))

    def diamond():
        s = U(a)
        l, r = U(s), B(s, b)
        return B(l, r)

    out.append(("diamond", diamond))
    if tier != "quick":

        def chain(n):
            x = a
            for _ in range(n):
                x = U(x)
            return x

        out.append(("chain6", lambda: chain(6)))

        def wide():
            s = U(a)
            return T(s, U(s), B(s, s), U(b))

        out.append(("wide shared tuple", wide))
    return out


def spec_reinterpret(x):
    """R(x): atoms unchanged; containers map; nodes: I(type, *R(children))"""
    if is_atom(x):
        return x
    if isinstance(x, (tuple, frozenset)):
        return type(x)(spec_reinterpret(c) for c in x)
    return ("I", x.cls, tuple(spec_reinterpret(c) for c in children(x)))


class TopOfStack:
    @staticmethod
    def interpret(cls, *args):
        return ("I", cls, tuple(args))


class StackNS:
    def __sym_getitem__(self, i):
        if i != -1:
            raise Unsupported("only _STACK[-1]")
        return TopOfStack


BASE_NS = dict(is_atom=is_atom, children=children, type=stype, deque=deque, defaultdict=defaultdict, OrderedDict=OrderedDict, _STACK=StackNS(), map=map)


class _Shapes(Contract):
    file = "funsor/interpreter.py"

    def structures(self, tier):
        for label, mk in shapes(tier):
            yield label, label

    def mk(self, label):
        return dict(shapes("thorough"))[label]()


@register
class Anf(_Shapes):
    """anf(x): an ordered map containing every non-atom node of x exactly once (shared nodes once), every node after all of
    its non-atom children, the root last."""

    props = ("C03", "C18")
    qualname = "anf"
    total = True
    mutants = (("parents released too early", "if children_counts[parent] == 0:", "if children_counts[parent] <= 1:"), ("root not moved last", "env.move_to_end(x)", "pass"))

    def build(self, p, label):
        x = self.mk(label)
        return Ctx(args=(x,), namespace=BASE_NS, x=x)

    def allow_vacuous(self, st):
        return False

    def ensures(self, ctx, result):
        x = ctx.x
        if is_atom(x):
            # anf is only called on non-atoms by its callers; on an atom it returns {x: x}
            return [("atom_root_only", list(result.keys()) == [x])]
        nodes = []

        def walk(n):
            if is_atom(n) or any(n is m for m in nodes):
                return
            nodes.append(n)
            for c in children(n):
                walk(c)

        walk(x)
        keys = list(result.keys())
        once = len(keys) == len(nodes) and all(sum(1 for k in keys if k is n) == 1 for n in nodes)
        pos = {id(k): i for i, k in enumerate(keys)}
        order = all(pos[id(c)] < pos[id(n)] for n in nodes for c in children(n) if not is_atom(c)) if once else False
        return [("every_non_atom_node_exactly_once", once), ("children_before_parents", order), ("root_last", keys and keys[-1] is x), ("values_are_the_nodes", all(result[k] is k for k in keys))]


@register
class RecursionReinterpret(_Shapes):
    """recursion_reinterpret(x) == R(x) where R(atom) = atom, R(container) = container of R(children),
    R(term) = interpret(type(term), *R(children)) with the ACTIVE interpretation (_STACK[-1]); interpret is opaque."""

    props = ("C03",)
    qualname = "recursion_reinterpret"
    total = True
    mutants = (("children not reinterpreted", "*map(recursion_reinterpret, children(x)))", "*children(x))"),)

    def build(self, p, label):
        x = self.mk(label)
        ns = dict(BASE_NS)
        ctx = Ctx(args=(x,), namespace=ns, x=x)
        return ctx

    def entry(self, loc, ctx):
        f, interp = core.make_callable(loc, ctx.namespace, self.hooks(ctx))
        f.scope.globals["recursion_reinterpret"] = f
        return f, interp

    def ensures(self, ctx, result):
        return [("homomorphic_image_under_the_active_interpretation", result == spec_reinterpret(ctx.x))]


@register
class StackReinterpret(_Shapes):
    """stack_reinterpret(x) == R(x) (same specification as the recursive reinterpreter, so the two agree), using anf through
    its contract (children before parents, each node once); shared nodes are interpreted once."""

    props = ("C03",)
    qualname = "stack_reinterpret"
    total = True
    mutants = (("containers not rebuilt", "env[key] = type(value)(c if is_atom(c) else env[c] for c in children(value))", "env[key] = value"),)

    def build(self, p, label):
        x = self.mk(label)
        calls = []

        class Top:
            @staticmethod
            def interpret(cls, *args):
                calls.append((cls, args))
                return ("I", cls, tuple(args))

        class S:
            def __sym_getitem__(self, i):
                return Top

        loc = core.locate("funsor/interpreter.py", "anf")
        anf_f, _ = core.make_callable(loc, BASE_NS)
        ns = dict(BASE_NS, _STACK=S(), anf=anf_f, isinstance=isinstance)
        return Ctx(args=(x,), namespace=ns, x=x, calls=calls)

    def ensures(self, ctx, result):
        nodes = []

        def walk(n):
            if is_atom(n) or any(n is m for m in nodes):
                return
            nodes.append(n)
            for c in children(n):
                walk(c)

        walk(ctx.x)
        n_terms = sum(1 for n in nodes if isinstance(n, Node))
        return [("homomorphic_image_under_the_active_interpretation", result == spec_reinterpret(ctx.x)), ("each_term_interpreted_once", len(ctx.calls) == n_terms)]


# ---- compiler ------------------------------------------------------------------------------------------
class TNode(Node):
    pass


def compiler_terms():
    """expressions of the compiler's fragment as model terms"""

    class Number(TNode):
        pass

    class Tensor(TNode):
        pass

    class Variable(TNode):
        pass

    class Unary(TNode):
        pass

    class Binary(TNode):
        pass

    class Tuple(TNode):
        pass

    K = dict(Number=Number, Tensor=Tensor, Variable=Variable, Unary=Unary, Binary=Binary, Tuple=Tuple)
    var_cache = {}

    def num(v):
        n = Number("Number", v)
        n.data = ("const", v)
        return n

    def ten(v):
        n = Tensor("Tensor", v)
        n.data = ("array", v)
        return n

    def var(k, d="dom"):
        if (k, d) not in var_cache:  # hash-consing of Variable(k, d)
            n = Variable("Variable", k, d)
            n.name = k
            var_cache[(k, d)] = n
        return var_cache[(k, d)]

    def un(op, a):
        n = Unary("Unary", op, a)
        n.op, n.arg = op, a
        return n

    def bi(op, a, b):
        n = Binary("Binary", op, a, b)
        n.op, n.lhs, n.rhs = op, a, b
        return n

    def tup(*args):
        n = Tuple("Tuple", tuple(args))
        n.args = tuple(args)
        return n

    return K, num, ten, var, un, bi, tup


def compiler_shapes(tier):
    out = []

    def add(label, f, inputs):
        out.append((label, f, inputs))

    add("x", lambda num, ten, var, un, bi, tup: var("x"), ["x"])
    add("neg(x)", lambda num, ten, var, un, bi, tup: un("neg", var("x")), ["x"])
    add("x-y (non-commutative)", lambda num, ten, var, un, bi, tup: bi("sub", var("x"), var("y")), ["x", "y"])
    add("y-x with inputs ordered x,y", lambda num, ten, var, un, bi, tup: bi("sub", var("y"), var("x")), ["x", "y"])
    add("(x-1)/T", lambda num, ten, var, un, bi, tup: bi("truediv", bi("sub", var("x"), num(1.0)), ten("T0")), ["x"])
    add("shared: (x+y)*(x+y)", lambda num, ten, var, un, bi, tup: (lambda s: bi("mul", s, s))(bi("add", var("x"), var("y"))), ["x", "y"])
    add("shared deep", lambda num, ten, var, un, bi, tup: (lambda s: bi("sub", un("exp", s), bi("matmul", s, var("y"))))(bi("add", var("x"), num(2.0))), ["x", "y"])
    add("tuple(x+1, y)", lambda num, ten, var, un, bi, tup: tup(bi("add", var("x"), num(1.0)), var("y")), ["x", "y"])
    add("nested tuples", lambda num, ten, var, un, bi, tup: tup(tup(bi("add", var("x"), num(1.0)), un("neg", var("x"))), tup(bi("mul", var("y"), num(2.0)))), ["x", "y"])
    add("tuple then more", lambda num, ten, var, un, bi, tup: tup(bi("sub", var("z"), num(3.0)), tup(un("neg", var("x"))), bi("mul", var("x"), var("y"))), ["z", "x", "y"])
    add("constants only", lambda num, ten, var, un, bi, tup: bi("sub", num(1.0), ten("T0")), [])
    add("unused input", lambda num, ten, var, un, bi, tup: un("neg", var("x")), ["x", "w"])
    return out


@register
class CompileFunsor(Contract):
    """compile_funsor(expr): the program (constants, inputs, operations) satisfies the numbering invariant -- evaluating it
    by OpProgram's rule (env = constants ++ inputs ++ one value per operation) gives at position ids[f] the value of node
    f: constants are the Number/Tensor data in anf order, inputs are expr.inputs in order, every operation's arg ids are
    the positions of its operands in operand order (lhs before rhs) and smaller than its own position, the last
    operation is the root.  lower() and anf() are used through their contracts (structure preserving; children first).
    structure bound: the enumerated expression shapes (shared subexpressions, nested tuples, non-commutative ops)."""

    props = ("C18",)
    file = "funsor/compiler.py"
    qualname = "compile_funsor"
    total = True
    mutants = (
        ("raw tuples numbered (the pinned-tree defect)", "        if isinstance(f, tuple):\n            continue  # Skip from Tuple directly to its elements.\n        ids[f] = len(ids)", "        ids[f] = len(ids)\n        if isinstance(f, tuple):\n            continue"),
        ("operands swapped", "arg_ids = (ids[f.lhs], ids[f.rhs])", "arg_ids = (ids[f.rhs], ids[f.lhs])"),
        ("inputs numbered before constants", "    # Collect operations to be computed (internal nodes).", "    ids = {f: (i + len(inputs)) % (len(constants) + len(inputs)) if i < len(constants) + len(inputs) else i for f, i in ids.items()}"),
    )

    def structures(self, tier):
        for label, f, inputs in compiler_shapes(tier):
            for order in ("anf-real", "dfs"):
                yield "%s|%s" % (label, order), (label, order)

    def build(self, p, st):
        label, order = st
        K, num, ten, var, un, bi, tup = compiler_terms()
        f = [s for s in compiler_shapes("thorough") if s[0] == label][0]
        expr = f[1](num, ten, var, un, bi, tup)
        expr.inputs = OrderedDict((k, "dom") for k in f[2])
        loc = core.locate("funsor/interpreter.py", "anf")
        anf_real, _ = core.make_callable(loc, BASE_NS)

        def anf_dfs(x):
            env = OrderedDict()

            def walk(n):
                if is_atom(n) or any(n is k for k in env):
                    return
                for c in children(n):
                    walk(c)
                env[n] = n

            walk(x)
            return env

        class InterpNS:
            anf = staticmethod(anf_real if order == "anf-real" else anf_dfs)

        class FunsorNS:
            interpreter = InterpNS

        progs = []

        def OpProgram(constants, inputs, operations):
            progs.append((list(constants), list(inputs), list(operations)))
            return progs[-1]

        class FunsorCls:
            @staticmethod
            def __sym_instancecheck__(x):
                return isinstance(x, TNode)

        ns = dict(K, Funsor=FunsorCls, funsor=FunsorNS, lower=lambda e: e, OpProgram=OpProgram, make_tuple="make_tuple", Variable=lambda k, d: var(k, d), isinstance=core.sisinstance)
        # isinstance(f, Variable) is not used by compile_funsor; Variable(k, d) must return the hash-consed node
        ns["Number"], ns["Tensor"], ns["Unary"], ns["Binary"], ns["Tuple"] = K["Number"], K["Tensor"], K["Unary"], K["Binary"], K["Tuple"]
        return Ctx(args=(expr,), namespace=ns, expr=expr, K=K)

    def ensures(self, ctx, result):
        constants, inputs, operations = result
        K = ctx.K
        # evaluate the program by OpProgram's rule over symbolic values and compare with the term's own value
        env = [("constval", c) for c in constants] + [("input", k) for k in inputs]
        ok_ids = True
        for op, arg_ids in operations:
            if any(i >= len(env) for i in arg_ids):
                ok_ids = False
                break
            args = tuple(env[i] for i in arg_ids)
            env.append(("tuple",) + args if op == "make_tuple" else ("op", op) + args)

        def value(n):
            if isinstance(n, (K["Number"], K["Tensor"])):
                return ("constval", n.data)
            if isinstance(n, K["Variable"]):
                return ("input", n.name)
            if isinstance(n, K["Unary"]):
                return ("op", n.op, value(n.arg))
            if isinstance(n, K["Binary"]):
                return ("op", n.op, value(n.lhs), value(n.rhs))
            return ("tuple",) + tuple(value(a) for a in n.args)

        return [
            ("arg_ids_refer_to_earlier_positions", ok_ids),
            ("inputs_are_expr_inputs_in_order", inputs == list(ctx.expr.inputs)),
            ("program_value_equals_term_value", ok_ids and len(env) > 0 and env[-1] == value(ctx.expr)),
        ]


@register
class OpProgramCall(Contract):
    """OpProgram.__call__(**kwargs): env[k] is the value of node k (constants, then inputs in declared order, then one value
    per operation applied to the env values at its arg ids); the result is the last value; a missing (or None) input raises
    ValueError, an unexpected keyword raises ValueError; ops are opaque."""

    props = ("C18",)
    file = "funsor/ops/program.py"
    qualname = "OpProgram.__call__"
    mutants = (("unexpected inputs ignored", "        if kwargs:\n            raise ValueError(f\"Unrecognized kwargs: {set(kwargs)}\")\n", ""), ("result is the first value", "result = env[-1]", "result = env[0]"), ("args reversed", "args = tuple(env[i] for i in arg_ids)", "args = tuple(env[i] for i in reversed(arg_ids))"))

    def structures(self, tier):
        for kw in ("exact", "missing", "extra", "none-valued"):
            for prog in ("ops2", "no-ops", "tuple"):
                yield "%s,%s" % (prog, kw), (prog, kw)

    def build(self, p, st):
        prog, kw = st

        def op(name):
            return lambda *a: ("op", name) + a

        class Self:
            backend = "numpy"
            constants = ("c0", "c1")
            inputs = ("x", "y")
            operations = {
                "ops2": ((op("sub"), (2, 0)), (op("truediv"), (4, 3)), (op("neg"), (5,))),
                "no-ops": (),
                "tuple": ((op("add"), (2, 3)), (lambda *a: a, (4, 1))),
            }[prog]

        kwargs = {"x": "vx", "y": "vy"}
        if kw == "missing":
            del kwargs["y"]
        elif kw == "extra":
            kwargs["z"] = "vz"
        elif kw == "none-valued":
            kwargs["y"] = None
        return Ctx(args=(Self(),), kwargs=kwargs, namespace={"set_backend": lambda b: None}, st=st)

    def may_raise(self, ctx, etype):
        return ctx.st[1] != "exact" and etype == "ValueError"

    def allow_vacuous(self, st):
        return st[1] != "exact"

    def ensures(self, ctx, result):
        prog, kw = ctx.st
        exp = {
            "ops2": ("op", "neg", ("op", "truediv", ("op", "sub", "vx", "c0"), "vy")),
            "no-ops": "vy",
            "tuple": (("op", "add", "vx", "vy"), "c1"),
        }[prog]
        return [("rejects_bad_bindings", kw == "exact"), ("value_of_last_node", result == exp)]


@register
class OpProgramAsCode(Contract):
    """OpProgram.as_code(name): the printed Python source, once executed, defines a function of the program's inputs that
    returns -- for every binding -- the value OpProgram.__call__ computes (contract OpProgramCall): one local per node in the
    same numbering (constants, inputs, operations), each operation applied to the locals at its arg ids, a make_tuple node
    printed as a TUPLE DISPLAY of its arguments (a one-component tuple stays a tuple), the last local returned.
    The source is really executed here (with `funsor.ops` replaced by opaque constructors), constants are numbers, ops have
    no parameters (constants that do not print as Python literals and parametrised ops are recorded known findings of the
    bounded tier).  structure bound: the listed programs (<= 2 constants, <= 2 inputs, <= 3 operations)."""

    props = ("C18",)
    file = "funsor/ops/program.py"
    qualname = "OpProgram.as_code"
    total = True
    mutants = (
        ("one-component tuples lose their comma", 'let(f"{op}({args},)")', 'let(f"{op}({args})")'),
        ("returns the first local", '        lines.append(f"    return v{len(lines) - start - 1}")', '        lines.append(f"    return v0")'),
        ("inputs numbered before constants", "        for c in self.constants:\n            let(c)\n        for name in self.inputs:\n            let(name)", "        for name in self.inputs:\n            let(name)\n        for c in self.constants:\n            let(c)"),
    )

    PROGS = {
        "no-ops": ((1.5,), ("x",), ()),
        "unary": ((), ("x",), (("f", (0,)),)),
        "ops2": ((2.0, 3.0), ("x", "y"), (("g", (2, 0)), ("h", (4, 3)), ("f", (5,)))),
        "tuple2": ((0.5,), ("x", "y"), (("g", (1, 2)), ("TUPLE", (3, 0)))),
        "tuple1": ((), ("x", "y"), (("g", (0, 1)), ("TUPLE", (2,)))),
        "nested-tuple1": ((), ("x",), (("TUPLE", (0,)), ("f", (0,)), ("TUPLE", (1, 2)))),
        "shared": ((), ("x",), (("f", (0,)), ("g", (1, 1)))),
    }

    def structures(self, tier):
        for k in self.PROGS:
            yield k, k

    def build(self, p, key):
        consts, inputs, opspec = self.PROGS[key]

        class OpT:
            defaults = {}

            def __init__(self, name):
                self.name = name

            def __repr__(self):
                return "ops." + self.name

            def __call__(self, *a):
                return ("op", self.name) + a

        def make_tuple(*a):
            return a

        opsd = {n: OpT(n) for n in "fgh"}

        class Self:
            backend = "numpy"

        s = Self()
        s.constants, s.inputs = tuple(consts), tuple(inputs)
        s.operations = tuple(((make_tuple if n == "TUPLE" else opsd[n]), ids) for n, ids in opspec)
        po, _ = core.make_callable(core.locate("funsor/ops/program.py", "_print_op"), dict(make_tuple=make_tuple, type=type, map=map, str=str, repr=repr))
        return Ctx(args=(s,), namespace=dict(_print_op=po, len=len, repr=repr), s=s, opsd=opsd, make_tuple=make_tuple)

    def ensures(self, ctx, result):
        s = ctx.s
        if not isinstance(result, str):
            return [("returns_source_text", False)]
        import types

        stub = types.SimpleNamespace(set_backend=lambda b: None, ops=types.SimpleNamespace(**ctx.opsd))
        real_import = __import__

        def imp(name, *a, **k):
            if name == "funsor":
                return stub
            return real_import(name, *a, **k)

        g = {"__builtins__": dict(__builtins__) if isinstance(__builtins__, dict) else dict(vars(__builtins__))}
        g["__builtins__"]["__import__"] = imp
        try:
            exec(result, g)
            bindings = {n: "val_" + n for n in s.inputs}
            got = g["program"](**bindings)
        except Exception as e:  # the printed source must at least run
            return [("printed_source_runs", False)]
        env = list(s.constants) + ["val_" + n for n in s.inputs]
        for op, ids in s.operations:
            env.append(op(*[env[i] for i in ids]))
        return [("printed_source_runs", True), ("printed_source_computes_the_programs_value", got == env[-1])]


@register
class LowerContraction(Contract):
    """compiler._lower_contraction(x): a reduction-free Contraction of n terms is lowered to nested Binary(bin_op, ., .) nodes
    whose leaves are EXACTLY the lowered terms, each once, in their original order (any bracketing: bin_op is associative, its
    operand order is kept because it need not be commutative, e.g. matmul); a Contraction with reduced variables is rejected
    (NotImplementedError). structure bound: 1 <= n <= 7 terms."""

    props = ("C18",)
    file = "funsor/compiler.py"
    qualname = "_lower_contraction"
    mutants = (("odd trailing term dropped by pairwise combination", "    return functools.reduce(bin_op, terms)", "    while len(terms) > 1:\n        terms = [bin_op(lhs, rhs) for lhs, rhs in zip(terms[0::2], terms[1::2])]\n    return terms[0]"), ("operands combined in reverse", "    return functools.reduce(bin_op, terms)", "    return functools.reduce(bin_op, reversed(terms))"))

    def structures(self, tier):
        for n in range(1, 8):
            for red in (False, True):
                yield "terms=%d,reduced_vars=%s" % (n, red), (n, red)

    def build(self, p, st):
        n, red = st

        class X:
            reduced_vars = frozenset(["i"]) if red else frozenset()
            terms = tuple("t%d" % i for i in range(n))
            bin_op = "bin-op"

        import functools

        ns = dict(_lower=lambda t: ("lowered", t), functools=functools, Binary=lambda op, a, b: ("Binary", op, a, b), reversed=reversed, zip=zip, len=len)
        return Ctx(args=(X(),), namespace=ns, st=st)

    def may_raise(self, ctx, etype):
        return ctx.st[1] and etype == "NotImplementedError"

    def allow_vacuous(self, st):
        return st[1]

    def ensures(self, ctx, result):
        n, red = ctx.st

        def leaves(t):
            if isinstance(t, tuple) and t and t[0] == "Binary":
                if t[1] != "bin-op":
                    return ["<wrong op>"]
                return leaves(t[2]) + leaves(t[3])
            return [t]

        return [("reductions_rejected", not red), ("all_terms_once_in_order", leaves(result) == [("lowered", "t%d" % i) for i in range(n)])]


@register
class LowerBinary(Contract):
    """compiler._lower_binary(x): Binary(op, lhs, rhs) is lowered to Binary(op, lowered lhs, lowered rhs) -- the SAME op with the
    operands in their original order whatever they are (a constant on the left stays on the left: what remains a Binary after
    lowering is exactly the non-commutative ops -- pow, mod, floordiv, comparisons, getitem)."""

    props = ("C18",)
    file = "funsor/compiler.py"
    qualname = "_lower_binary"
    total = True
    mutants = (("constants moved to the right (seeded C18_lowering_constants_right)", "    return Binary(x.op, lhs, rhs)", "    if isinstance(lhs, (Number, Tensor)) and not isinstance(rhs, (Number, Tensor)):\n        lhs, rhs = rhs, lhs\n    return Binary(x.op, lhs, rhs)"),)

    def structures(self, tier):
        for l in ("number", "tensor", "variable"):
            for r in ("number", "tensor", "variable"):
                yield "lhs=%s,rhs=%s" % (l, r), (l, r)

    def build(self, p, st):
        class NumberK:
            def __init__(self, tag):
                self.tag = tag

        class TensorK:
            def __init__(self, tag):
                self.tag = tag

        class VarK:
            def __init__(self, tag):
                self.tag = tag

        mk = dict(number=NumberK, tensor=TensorK, variable=VarK)

        class X:
            op = "pow"
            lhs = mk[st[0]]("L")
            rhs = mk[st[1]]("R")

        ns = dict(_lower=lambda t: t, Binary=lambda op, a, b: ("Binary", op, a, b), Number=NumberK, Tensor=TensorK, isinstance=isinstance)
        return Ctx(args=(X(),), namespace=ns, x=X)

    def ensures(self, ctx, result):
        ok = isinstance(result, tuple) and result[:2] == ("Binary", "pow") and result[2] is ctx.x.lhs and result[3] is ctx.x.rhs
        return [("same_op_operands_in_order", bool(ok))]


@register
class PrintOp(Contract):
    """program._print_op(op): the text printed for an op in OpProgram.as_code: '' for the tuple constructor; for a parametrised
    op with some non-default parameter 'ops.<Class>(v1, ..., vn)' listing EVERY parameter value positionally in declaration
    order (so that evaluating the text rebuilds an op with the same parameters -- dropping a leading default would shift the
    rest); repr(op) otherwise."""

    props = ("C18",)
    file = "funsor/ops/program.py"
    qualname = "_print_op"
    total = True
    mutants = (("only the non-default parameters are printed (seeded C18_as_code_skips_default_params)", "        args = \", \".join(map(str, op.defaults.values()))", "        base = type(op)().defaults\n        args = \", \".join(str(v) for k, v in op.defaults.items() if v != base[k])"),)

    def structures(self, tier):
        for vals in ((None, 0), (None, 1), (1, 0), (1, 1), (None, 0, True), (0, 1, False)):
            yield "parameters=%s" % (list(vals),), vals
        yield "make_tuple", "tuple"
        yield "no-parameters", ()

    def build(self, p, st):
        from collections import OrderedDict

        class VarOp:
            names = ("axis", "ddof", "keepdims")
            base = (None, 0, False)

            def __init__(self, *vals):
                n = len(vals) if vals else (len(st) if isinstance(st, tuple) else 0)
                full = tuple(vals) + self.base[len(vals):n]
                self.defaults = OrderedDict(zip(self.names[:n], full))

            def __repr__(self):
                return "ops.var"

        make_tuple = VarOp()
        op = make_tuple if st == "tuple" else VarOp(*st)
        ns = dict(make_tuple=make_tuple, type=type, map=map, str=str, repr=repr)
        return Ctx(args=(op,), namespace=ns, op=op, VarOp=VarOp, st=st)

    def ensures(self, ctx, result):
        st = ctx.st
        if st == "tuple":
            return [("tuple_constructor_prints_nothing", result == "")]
        n = len(st)
        if n == 0 or tuple(st) == ctx.VarOp.base[:n]:
            return [("default_op_prints_its_name", result == "ops.var")]
        # evaluating the printed text must rebuild the same parameters
        try:
            rebuilt = eval(result, {"ops": type("O", (), {"VarOp": ctx.VarOp})})
            same = list(rebuilt.defaults.items()) == list(ctx.op.defaults.items())
        except Exception:
            same = False
        return [("printed_constructor_rebuilds_the_same_parameters", same)]
