"""C08 / C02 / C01: funsor/cnf.py:_eager_contract_tensors -- the einsum bookkeeping behind every eager tensor contraction
(sum-product of Tensors under (add, mul) and (logaddexp, add)).  The einsum back end itself is third party (opt_einsum +
numpy / the log-space back ends, compared with a numpy oracle by the bounded tier); what is proved here is that the EQUATION
handed to it says the right thing:
  * every named input gets one symbol, the same in every operand and in the output, distinct from every other name's;
  * event dims are right-aligned (numpy broadcasting): the event dim at distance d from the right gets one symbol, shared
    by every operand whose size there is not 1, distinct from all name symbols; size-1 event dims get no subscript and the
    operand's data is reshaped without them (so they broadcast);
  * each operand's subscripts are its input symbols in ITS OWN input order followed by its non-unit event symbols;
  * the output subscripts are the inputs that are not reduced (first-appearance order) followed by the event symbols present
    in some operand -- so exactly the reduced names are summed, nothing else;
  * the result is reshaped to (sizes of the remaining inputs) + (broadcast event shape) and wrapped with those inputs.
opt_einsum.get_symbol is modelled as an injective enumeration.
structure bound: <= 3 operands over names u, v, w in any order, event shapes of rank <= 2 with unit dims."""
import itertools
from collections import OrderedDict, defaultdict
import functools

from pyvc import core
from pyvc.contract import Contract, Ctx, register


class Dom:
    def __init__(self, size):
        self.size = self.dtype = size


class VarT:
    def __init__(self, name):
        self.name = name

    def __hash__(self):
        return hash(self.name)

    def __eq__(self, o):
        return isinstance(o, VarT) and o.name == self.name


class Data:
    def __init__(self, tag, shape):
        self.tag, self.shape = tag, tuple(shape)

    def reshape(self, shape):
        return Data(("reshape", self.tag, tuple(shape)), tuple(shape))


SIZES = {"u": 2, "v": 3, "w": 4}


def spec_broadcast(shapes):
    n = max((len(s) for s in shapes), default=0)
    out = []
    for d in range(-n, 0):
        sz = 1
        for s in shapes:
            if -d <= len(s) and s[d] != 1:
                sz = s[d]
        out.append(sz)
    return tuple(out)


@register
class EagerContractTensors(Contract):
    __doc__ = __doc__

    props = ("C08", "C02", "C01")
    file = "funsor/cnf.py"
    qualname = "_eager_contract_tensors"
    total = True
    mutants = (
        ("event dims numbered from the left", "symbols[i - len(term.shape)]", "symbols[i]"),
        ("unit event dims keep a subscript", "                if size != 1\n", ""),
        ("reduced names kept in the output", "        inputs.pop(var.name, None)\n", "        pass\n"),
    )

    EVENTS = [(), (5,), (1,), (5, 6), (1, 6), (5, 1), (6,)]

    def structures(self, tier):
        pools = ["", "u", "uv", "vu", "vw"]
        for n in (1, 2, 3):
            for ins in itertools.product(pools, repeat=n):
                if tier == "quick" and ((n == 3 and (len(set(ins)) > 2 or sum(map(len, ins)) > 4)) or (n == 2 and sum(map(len, ins)) > 3)):
                    continue
                for evs in itertools.product(range(len(self.EVENTS)), repeat=n):
                    shapes = [self.EVENTS[e] for e in evs]
                    # well-typed: event shapes broadcast together
                    ok = True
                    for d in (-1, -2):
                        szs = {s[d] for s in shapes if -d <= len(s) and s[d] != 1}
                        ok = ok and len(szs) <= 1
                    if not ok or (tier == "quick" and ((n == 2 and sum(len(s) for s in shapes) > 3) or (n == 3 and sum(len(s) for s in shapes) > 2))):
                        continue
                    if tier != "quick" and n == 3 and sum(len(s) for s in shapes) > 4:
                        continue
                    used = sorted(set("".join(ins)))
                    for r in range(0, len(used) + 1):
                        for red in itertools.combinations(used, r):
                            if tier == "quick" and n == 3 and len(red) not in (0, len(used)):
                                continue
                            yield "operands=%s,events=%s,reduced=%s" % ([i or "-" for i in ins], [list(s) for s in shapes], "".join(red) or "-"), (ins, evs, red)

    def build(self, p, st):
        ins, evs, red = st
        rec = []

        class TermT:
            pass

        terms = []
        for k, (names, e) in enumerate(zip(ins, evs)):
            t = TermT()
            t.inputs = OrderedDict((n, Dom(SIZES[n])) for n in names)
            t.shape = self.EVENTS[e]
            t.data = Data("data%d" % k, tuple(SIZES[n] for n in names) + t.shape)
            terms.append(t)

        class OE:
            @staticmethod
            def get_symbol(i):
                return "abcdefghijklmnopqrstuvwxyz"[i]

            @staticmethod
            def contract(equation, *operands, backend=None):
                rec.append((equation, operands, backend))
                return Data(("einsum", equation), ())

        def broadcast_shape(*shapes):
            return spec_broadcast(shapes)

        made = []

        def Tensor(data, inputs):
            made.append((data, inputs))
            return ("Tensor", len(made) - 1)

        ns = dict(opt_einsum=OE, itertools=itertools, functools=functools, defaultdict=defaultdict, OrderedDict=OrderedDict, broadcast_shape=broadcast_shape, Tensor=Tensor, map=map, next=next, enumerate=enumerate, len=len, tuple=tuple, range=range)
        reduced = frozenset(VarT(n) for n in red)
        return Ctx(args=(reduced, tuple(terms), "BACKEND"), namespace=ns, rec=rec, made=made, terms=terms, st=st)

    def ensures(self, ctx, result):
        ins, evs, red = ctx.st
        shapes = [self.EVENTS[e] for e in evs]
        if len(ctx.rec) != 1 or len(ctx.made) != 1 or result != ("Tensor", 0):
            return [("one_einsum_call_one_tensor", False)]
        equation, operands, backend = ctx.rec[0]
        lhs, out = equation.split("->")
        parts = lhs.split(",")
        if len(parts) != len(ins):
            return [("one_subscript_group_per_operand", False)]
        union = []
        for names in ins:
            for n in names:
                if n not in union:
                    union.append(n)
        remaining = [n for n in union if n not in red]
        name_sym, ev_sym = {}, {}
        consistent = True
        layout = True
        for pt, names, shp, op, term in zip(parts, ins, shapes, operands, ctx.terms):
            nonunit = [d - len(shp) for d, s in enumerate(shp) if s != 1]
            if len(pt) != len(names) + len(nonunit):
                return [("operand_subscripts_are_inputs_then_nonunit_event_dims", False)]
            for n, s in zip(names, pt):
                if name_sym.setdefault(n, s) != s:
                    consistent = False
            for d, s in zip(nonunit, pt[len(names):]):
                if ev_sym.setdefault(d, s) != s:
                    consistent = False
            exp_shape = tuple(SIZES[n] for n in names) + tuple(s for s in shp if s != 1)
            if op.tag != ("reshape", term.data.tag, exp_shape):
                layout = False
        all_syms = list(name_sym.values()) + list(ev_sym.values())
        distinct = len(set(all_syms)) == len(all_syms)
        event_shape = spec_broadcast(shapes)
        exp_out = [name_sym.get(n) for n in remaining] + [ev_sym[d] for d in range(-len(event_shape), 0) if d in ev_sym]
        data, inputs = ctx.made[0]
        exp_final = tuple(SIZES[n] for n in remaining) + event_shape
        return [
            ("operand_subscripts_are_inputs_then_nonunit_event_dims", True),
            ("one_symbol_per_name_and_per_right_aligned_event_dim", consistent),
            ("symbols_pairwise_distinct", distinct),
            ("output_keeps_exactly_the_unreduced_inputs_then_event_dims", list(out) == exp_out),
            ("operands_reshaped_without_unit_event_dims", layout),
            ("result_reshaped_and_typed_by_the_remaining_inputs", data.tag == ("reshape", ("einsum", equation), exp_final) and list(inputs) == remaining and backend == "BACKEND"),
        ]


# ==================================================================================================
# C08 / C09: the einsum front ends of funsor/einsum/__init__.py -- which dims are summed, which are plate products
# ==================================================================================================
class OpT:
    def __init__(self, name):
        self.name = name

    def __call__(self, a, b):
        return ("bin", self.name, a, b)

    def __repr__(self):
        return self.name


SUMOP, PRODOP = OpT("sum_op"), OpT("prod_op")


class TermE:
    def __init__(self, k, dims):
        self.k = k
        self.inputs = OrderedDict((d, "dom_" + d) for d in dims)

    def __repr__(self):
        return "term%d" % self.k


class FunsorE:
    @staticmethod
    def __sym_instancecheck__(x):
        return isinstance(x, TermE)


EQNS = ["a,ab->b", "ab,bc->ac", "a,a->", "ab,b->ab", "abc,c->", "a->a", "ab,ab,b->a", "ai,abi,b->", "ai,bi->i"]


class _Einsum(Contract):
    props = ("C08",)
    file = "funsor/einsum/__init__.py"
    total = True

    def terms_of(self, eqn):
        ins = eqn.split("->")[0].split(",")
        return tuple(TermE(k, d) for k, d in enumerate(ins))

    def common_ns(self, rec):
        class VarE:
            def __init__(self, name, dom):
                self.name, self.dom = name, dom

            def __eq__(self, o):
                return isinstance(o, VarE) and (o.name, o.dom) == (self.name, self.dom)

            def __hash__(self):
                return hash((self.name, self.dom))

        return dict(BACKEND_OPS={"numpy": (SUMOP, PRODOP)}, Funsor=FunsorE, Variable=VarE, isinstance=core.sisinstance, frozenset=frozenset, str=str, len=len, all=core.sall, ValueError=ValueError, NotImplementedError=NotImplementedError), VarE


@register
class NaiveContractEinsum(_Einsum):
    """naive_contract_einsum(eqn, *terms, backend): Contraction(sum_op, prod_op, R, *terms) of the backend's semiring with R the
    variables (typed by the terms' inputs) for exactly the symbols that occur in some input and not in the output."""

    qualname = "naive_contract_einsum"
    mutants = (("output dims reduced instead", "for k in input_dims - output_dims", "for k in output_dims"),)

    def structures(self, tier):
        for e in EQNS[:7]:
            yield "eqn=%s" % e, e

    def build(self, p, eqn):
        rec = []
        ns, VarE = self.common_ns(rec)
        ns["Contraction"] = lambda s, pr, rv, *ts: ("Contraction", s, pr, rv, ts)
        terms = self.terms_of(eqn)
        return Ctx(args=(eqn,) + terms, kwargs=dict(backend="numpy"), namespace=ns, eqn=eqn, terms=terms, VarE=VarE)

    def ensures(self, ctx, result):
        ins, out = ctx.eqn.split("->")
        red = set("".join(ins.split(","))) - set(out)
        exp = frozenset(ctx.VarE(d, "dom_" + d) for d in red)
        return [("contraction_over_exactly_the_symbols_absent_from_the_output", result == ("Contraction", SUMOP, PRODOP, exp, ctx.terms))]


@register
class NaiveEinsum(_Einsum):
    """naive_einsum(eqn, *terms, backend): the prod_op-fold of the terms (left to right), sum_op-reduced over exactly the
    symbols that occur in some input and not in the output."""

    qualname = "naive_einsum"
    mutants = (("reduces every input symbol", "    reduce_dims = input_dims - output_dims", "    reduce_dims = input_dims"),)

    def structures(self, tier):
        for e in EQNS[:7]:
            yield "eqn=%s" % e, e

    def build(self, p, eqn):
        ns, VarE = self.common_ns([])

        class Folded:
            def __init__(self, t):
                self.t = t

            def reduce(self, op, dims):
                return ("reduce", op, frozenset(dims), self.t)

        def reduce_(op, seq):
            seq = list(seq)
            acc = seq[0]
            for x in seq[1:]:
                acc = op(acc, x)
            return Folded(acc)

        ns["reduce"] = reduce_
        terms = self.terms_of(eqn)
        return Ctx(args=(eqn,) + terms, kwargs=dict(backend="numpy"), namespace=ns, eqn=eqn, terms=terms)

    def ensures(self, ctx, result):
        ins, out = ctx.eqn.split("->")
        red = frozenset(set("".join(ins.split(","))) - set(out))
        acc = ctx.terms[0]
        for t in ctx.terms[1:]:
            acc = ("bin", "prod_op", acc, t)
        return [("product_of_all_terms_summed_over_the_symbols_absent_from_the_output", result == ("reduce", SUMOP, red, acc))]


@register
class NaivePlatedEinsum(_Einsum):
    """naive_plated_einsum(eqn, *terms, plates, backend): without plates it is naive_einsum; with plates it is
    sum_product(sum_op, prod_op, terms, eliminate, plates) where eliminate = (plate symbols absent from the output, which are
    product-reduced) + (non-plate input symbols absent from the output, which are sum-reduced) -- callee contract
    SumProductFold / PartialSumProduct -- and an output plate that some input lacks is refused (NotImplementedError)."""

    props = ("C08", "C09")
    qualname = "naive_plated_einsum"
    mutants = (("output plates eliminated too", "    plate_dims = frozenset(plates) - output_dims", "    plate_dims = frozenset(plates)"),)

    def structures(self, tier):
        for e in EQNS:
            for plates in ("", "i", "b"):
                yield "eqn=%s,plates=%s" % (e, plates or "-"), (e, plates)

    def build(self, p, st):
        eqn, plates = st
        ns, VarE = self.common_ns([])
        ns["naive_einsum"] = lambda e, *ts, **kw: ("naive_einsum", e, ts, tuple(sorted(kw.items())))
        ns["sum_product"] = lambda s, pr, ts, elim, pl: ("sum_product", s, pr, tuple(ts), frozenset(elim), frozenset(pl))
        terms = self.terms_of(eqn)
        return Ctx(args=(eqn,) + terms, kwargs=dict(backend="numpy", plates=plates), namespace=ns, st=st, terms=terms)

    def refused(self, st):
        eqn, plates = st
        ins, out = eqn.split("->")
        return bool(plates) and not all((set(out) & set(plates)) <= set(i) for i in ins.split(","))

    def may_raise(self, ctx, etype):
        return self.refused(ctx.st) and etype == "NotImplementedError"

    def allow_vacuous(self, st):
        return self.refused(st)

    def ensures(self, ctx, result):
        eqn, plates = ctx.st
        ins, out = eqn.split("->")
        if not plates:
            return [("no_plates_is_plain_einsum", result == ("naive_einsum", eqn, ctx.terms, (("backend", "numpy"),)))]
        sym = set("".join(ins.split(",")))
        elim = frozenset((set(plates) - set(out)) | (sym - set(out) - set(plates)))
        return [("returns_only_when_output_plates_are_in_every_input", not self.refused(ctx.st)), ("eliminates_reduced_plates_and_summed_symbols", result == ("sum_product", SUMOP, PRODOP, ctx.terms, elim, frozenset(plates)))]


@register
class EinsumFrontEnd(_Einsum):
    """einsum(eqn, *terms, **kwargs): builds naive_plated_einsum(eqn, *terms, **kwargs) under the lazy interpretation (entered
    and left exactly once) and returns apply_optimizer of that term -- value preservation is then the contracts of the
    optimizer's rules (UnfoldContractionGenericTuple, OptimizeContract)."""

    props = ("C08", "C09")
    qualname = "einsum"

    def structures(self, tier):
        yield "eqn=ab,bc->ac,plates=-", ("ab,bc->ac", "")
        yield "eqn=ai,bi->i,plates=i", ("ai,bi->i", "i")

    def build(self, p, st):
        eqn, plates = st
        log = []

        class Lazy:
            def __enter__(self_):
                log.append("enter-lazy")

            def __exit__(self_, *a):
                log.append("exit-lazy")
                return False

        def npe(e, *ts, **kw):
            log.append("build")
            return ("naive_plated_einsum", e, ts, tuple(sorted(kw.items())))

        def apply_optimizer(x):
            log.append("optimize")
            return ("optimized", x)

        terms = self.terms_of(eqn)
        kw = dict(backend="numpy", plates=plates) if plates else dict(backend="numpy")
        return Ctx(args=(eqn,) + terms, kwargs=kw, namespace=dict(lazy=Lazy(), naive_plated_einsum=npe, apply_optimizer=apply_optimizer), log=log, st=st, terms=terms, kw=kw)

    def ensures(self, ctx, result):
        eqn, plates = ctx.st
        return [("lazy_build_then_optimize", ctx.log == ["enter-lazy", "build", "exit-lazy", "optimize"] and result == ("optimized", ("naive_plated_einsum", eqn, ctx.terms, tuple(sorted(ctx.kw.items())))))]
