"""C08 / C02 / C01: funsor/cnf.py:_eager_contract_tensors -- the einsum bookkeeping behind every eager tensor contraction
(sum-product of Tensors under (add, mul) and (logaddexp, add)).  The einsum back end itself is third party (opt_einsum +
numpy / the log-space back ends, compared with a numpy oracle by the bounded tier); what is proved here is that the EQUATION
handed to it says the right thing:
  * every named input gets one symbol, the same in every operand and in the output, distinct from every other name's;
  * event dims are right-aligned (numpy broadcasting): the event dim at distance d from the right gets one symbol, shared
    by every operand whose size there is not 1, distinct from all name symbols; size-1 event dims get no subscript and the
    operand's data is reshaped without them (so they broadcast);
  * each operand's subscripts are its input symbols in ITS OWN input order followed by its non-unit event symbols;
  * the output subscripts are the inputs that are not reduced (first-appearance order) followed by the event symbols present
    in some operand -- so exactly the reduced names are summed, nothing else;
  * the result is reshaped to (sizes of the remaining inputs) + (broadcast event shape) and wrapped with those inputs.
opt_einsum.get_symbol is modelled as an injective enumeration.
structure bound: <= 3 operands over names u, v, w in any order, event shapes of rank <= 2 with unit dims."""
import itertools
from collections import OrderedDict, defaultdict
import functools

from pyvc import core
from pyvc.contract import Contract, Ctx, register


class Dom:
    def __init__(self, size):
        self.size = self.dtype = size


class VarT:
    def __init__(self, name):
        self.name = name

    def __hash__(self):
        return hash(self.name)

    def __eq__(self, o):
        return isinstance(o, VarT) and o.name == self.name


class Data:
    def __init__(self, tag, shape):
        self.tag, self.shape = tag, tuple(shape)

    def reshape(self, shape):
        return Data(("reshape", self.tag, tuple(shape)), tuple(shape))


SIZES = {"u": 2, "v": 3, "w": 4}


def spec_broadcast(shapes):
    n = max((len(s) for s in shapes), default=0)
    out = []
    for d in range(-n, 0):
        sz = 1
        for s in shapes:
            if -d <= len(s) and s[d] != 1:
                sz = s[d]
        out.append(sz)
    return tuple(out)


@register
class EagerContractTensors(Contract):
    __doc__ = __doc__

    props = ("C08", "C02", "C01")
    file = "funsor/cnf.py"
    qualname = "_eager_contract_tensors"
    total = True
    mutants = (
        ("event dims numbered from the left", "symbols[i - len(term.shape)]", "symbols[i]"),
        ("unit event dims keep a subscript", "                if size != 1\n", ""),
        ("reduced names kept in the output", "        inputs.pop(var.name, None)\n", "        pass\n"),
    )

    EVENTS = [(), (5,), (1,), (5, 6), (1, 6), (5, 1), (6,)]

    def structures(self, tier):
        pools = ["", "u", "uv", "vu", "vw"]
        for n in (1, 2, 3):
            for ins in itertools.product(pools, repeat=n):
                if tier == "quick" and ((n == 3 and (len(set(ins)) > 2 or sum(map(len, ins)) > 4)) or (n == 2 and sum(map(len, ins)) > 3)):
                    continue
                for evs in itertools.product(range(len(self.EVENTS)), repeat=n):
                    shapes = [self.EVENTS[e] for e in evs]
                    # well-typed: event shapes broadcast together
                    ok = True
                    for d in (-1, -2):
                        szs = {s[d] for s in shapes if -d <= len(s) and s[d] != 1}
                        ok = ok and len(szs) <= 1
                    if not ok or (tier == "quick" and ((n == 2 and sum(len(s) for s in shapes) > 3) or (n == 3 and sum(len(s) for s in shapes) > 2))):
                        continue
                    used = sorted(set("".join(ins)))
                    for r in range(0, len(used) + 1):
                        for red in itertools.combinations(used, r):
                            if tier == "quick" and n == 3 and len(red) not in (0, len(used)):
                                continue
                            yield "operands=%s,events=%s,reduced=%s" % ([i or "-" for i in ins], [list(s) for s in shapes], "".join(red) or "-"), (ins, evs, red)

    def build(self, p, st):
        ins, evs, red = st
        rec = []

        class TermT:
            pass

        terms = []
        for k, (names, e) in enumerate(zip(ins, evs)):
            t = TermT()
            t.inputs = OrderedDict((n, Dom(SIZES[n])) for n in names)
            t.shape = self.EVENTS[e]
            t.data = Data("data%d" % k, tuple(SIZES[n] for n in names) + t.shape)
            terms.append(t)

        class OE:
            @staticmethod
            def get_symbol(i):
                return "abcdefghijklmnopqrstuvwxyz"[i]

            @staticmethod
            def contract(equation, *operands, backend=None):
                rec.append((equation, operands, backend))
                return Data(("einsum", equation), ())

        def broadcast_shape(*shapes):
            return spec_broadcast(shapes)

        made = []

        def Tensor(data, inputs):
            made.append((data, inputs))
            return ("Tensor", len(made) - 1)

        ns = dict(opt_einsum=OE, itertools=itertools, functools=functools, defaultdict=defaultdict, OrderedDict=OrderedDict, broadcast_shape=broadcast_shape, Tensor=Tensor, map=map, next=next, enumerate=enumerate, len=len, tuple=tuple, range=range)
        reduced = frozenset(VarT(n) for n in red)
        return Ctx(args=(reduced, tuple(terms), "BACKEND"), namespace=ns, rec=rec, made=made, terms=terms, st=st)

    def ensures(self, ctx, result):
        ins, evs, red = ctx.st
        shapes = [self.EVENTS[e] for e in evs]
        if len(ctx.rec) != 1 or len(ctx.made) != 1 or result != ("Tensor", 0):
            return [("one_einsum_call_one_tensor", False)]
        equation, operands, backend = ctx.rec[0]
        lhs, out = equation.split("->")
        parts = lhs.split(",")
        if len(parts) != len(ins):
            return [("one_subscript_group_per_operand", False)]
        union = []
        for names in ins:
            for n in names:
                if n not in union:
                    union.append(n)
        remaining = [n for n in union if n not in red]
        name_sym, ev_sym = {}, {}
        consistent = True
        layout = True
        for pt, names, shp, op, term in zip(parts, ins, shapes, operands, ctx.terms):
            nonunit = [d - len(shp) for d, s in enumerate(shp) if s != 1]
            if len(pt) != len(names) + len(nonunit):
                return [("operand_subscripts_are_inputs_then_nonunit_event_dims", False)]
            for n, s in zip(names, pt):
                if name_sym.setdefault(n, s) != s:
                    consistent = False
            for d, s in zip(nonunit, pt[len(names):]):
                if ev_sym.setdefault(d, s) != s:
                    consistent = False
            exp_shape = tuple(SIZES[n] for n in names) + tuple(s for s in shp if s != 1)
            if op.tag != ("reshape", term.data.tag, exp_shape):
                layout = False
        all_syms = list(name_sym.values()) + list(ev_sym.values())
        distinct = len(set(all_syms)) == len(all_syms)
        event_shape = spec_broadcast(shapes)
        exp_out = [name_sym.get(n) for n in remaining] + [ev_sym[d] for d in range(-len(event_shape), 0) if d in ev_sym]
        data, inputs = ctx.made[0]
        exp_final = tuple(SIZES[n] for n in remaining) + event_shape
        return [
            ("operand_subscripts_are_inputs_then_nonunit_event_dims", True),
            ("one_symbol_per_name_and_per_right_aligned_event_dim", consistent),
            ("symbols_pairwise_distinct", distinct),
            ("output_keeps_exactly_the_unreduced_inputs_then_event_dims", list(out) == exp_out),
            ("operands_reshaped_without_unit_event_dims", layout),
            ("result_reshaped_and_typed_by_the_remaining_inputs", data.tag == ("reshape", ("einsum", equation), exp_final) and list(inputs) == remaining and backend == "BACKEND"),
        ]
