"""C01/C02/C08: terms._reduce_unrelated_vars against law L3 (lemmas/semiring.py): reducing over variables the operand
does not mention.  The operand is opaque; its arithmetic (arg * n, arg ** n, arg + x) and .reduce are recorded."""
import itertools

import z3

from pyvc import core
from pyvc.contract import Contract, Ctx, register
from pyvc.core import SV, And, Declined, deep_eq

LOGF = z3.Function("log", z3.RealSort(), z3.RealSort())


class OpTok:
    def __init__(self, name, fn=None):
        self.name, self.fn = name, fn

    def __call__(self, *a):
        if self.fn is None:
            raise core.Unsupported("op %s applied" % self.name)
        return self.fn(*a)

    def __repr__(self):
        return "ops." + self.name


class VarT:
    def __init__(self, name, size, real=False):
        self.name = name
        self.dtype = "real" if real else size

        class Out:
            pass

        self.output = Out()
        self.output.size = size
        self.output.num_elements = 1


class Rec:
    """opaque operand recording what is done to it"""

    def __init__(self, tag, input_vars=frozenset()):
        self.tag, self.input_vars = tag, input_vars

    def _bin(self, op, o):
        return Rec((op, self.tag, o))

    def __mul__(self, o):
        return self._bin("mul", o)

    def __pow__(self, o):
        return self._bin("pow", o)

    def __add__(self, o):
        return self._bin("add", o)

    def reduce(self, op, vs):
        return Rec(("reduce", self.tag, op, frozenset(vs)))


OPS = {n: OpTok(n) for n in ("add", "mul", "max", "min", "logaddexp", "and_", "or_", "sample", "xor")}


class OpsNS:
    pass


for _n, _o in OPS.items():
    setattr(OpsNS, _n, _o)
OpsNS.mul = OPS["mul"]
OPS["mul"].fn = lambda a, b: a * b
OPS["pow"] = OpTok("pow", lambda a, b: a ** b)
OpsNS.pow = OPS["pow"]


class P2P(dict):
    pass


class MathNS:
    @staticmethod
    def log(x):
        if isinstance(x, SV):
            return SV(LOGF(z3.ToReal(x.e)))
        import math

        return math.log(x)


@register
class ReduceUnrelatedVars(Contract):
    """_reduce_unrelated_vars(op, arg, reduced_vars) with U = reduced_vars - arg.input_vars the unrelated variables and
    n = product of their (bounded-integer) sizes:
      U empty          -> (arg, names of reduced_vars)   [nothing to do]
      op add           -> arg * n reduced over the related variables            (law L3, PRODUCT_TO_POWER[add] = mul)
      op mul           -> arg ** n reduced over the related variables           (PRODUCT_TO_POWER[mul] = pow)
      op logaddexp     -> arg + log n reduced over the related variables        (L3_logaddexp_scale)
      op max/min/and/or-> arg reduced over the related variables, unscaled      (idempotent: L3 idempotent case)
      any other op     -> raises NotImplementedError (declines, never a wrong scale)
    and the second component is None in the scaled cases. structure bound: <= 2 related and <= 2 unrelated variables."""

    props = ("C01", "C02", "C08")
    file = "funsor/terms.py"
    qualname = "_reduce_unrelated_vars"
    mutants = (
        ("logaddexp scaled by n instead of log n (the pinned-tree defect)", "arg = arg + math.log(multiplicity)", "arg = arg + multiplicity"),
        ("idempotent ops scaled", "if op in (ops.max, ops.min, ops.and_, ops.or_):\n            pass", "if op in (ops.and_, ops.or_):\n            pass"),
        ("related variables dropped from the reduction", "return arg.reduce(op, reduced_vars), None", "return arg.reduce(op, factor_vars), None"),
    )

    def structures(self, tier):
        for opn in ("add", "mul", "logaddexp", "max", "min", "and_", "or_", "xor"):
            for nrel in (0, 1, 2):
                for nun in (0, 1, 2):
                    yield "op=%s,related=%d,unrelated=%d" % (opn, nrel, nun), (opn, nrel, nun)

    def build(self, p, st):
        opn, nrel, nun = st
        rel = [VarT("r%d" % i, p.fresh_int("rs%d" % i)) for i in range(nrel)]
        un = [VarT("u%d" % i, p.fresh_int("us%d" % i)) for i in range(nun)]
        for v in rel + un:
            p.assume(v.output.size >= 1)
        extra = VarT("x", 5)
        arg = Rec("arg", frozenset(rel + [extra]))
        p2p = {OPS["add"]: OPS["mul"], OPS["mul"]: OPS["pow"]}
        OpsNS.PRODUCT_TO_POWER = p2p
        ns = dict(ops=OpsNS, math=MathNS, reduce=__import__("functools").reduce, frozenset=frozenset)
        return Ctx(args=(OPS[opn], arg, frozenset(rel + un)), namespace=ns, rel=rel, un=un, arg=arg, st=st)

    def may_raise(self, ctx, etype):
        opn, nrel, nun = ctx.st
        return opn == "xor" and nun > 0 and etype == "NotImplementedError"

    def allow_vacuous(self, st):
        return st[0] == "xor" and st[2] > 0

    def ensures(self, ctx, result):
        opn, nrel, nun = ctx.st
        res, names = result
        if nun == 0:
            return [("nothing_unrelated_returns_arg_and_names", res is ctx.arg and names == frozenset(v.name for v in ctx.rel))]
        n = 1
        for v in ctx.un:
            n = n * v.output.size
        cl = [("second_component_none", names is None)]
        ok = isinstance(res, Rec) and isinstance(res.tag, tuple) and res.tag[0] == "reduce" and res.tag[2] is core._canon_cls(ctx.args[0]) and res.tag[3] == frozenset(ctx.rel)
        if not ok:
            return cl + [("reduces_over_exactly_the_related_variables", False)]
        cl.append(("reduces_over_exactly_the_related_variables", True))
        inner = res.tag[1]
        if opn in ("max", "min", "and_", "or_"):
            cl.append(("idempotent_unscaled", inner == "arg"))
        elif opn in ("add", "mul"):
            tag = {"add": "mul", "mul": "pow"}[opn]
            good = isinstance(inner, tuple) and inner[0] == tag and inner[1] == "arg"
            cl.append(("scaled_by_the_declared_power_of_n", And(good, deep_eq(inner[2], n)) if good else False))
        elif opn == "logaddexp":
            good = isinstance(inner, tuple) and inner[0] == "add" and inner[1] == "arg" and isinstance(inner[2], SV)
            cl.append(("shifted_by_log_n", SV(inner[2].e == LOGF(z3.ToReal(core._lift(n)))) if good else False))
        else:
            cl.append(("unsupported_op_must_raise", False))
        return cl
