"""C09: the pieces of funsor/sum_product.py within reach of proof: sum_product's final fold and _partition (connected
components of the factor/variable graph).  The elimination loop of partial_sum_product is NOT proved (DESIGN section 1,
bounded tier only)."""
import itertools
from collections import OrderedDict

from pyvc import core
from pyvc.contract import Contract, Ctx, register


class Fac:
    def __init__(self, i, inputs):
        self.i = i
        self.inputs = OrderedDict((k, "dom") for k in inputs)

    def __repr__(self):
        return "f%d%s" % (self.i, list(self.inputs))


class FunsorCls:
    @staticmethod
    def __sym_instancecheck__(x):
        return isinstance(x, Fac)


@register
class SumProductFold(Contract):
    """sum_product(...): the product (prod_op) of the factors returned by partial_sum_product called with the same
    arguments in the same order, folded left to right starting from the unit of prod_op (so an empty list yields the
    unit) -- prod_op and the factors are opaque."""

    props = ("C09",)
    file = "funsor/sum_product.py"
    qualname = "sum_product"
    total = True
    mutants = (("starts from the sum's unit", "Number(UNITS[prod_op])", "Number(UNITS[sum_op])"),)

    def structures(self, tier):
        for n in range(0, 4):
            yield "partial_results=%d" % n, n

    def build(self, p, n):
        calls = []
        parts = ["r%d" % i for i in range(n)]

        def psp(*a):
            calls.append(a)
            return list(parts)

        prod = lambda a, b: ("prod", a, b)
        ns = dict(partial_sum_product=psp, reduce=__import__("functools").reduce, Number=lambda v: ("Number", v), UNITS={prod: "unit-of-prod", "sum": "unit-of-sum"})
        args = ("sum", prod, ["f0", "f1"], frozenset(["e"]), frozenset(["p"]), True, "pow", {"p": 2})
        return Ctx(args=args, namespace=ns, calls=calls, parts=parts, a=args)

    def ensures(self, ctx, result):
        exp = ("Number", "unit-of-prod")
        for r in ctx.parts:
            exp = ("prod", exp, r)
        return [("delegates_with_the_same_arguments", ctx.calls == [ctx.a]), ("left_fold_from_the_product_unit", result == exp)]


def components_spec(terms, sum_vars):
    parent = {}

    def find(x):
        while parent.setdefault(x, x) != x:
            x = parent[x]
        return x

    for t in terms:
        find(("t", t.i))
        for v in t.inputs:
            if v in sum_vars:
                parent[find(("t", t.i))] = find(("v", v))
    groups = {}
    for t in terms:
        groups.setdefault(find(("t", t.i)), [set(), set()])[0].add(t.i)
        for v in t.inputs:
            if v in sum_vars:
                groups[find(("t", t.i))][1].add(v)
    return sorted((sorted(a), sorted(b)) for a, b in groups.values())


@register
class Partition(Contract):
    """_partition(terms, sum_vars): the connected components of the bipartite term/variable graph restricted to sum_vars:
    every term lies in exactly one component, two terms sharing a summed variable lie in the same one, and each component
    lists exactly the summed variables of its terms (checked against an independent union-find).
    structure bound: every incidence pattern of <= 3 terms (4) over <= 3 variables, every subset of summed variables."""

    props = ("C09", "C08")
    file = "funsor/sum_product.py"
    qualname = "_partition"
    total = True
    mutants = (("neighbours of a variable not followed", "            for v in neighbors.pop(v):", "            for v in neighbors.pop(v)[:1]:"),)

    def structures(self, tier):
        nt = 3 if tier == "quick" else 4
        vs = "xyz"
        subsets = [tuple(c) for r in range(0, 4) for c in itertools.combinations(vs, r)]
        for n in range(1, nt + 1):
            for inc in itertools.product(subsets, repeat=n):
                for sv in ([("x", "y", "z")] if tier == "quick" else [("x", "y", "z"), ("x",), ("x", "z"), ()]):
                    yield "terms=%s,sum_vars=%s" % (["".join(i) for i in inc], "".join(sv)), (inc, sv)

    def build(self, p, st):
        inc, sv = st
        terms = [Fac(i, inp) for i, inp in enumerate(inc)]
        ns = dict(OrderedDict=OrderedDict, Funsor=FunsorCls, isinstance=core.sisinstance, frozenset=frozenset, tuple=tuple)
        return Ctx(args=(terms, frozenset(sv)), namespace=ns, terms=terms, sv=sv)

    def ensures(self, ctx, result):
        got = sorted((sorted(t.i for t in ts), sorted(ds)) for ts, ds in result)
        return [("connected_components", got == components_spec(ctx.terms, set(ctx.sv)))]
