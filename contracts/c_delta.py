"""C14 (and C19 for align): structural contracts on funsor/delta.py Delta -- typing of a point mass, re-alignment, and the
substitution cases (renaming; evaluation at a ground value = log-density at the point, -inf elsewhere, expressed as
log(all(value == point)) + log_density).  Points, values and densities are opaque terms recording what is done to them."""
import itertools
from collections import OrderedDict

from pyvc import core
from pyvc.contract import Contract, Ctx, register

from .c_terms import make_super


class Tm:
    """opaque funsor recording arithmetic"""

    def __init__(self, label, inputs=(), output="dom", real_inputs=False):
        self.label, self.output = label, output
        self.inputs = OrderedDict((k, Dm(k, real_inputs)) for k in inputs)

    __overloaded_eq__ = True

    def __eq__(self, o):
        return Rec(("eq", self, o))

    __hash__ = object.__hash__

    def __add__(self, o):
        return Rec(("add", self, o))

    def __repr__(self):
        return self.label


class Dm:
    """the domain of input `name` (equal iff same name)"""

    def __init__(self, name, real=False):
        self.name, self.dtype = name, "real" if real else 3

    def __eq__(self, o):
        return isinstance(o, Dm) and o.name == self.name

    def __hash__(self):
        return hash(self.name)

    def __repr__(self):
        return "dom_" + self.name


class Rec(Tm):
    def __init__(self, tag):
        Tm.__init__(self, "rec")
        self.tag = tag

    def all(self):
        return Rec(("all", self.tag))

    def log(self):
        return Rec(("log", self.tag))

    def __add__(self, o):
        return Rec(("add", self.tag, o.tag if isinstance(o, Rec) else o))


class VarT(Tm):
    def __init__(self, name, output="dom"):
        Tm.__init__(self, "Var:" + name, [name], output)
        self.name = name


def ident_eq(a, b):
    """structural equality with opaque terms compared by IDENTITY (their == is overloaded and always truthy)"""
    if isinstance(a, Rec) or isinstance(b, Rec):
        return isinstance(a, Rec) and isinstance(b, Rec) and ident_eq(a.tag, b.tag) or (isinstance(a, Rec) and ident_eq(a.tag, b)) or (isinstance(b, Rec) and ident_eq(a, b.tag))
    if isinstance(a, Tm) or isinstance(b, Tm):
        return a is b
    if isinstance(a, (tuple, list)) and isinstance(b, (tuple, list)):
        return len(a) == len(b) and all(ident_eq(x, y) for x, y in zip(a, b))
    return type(a) == type(b) and a == b


class FunsorCls:
    @staticmethod
    def __sym_instancecheck__(x):
        return isinstance(x, Tm)


class VariableCls:
    @staticmethod
    def __sym_instancecheck__(x):
        return isinstance(x, VarT)


REAL = "Real"


@register
class DeltaInit(Contract):
    """Delta.__init__(terms): inputs == for each term in order: its name (typed by the point's output) followed by the
    point's inputs and the log-density's inputs (the Delta's value depends on all of them); output Real; fresh == the
    names; raises if a name repeats, occurs among its own point's inputs, or a log-density is not Real-valued."""

    props = ("C14", "C06")
    file = "funsor/delta.py"
    qualname = "Delta.__init__"
    mutants = (("point inputs before the name", "            inputs.update({name: point.output})\n            inputs.update(point.inputs)", "            inputs.update(point.inputs)\n            inputs.update({name: point.output})"), ("density inputs not declared", "            inputs.update(log_density.inputs)\n", ""))

    def structures(self, tier):
        pts = [(), ("i",), ("x",), ("i", "j")]
        lds = [(), ("i",), ("k",)]
        for n in (1, 2):
            for names in itertools.product("xy", repeat=n):
                for pin in itertools.product(pts, repeat=n):
                    for lin in itertools.product(lds, repeat=n):
                        yield "names=%s,point_inputs=%s,density_inputs=%s" % ("".join(names), list(pin), list(lin)), (names, pin, lin)

    def build(self, p, st):
        names, pin, lin = st
        terms = tuple((nm, (Tm("point_" + nm, inp, Dm(nm)), Tm("ld_" + nm, li, REAL))) for nm, inp, li in zip(names, pin, lin))
        rec = []

        class Self:
            pass

        return Ctx(args=(Self(), terms), namespace=dict(OrderedDict=OrderedDict, Funsor=FunsorCls, Real=REAL, Delta="DeltaCls", isinstance=core.sisinstance), rec=rec, st=st, terms=terms)

    def hooks(self, ctx):
        return {"super": lambda sc, *a: make_super(ctx.rec)}

    def bad(self, st):
        names, pin, lin = st
        seen = []
        for nm, inp, li in zip(names, pin, lin):
            if nm in seen or nm in inp:
                return True
            seen += [nm] + list(inp) + list(li)
        return False

    def may_raise(self, ctx, etype):
        return self.bad(ctx.st)

    def allow_vacuous(self, st):
        return self.bad(st)

    def ensures(self, ctx, result):
        names, pin, lin = ctx.st
        exp = []
        for nm, inp, li in zip(names, pin, lin):
            for k in (nm,) + tuple(inp) + tuple(li):
                if k not in exp:
                    exp.append(k)
        inputs, output, fresh, bound = ctx.rec[0][1]
        return [("well_formed_when_returns", not self.bad(ctx.st)), ("inputs_names_then_point_and_density_inputs", list(inputs) == exp and all(inputs[nm] == Dm(nm) for nm in exp)), ("output_real_fresh_names", output == REAL and fresh == frozenset(names) and bound == {})]


@register
class DeltaAlign(Contract):
    """Delta.align(names): the same terms (same points and densities) reordered so that the named variables come in the
    requested order; returns self when nothing moves."""

    props = ("C19", "C14")
    file = "funsor/delta.py"
    qualname = "Delta.align"
    total = True
    mutants = (("points permuted independently of names", "new_terms = tuple(sorted(self.terms, key=lambda t: names.index(t[0])))", "new_terms = tuple((n, t[1]) for n, t in zip(names, self.terms))"),)

    def structures(self, tier):
        for n in (1, 2, 3):
            for perm in itertools.permutations("xyz"[:n]):
                yield "terms=%s,names=%s" % ("xyz"[:n], "".join(perm)), ("xyz"[:n], perm)
        yield "names-empty", ("xy", ())

    def build(self, p, st):
        names, perm = st
        terms = tuple((nm, (Tm("point_" + nm), Tm("ld_" + nm))) for nm in names)

        class Self:
            pass

        s = Self()
        s.terms, s.fresh = terms, frozenset(names)
        return Ctx(args=(s, tuple(perm)), namespace=dict(Delta=lambda t: ("Delta", t), sorted=sorted), s=s, st=st)

    def ensures(self, ctx, result):
        names, perm = ctx.st
        if not perm or tuple(perm) == tuple(names):
            return [("nothing_to_move_returns_self", result is ctx.s)]
        byname = dict(ctx.s.terms)
        return [("terms_reordered_points_stay_with_their_names", ident_eq(result, ("Delta", tuple((nm, byname[nm]) for nm in perm))))]


@register
class DeltaEagerSubs(Contract):
    """Delta.eager_subs(subs) (cases without real-valued inputs, i.e. no inversion needed):
      a Variable value renames the term (point and density kept);
      a ground/discrete value v replaces the term by the indicator log-density log(all(v == point)) + log_density -- the
        Delta evaluates to its log-density at the point and to -inf elsewhere;
      unsubstituted terms are kept in order; the result is Delta(remaining) + sum of the indicator densities (either part may
      be absent)."""

    props = ("C14",)
    file = "funsor/delta.py"
    qualname = "Delta.eager_subs"
    total = True
    mutants = (("renamed term dropped", "                    new_terms.append((value.name, (point, log_density)))\n                    continue", "                    continue"), ("density of the point forgotten", "log_densities.append(is_equal.log() + log_density)", "log_densities.append(is_equal.log())"))

    KINDS = ["-", "var", "value"]

    def structures(self, tier):
        for n in (1, 2):
            for ks in itertools.product(self.KINDS, repeat=n):
                if all(k == "-" for k in ks):
                    continue
                yield "terms=%s,subs=%s" % ("xy"[:n], ",".join(ks)), ks

    def build(self, p, ks):
        names = "xy"[: len(ks)]
        terms = tuple((nm, (Tm("point_" + nm, (), "dom_" + nm), Tm("ld_" + nm))) for nm in names)
        subs = []
        for nm, k in zip(names, ks):
            if k == "var":
                subs.append((nm, VarT("new_" + nm, "dom_" + nm)))
            elif k == "value":
                subs.append((nm, Tm("value_" + nm, (), "dom_" + nm)))

        class Self:
            pass

        s = Self()
        s.terms = terms

        class OpsNS:
            add = "add"

            @staticmethod
            def astype(x, dtype):
                return Rec(("astype", x.tag, dtype))

        ns = dict(OrderedDict=OrderedDict, Variable=VariableCls, isinstance=core.sisinstance, get_default_dtype=lambda: "float", ops=OpsNS, Delta=lambda t: Rec(("Delta", t)),
                  reduce=lambda f, xs: Rec(("sum",) + tuple(x.tag for x in xs)), solve=lambda v, pt: None, any=core.sany)
        return Ctx(args=(s, tuple(subs)), namespace=ns, terms=terms, ks=ks, subs=dict(subs))

    def ensures(self, ctx, result):
        names = "xy"[: len(ctx.ks)]
        new_terms, dens = [], []
        for (nm, (pt, ld)), k in zip(ctx.terms, ctx.ks):
            if k == "var":
                new_terms.append(("new_" + nm, (pt, ld)))
            elif k == "value":
                dens.append(("add", ("log", ("astype", ("all", ("eq", ctx.subs[nm], pt)), "float")), ld))
            else:
                new_terms.append((nm, (pt, ld)))
        if not dens:
            exp = ("Delta", tuple(new_terms))
        elif not new_terms:
            exp = ("sum",) + tuple(dens)
        else:
            exp = ("add", ("Delta", tuple(new_terms)), ("sum",) + tuple(dens))
        return [("renames_or_evaluates_each_substituted_term", isinstance(result, Rec) and ident_eq(result.tag, exp))]
