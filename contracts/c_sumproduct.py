"""Contracts on funsor/sum_product.py Markov-product scans (C10): the integer / index obligations, for EVERY duration.

`trans` is modelled as an abstract sequence of per-step factors: a ghost map k |-> element with a symbolic length; calling
it with time=Slice(..) restricts the sequence (by the proved contract of Slice: position = start + step*k, size =
len(range(start, stop, step))), Contraction of two equally long restrictions is the element-wise monoid product, Cat is
concatenation.  The loop of sequential_sum_product is verified by an inductive invariant (init / preserve / exit) with the
duration symbolic; together with lemma scan.pairing_preserves_fold (lemmas/scan.py) this gives: the result is the left fold
of the step factors, for every duration >= 1.  Assumed contracts (C04, bounded-checked): Funsor.__call__ with a Slice /
renaming, Contraction, Cat, Stack denote what their constructors say."""
from collections import OrderedDict

import z3

from pyvc import core
from pyvc.contract import Contract, Ctx, register
from pyvc.core import SV, And, Declined, If, Implies, Not, Or, Unsupported, deep_eq, truth

from . import models as M
from .c_domains import div_hints
from .c_terms import Iteration, MTerm, SliceM, VariableM, mul_hints
from .models import MDom

E = z3.DeclareSort("Factor")
MUL = z3.Function("compose", E, E, E)  # x·y = sum_op over drop of prod_op(x(curr=drop), y(prev=drop))


class OpM:
    def __init__(self, name):
        self.name = name


class AssociativeOpM:
    @staticmethod
    def __sym_instancecheck__(x):
        return isinstance(x, OpM)


class FunsorM:
    @staticmethod
    def __sym_instancecheck__(x):
        return isinstance(x, MTerm)


class TransM(MTerm):
    """abstract funsor with a time input: ghost element map `at(k)` and symbolic `length`"""

    def __init__(self, at, length, time, others, renames=None, checks=None):
        self.at, self.length, self.time = at, length, time
        self.others = OrderedDict(others)  # name -> domain of the non-time inputs
        self.renames = dict(renames or {})
        self.checks = checks if checks is not None else []
        self.inputs = OrderedDict([(time, MDom(length, ()))] + list(self.others.items()))

    def __call__(self, **kw):
        at, length = self.at, self.length
        ren = dict(self.renames)
        others = OrderedDict(self.others)
        res = None
        for k, v in kw.items():
            if k == self.time:
                if isinstance(v, SliceM):
                    # well-typedness of the substitution (SubsMeta/to_funsor): the slice's dtype is the input's size
                    self.checks.append(("slice_dtype_is_time_size", deep_eq(v.dtype, self.length)))
                    st, sp = v.slice.start, v.slice.step
                    base = at
                    at = (lambda base, st, sp: (lambda k_: base(st + sp * k_)))(base, st, sp)
                    length = v.size
                    res = "slice"
                elif isinstance(v, (int, SV)):
                    self.checks.append(("index_in_range", And(0 <= v, v < self.length)))
                    return ElemM(self.at(v), self.renames)
                else:
                    raise Unsupported("time substituted by %r" % (v,))
            elif k in self.others:
                if not isinstance(v, str):
                    raise Unsupported("non-renaming substitution")
                ren[k] = v
                dom = others.pop(k)
                others[v] = dom
            # names that are not inputs are ignored (Funsor.__call__)
        return TransM(at, length, self.time, others, ren, self.checks)


TransM.__model_class__ = TransM


class ElemM(MTerm):
    def __init__(self, e, renames):
        self.e, self.renames = e, renames


def ContractionM_factory(ctx):
    def Contraction(sum_op, prod_op, drop, x, y):
        ok = isinstance(x, TransM) and isinstance(y, TransM) and isinstance(drop, frozenset)
        if not ok:
            raise Unsupported("Contraction outside the model")
        names = sorted(v.name for v in drop)
        ctx.checks.append(("contraction_pairs_curr_of_x_with_prev_of_y", x.renames == ctx.curr_to_drop and y.renames == ctx.prev_to_drop and names == sorted(set(ctx.curr_to_drop.values()))))
        ctx.checks.append(("contraction_ops", sum_op is ctx.sum_op and prod_op is ctx.prod_op))
        ctx.checks.append(("contracted_operands_equally_long", deep_eq(x.length, y.length)))
        xa, ya = x.at, y.at
        others = OrderedDict((k, v) for k, v in ctx.base_others.items())
        return TransM(lambda k: SV(MUL(xa(k).e, ya(k).e)), x.length, x.time, others, {}, ctx.checks)

    return Contraction


def CatM_factory(ctx):
    def Cat(name, parts, part_name=None):
        a, b = parts
        ctx.checks.append(("cat_along_time", name == ctx.time and a.time == name and b.time == name and not a.renames and not b.renames))
        aa, ba, la = a.at, b.at, a.length
        return TransM(lambda k: SV(z3.If(core._lift(k < la), aa(k).e, ba(k - la).e)), a.length + b.length, name, ctx.base_others, {}, ctx.checks)

    return Cat


@register
class SequentialSumProduct(Contract):
    """sequential_sum_product(sum_op, prod_op, trans, time, step) for EVERY duration >= 1 (loop invariant, duration symbolic):
      invariant  duration == size of trans's time input >= 1  (and, ghost, fold(trans) == fold(trans_0): by the lemma);
      preserve   with d = duration > 1: every Slice is built inside its precondition and typed by the current duration; the
                 two strided restrictions have equal length d//2; new_trans[k] == trans[2k]·trans[2k+1] for k < d//2;
                 if d is odd new_trans[d//2] == trans[d-1]; the new duration (d+1)//2 equals the new length and is < d
                 (termination variant); curr of x is identified with prev of y through the same drop names;
      exit       duration == 1 and the result is trans(time=0), the single remaining factor."""

    props = ("C10",)
    file = "funsor/sum_product.py"
    qualname = "sequential_sum_product"
    timeout_ms = 30000
    mutants = (
        ("odd tail dropped", "if duration > even_duration:", "if False:"),
        ("tail taken one early", "Slice(time, duration - 1, duration)", "Slice(time, duration - 2, duration - 1)"),
        ("pairs overlap", "Slice(time, 1, even_duration, 2, duration)", "Slice(time, 1, even_duration - 1, 2, duration)"),
        ("duration halved by floor", "duration = (duration + 1) // 2", "duration = duration // 2"),
        ("x and y renames swapped", "x = trans(**{time: Slice(time, 0, even_duration, 2, duration)}, **curr_to_drop)", "x = trans(**{time: Slice(time, 0, even_duration, 2, duration)}, **prev_to_drop)"),
    )

    def structures(self, tier):
        yield "step_pairs=1", 1
        yield "step_pairs=2", 2
        yield "step_pairs=2,crossed-names", -2  # prev names sort in the opposite order of their curr names

    def build(self, p, npairs):
        T = p.fresh_int("T")
        p.assume(T >= 1)
        crossed = npairs < 0
        npairs = abs(npairs)
        step = {"p%d" % i: "c%d" % ((npairs - 1 - i) if crossed else i) for i in range(npairs)}
        others = OrderedDict()
        for i in range(npairs):
            n = p.fresh_int("state%d" % i)
            p.assume(n >= 1)
            others["p%d" % i] = MDom(n, ())
            others[step["p%d" % i]] = MDom(n, ())
        F0 = z3.Function("trans0!%d" % next(p.counter), z3.IntSort(), E)
        checks = []
        trans = TransM(lambda k: SV(F0(core._lift(k))), T, "t", others, {}, checks)
        time = VariableM("t", MDom(T, ()))
        sum_op, prod_op = OpM("sum"), OpM("prod")
        drop = tuple("_drop_%d" % i for i in range(npairs))
        ks, vs = sorted(step.keys()), [step[k] for k in sorted(step.keys())]
        ctx = Ctx(args=(sum_op, prod_op, trans, time, step), namespace=None, checks=checks, time="t", T=T, sum_op=sum_op, prod_op=prod_op, base_others=others,
                  prev_to_drop=dict(zip(ks, drop)), curr_to_drop=dict(zip(vs, drop)), p=p, init=None, it=None)
        ctx.namespace = dict(M.DOMAIN_NS, OrderedDict=OrderedDict, AssociativeOp=AssociativeOpM, Funsor=FunsorM, Variable=VariableM, Slice=SliceM, Contraction=ContractionM_factory(ctx), Cat=CatM_factory(ctx))
        return ctx

    def hooks(self, ctx):
        def on_while(interp, s, sc, ordinal):
            p = ctx.path
            tr0, d0 = sc.lookup("trans"), sc.lookup("duration")
            ctx.init = (tr0, d0)
            if p.choose(2, "phase") == 0:  # arbitrary iteration under the invariant
                d = p.fresh_int("d")
                p.assume(d >= 1)
                S = z3.Function("S!%d" % next(p.counter), z3.IntSort(), E)
                tr = TransM(lambda k: SV(S(core._lift(k))), d, "t", ctx.base_others, {}, ctx.checks)
                sc.store("trans", tr)
                sc.store("duration", d)
                if not truth(interp.eval(s.test, sc)):
                    raise core.Infeasible()
                interp.exec_block(s.body, sc)
                raise core._Return(Iteration(kind="step", d=d, S=S, trans=sc.lookup("trans"), duration=sc.lookup("duration")))
            d = p.fresh_int("dexit")
            p.assume(d >= 1)
            S = z3.Function("Sx!%d" % next(p.counter), z3.IntSort(), E)
            tr = TransM(lambda k: SV(S(core._lift(k))), d, "t", ctx.base_others, {}, ctx.checks)
            sc.store("trans", tr)
            sc.store("duration", d)
            if truth(interp.eval(s.test, sc)):
                raise core.Infeasible()
            ctx.exit = (S, d)
            return True

        return {"while": on_while}

    total = True

    def ensures(self, ctx, result):
        tr0, d0 = ctx.init
        cl = [("init_invariant", And(deep_eq(d0, ctx.T), deep_eq(tr0.length, ctx.T), d0 >= 1))]
        for name, f in ctx.checks:
            cl.append((name, f))
        if isinstance(result, Iteration):
            d, S, tr, d2 = result.d, result.S, result.trans, result.duration
            p = ctx.p
            k = p.fresh_int("k")
            half = core.floordiv_pos(d, 2)
            cl += [
                ("preserve_duration_is_length", And(deep_eq(d2, tr.length), d2 >= 1)),
                ("variant_decreases", d2 < d),
                ("new_length_is_ceil_half", d2 * 2 >= d),
                ("pairs_are_adjacent_positions", Implies(And(0 <= k, k < half), tr.at(k).e == MUL(S(core._lift(2 * k)), S(core._lift(2 * k + 1))))),
                ("odd_tail_is_last_position", Implies(core.mod_pos(d, 2) == 1, And(deep_eq(d2, half + 1), tr.at(half).e == S(core._lift(d - 1))))),
                ("even_has_no_tail", Implies(core.mod_pos(d, 2) == 0, deep_eq(d2, half))),
                ("inputs_restored", list(tr.others.items()) == list(ctx.base_others.items()) and not tr.renames),
            ]
            return cl
        S, d = ctx.exit
        ok = isinstance(result, ElemM)
        cl.append(("exit_returns_the_single_remaining_factor", And(d == 1, result.e.e == S(0)) if ok else False))
        return cl

    def hints(self, ctx, path):
        return div_hints(path) + mul_hints(path)


# ==================================================================================================
# mixed_sequential_sum_product: segment arithmetic for every duration and every number of segments
# ==================================================================================================
class FoldResult(MTerm):
    """the (assumed, tier-B checked) result of one of the scan functions: the fold of `trans` over its time input; its value
    is an abstract factor"""

    def __init__(self, kind, trans, timevar, nseg=None):
        self.kind, self.trans, self.timevar, self.nseg = kind, trans, timevar, nseg
        self.val = z3.Const("fold!%d" % next(core.cur().counter), E)


class SymList:
    """[elem(i) for i in range(n)] with symbolic n: a template element for an arbitrary index i"""

    def __init__(self, n, i, elem):
        self.n, self.i, self.elem = n, i, elem


class StackM(MTerm):
    def __init__(self, name, parts):
        self.name, self.parts = name, parts


def stuple(x=()):
    return x if isinstance(x, SymList) else tuple(x)


stuple.__canon__ = tuple


@register
class MixedSequentialSumProduct(Contract):
    """mixed_sequential_sum_product(sum_op, prod_op, trans, time, step, num_segments=n) for EVERY duration d >= 1 and every
    n >= 1 (both symbolic):
      uneven (d mod n != 0 and d - d mod n > 0): with r = d mod n, `initial` = positions [0, d-r) and `remainder` =
        [d-r, d) tile [0, d); the recursive call is made on `initial` with a time variable of size d-r (< d: the measure
        decreases; and n divides d-r, so the recursion does not split again), and the final naive scan runs over the
        sequence [result of the recursive call] ++ remainder of length 1 + r, typed Bint[1 + r];
      n == 1 -> naive scan of trans; n >= d -> parallel scan of trans (same time variable);
      otherwise (then n divides d): L = d // n, segment i (ARBITRARY i in [0, n)) is positions [i*L, (i+1)*L) -- length L,
        element k is position i*L + k -- so the n segments tile [0, d); first stage: naive scan over time of size L of the
        stack of segments; second stage: parallel scan over the n segment results.
    Every Slice is built inside its precondition and typed by the duration. With lemmas scan.segmentwise_fold /
    right_fold_equals_left_fold / pairing_preserves_fold the result is the left fold of the step factors."""

    props = ("C10",)
    file = "funsor/sum_product.py"
    qualname = "mixed_sequential_sum_product"
    timeout_ms = 30000
    total = True
    mutants = (
        ("remainder starts one late", "time, duration - duration % num_segments, duration, 1, duration", "time, duration - duration % num_segments + 1, duration, 1, duration"),
        ("segments overlap", "time, i * segment_length, (i + 1) * segment_length, 1, duration", "time, i * segment_length, (i + 1) * segment_length + 1, 1, duration"),
        ("final scan typed one short", "Variable(time, Bint[1 + duration % num_segments])", "Variable(time, Bint[duration % num_segments])"),
        ("segment length from the remainder", "segment_length = duration // num_segments", "segment_length = duration // (num_segments + 1)"),
    )

    def structures(self, tier):
        yield "num_segments=given", "given"
        yield "num_segments=None", "none"

    def build(self, p, st):
        T = p.fresh_int("T")
        p.assume(T >= 1)
        n = p.fresh_int("nseg")
        p.assume(n >= 1)
        others = OrderedDict([("p0", MDom(3, ())), ("c0", MDom(3, ()))])
        F0 = z3.Function("trans0!%d" % next(p.counter), z3.IntSort(), E)
        checks = []
        trans = TransM(lambda k: SV(F0(core._lift(k))), T, "t", others, {}, checks)
        time = VariableM("t", MDom(T, ()))
        calls = []
        ctx = Ctx(namespace=None, checks=checks, T=T, n=n if st == "given" else T, F0=F0, calls=calls, p=p, time="t", base_others=others, trans=trans, timevar=time, st=st)

        def rec(sum_op, prod_op, tr, tv, step, num_segments=None):
            r = FoldResult("rec", tr, tv, num_segments)
            calls.append(r)
            return r

        def naive(sum_op, prod_op, tr, tv, step):
            r = FoldResult("naive", tr, tv)
            calls.append(r)
            return r

        def seq(sum_op, prod_op, tr, tv, step):
            r = FoldResult("seq", tr, tv)
            calls.append(r)
            return r

        def Cat(name, parts, part_name=None):
            a, b = parts
            ok = isinstance(a, StackM) and isinstance(a.parts, tuple) and len(a.parts) == 1 and isinstance(a.parts[0], FoldResult) and isinstance(b, TransM) and a.name == name == "t"
            if not ok:
                raise Unsupported("Cat outside the model")
            head = a.parts[0]
            ba = b.at
            return TransM(lambda k: SV(z3.If(core._lift(k < 1), head.val, ba(k - 1).e)), 1 + b.length, name, others, {}, checks)

        ctx.namespace = dict(M.DOMAIN_NS, Variable=VariableM, Slice=SliceM, Stack=StackM, Cat=Cat, mixed_sequential_sum_product=rec,
                             naive_sequential_sum_product=naive, sequential_sum_product=seq, tuple=stuple)
        ctx.args = ("sum", "prod", trans, time, {"p0": "c0"})
        ctx.kwargs = {"num_segments": n} if st == "given" else {}
        return ctx

    def hooks(self, ctx):
        def comp(interp, e, sc):
            if len(e.generators) != 1 or e.generators[0].ifs:
                return NotImplemented
            it = interp.eval(e.generators[0].iter, sc)
            if not isinstance(it, core.SymRange):
                return NotImplemented
            p = ctx.path
            i = p.fresh_int("seg_i")
            p.assume(And(it.start <= i, i < it.stop))
            inner = core.Scope(sc)
            interp.assign(e.generators[0].target, i, inner)
            elem = interp.eval(e.elt, inner)
            return SymList(it.stop - it.start if it.start != 0 else it.stop, i, elem)

        return {"comp": comp}

    def ensures(self, ctx, result):
        d, n, F0 = ctx.T, ctx.n, ctx.F0
        p = ctx.p
        cl = list(ctx.checks)
        calls = ctx.calls
        k = p.fresh_int("k")
        r = core.mod_pos(d, n)
        if len(calls) == 1 and calls[0].kind == "naive":
            cl.append(("single_segment_is_naive_scan_of_trans", And(n == 1, calls[0].trans is ctx.trans, calls[0].timevar is ctx.timevar, result is calls[0])))
        elif len(calls) == 1 and calls[0].kind == "seq":
            cl.append(("at_least_duration_segments_is_parallel_scan_of_trans", And(n >= d, calls[0].trans is ctx.trans, calls[0].timevar is ctx.timevar, result is calls[0])))
        elif len(calls) == 2 and calls[0].kind == "rec":
            rc, fin = calls
            ini = rc.trans
            cl += [
                ("uneven_branch_condition", And(r != 0, d - r > 0)),
                ("initial_is_prefix", And(deep_eq(ini.length, d - r), Implies(And(0 <= k, k < d - r), ini.at(k).e == F0(core._lift(k))))),
                ("recursive_call_typed_and_same_segments", And(deep_eq(rc.timevar.output.dtype, d - r), rc.timevar.name == "t", deep_eq(rc.nseg, n))),
                ("measure_decreases_and_divisible", And(d - r < d, d - r >= 1, core.mod_pos(d - r, n) == 0)),
                ("final_scan_is_naive_typed_by_its_length", And(fin.kind == "naive", deep_eq(fin.trans.length, 1 + r), deep_eq(fin.timevar.output.dtype, 1 + r), fin.timevar.name == "t", result is fin)),
                ("final_sequence_is_recursive_result_then_remainder", And(fin.trans.at(0).e == rc.val, Implies(And(1 <= k, k <= r), fin.trans.at(k).e == F0(core._lift(d - r + k - 1))))),
            ]
        elif len(calls) == 2 and calls[0].kind == "naive" and calls[1].kind == "seq":
            first, second = calls
            st_ = first.trans
            ok = isinstance(st_, StackM) and isinstance(st_.parts, SymList) and st_.name == "t__SEGMENTED"
            if not ok:
                return cl + [("first_stage_runs_on_the_stack_of_segments", False)]
            seg, i = st_.parts.elem, st_.parts.i
            L = core.floordiv_pos(d, n)
            cl += [
                ("segment_branch_condition", And(n > 1, n < d, r == 0)),
                ("segments_tile_the_duration", And(deep_eq(st_.parts.n, n), n * L == d)),
                ("segment_i_is_its_interval", And(isinstance(seg, TransM), deep_eq(seg.length, L), Implies(And(0 <= k, k < L), seg.at(k).e == F0(core._lift(i * L + k))))),
                ("first_stage_time_is_segment_length", And(deep_eq(first.timevar.output.dtype, L), first.timevar.name == "t")),
                ("second_stage_over_segment_results", And(second.trans is first, second.timevar.name == "t__SEGMENTED", deep_eq(second.timevar.output.dtype, n), result is second)),
            ]
        else:
            cl.append(("recognised_branch", False))
        return cl

    def hints(self, ctx, path):
        return div_hints(path) + mul_hints(path)



@register
class EagerMarkovProduct(Contract):
    """eager_markov_product(sum_op, prod_op, trans, time, step, step_names): with a non-empty step the result is ALWAYS the
    scan sequential_sum_product(sum_op, prod_op, trans, time, dict(step)) (whether or not trans depends on time) renamed by
    step_names; with an empty step: the prod_op-reduction over time if trans depends on time, else the time-fold of a
    constant factor (law L3: trans * T for add, trans ** T for mul, T the size of the time domain) or an error -- never the
    elementwise power when there is a step."""

    props = ("C10",)
    file = "funsor/sum_product.py"
    qualname = "eager_markov_product"
    mutants = (("time-independent shortcut taken before looking at step", "    if step:\n        result = sequential_sum_product(sum_op, prod_op, trans, time, dict(step))\n    elif time.name in trans.inputs:", "    if step and time.name in trans.inputs:\n        result = sequential_sum_product(sum_op, prod_op, trans, time, dict(step))\n    elif time.name in trans.inputs:"),)

    def structures(self, tier):
        for has_step in (True, False):
            for dep in (True, False):
                for op in ("add", "mul", "max"):
                    yield "step=%s,trans_depends_on_time=%s,prod=%s" % (has_step, dep, op), (has_step, dep, op)

    def build(self, p, st):
        has_step, dep, op = st
        T = p.fresh_int("T")
        p.assume(T >= 1)

        class Tr(MTerm):
            inputs = OrderedDict([("t", MDom(T, ()))] if dep else [])

            def reduce(self, o, name):
                return ("reduce", self, o, name)

            def __mul__(self, o):
                return ("mul", self, o)

            def __pow__(self, o):
                return ("pow", self, o)

        tr = Tr()
        class TimeVar(VariableM):
            @property
            def size(self):  # the real Variable has no attribute `size`: the pinned rule raises AttributeError here
                raise Declined("AttributeError", "'Variable' object has no attribute 'size'")

        time = TimeVar("t", MDom(T, ()))
        ops_ = type("O", (), {"add": "add-op", "mul": "mul-op"})
        prod = {"add": "add-op", "mul": "mul-op", "max": "max-op"}[op]
        step = frozenset([("p", "c")]) if has_step else frozenset()
        calls = []

        def seq(*a):
            calls.append(a)
            return ("scan", a)

        ns = dict(sequential_sum_product=seq, ops=ops_, Subs=lambda r, names: ("Subs", r, names), dict=dict)
        return Ctx(args=("sum-op", prod, tr, time, step, frozenset([("p", "x")])), namespace=ns, tr=tr, T=T, st=st, calls=calls, time=time, prod=prod)

    def may_raise(self, ctx, etype):
        has_step, dep, op = ctx.st
        return (not has_step) and (not dep)

    def allow_vacuous(self, st):
        return (not st[0]) and (not st[1])

    def ensures(self, ctx, result):
        has_step, dep, op = ctx.st
        names = frozenset([("p", "x")])
        if has_step:
            exp_call = ("sum-op", ctx.prod, ctx.tr, ctx.time, {"p": "c"})
            return [("scans_whenever_there_is_a_step", ctx.calls == [exp_call] and result == ("Subs", ("scan", exp_call), names))]
        if dep:
            return [("reduces_over_time_with_the_product", ctx.calls == [] and result == ("Subs", ("reduce", ctx.tr, ctx.prod, "t"), names))]
        tag = {"add": "mul", "mul": "pow"}.get(op)
        ok = isinstance(result, tuple) and result[0] == "Subs" and isinstance(result[1], tuple) and result[1][0] == tag and result[1][1] is ctx.tr and result[2] == names
        return [("constant_factor_folded_T_times", core.And(ok, deep_eq(result[1][2], ctx.T)) if ok else False)]
