"""Contracts on funsor/sum_product.py Markov-product scans (C10): the integer / index obligations, for EVERY duration.

`trans` is modelled as an abstract sequence of per-step factors: a ghost map k |-> element with a symbolic length; calling
it with time=Slice(..) restricts the sequence (by the proved contract of Slice: position = start + step*k, size =
len(range(start, stop, step))), Contraction of two equally long restrictions is the element-wise monoid product, Cat is
concatenation.  The loop of sequential_sum_product is verified by an inductive invariant (init / preserve / exit) with the
duration symbolic; together with lemma scan.pairing_preserves_fold (lemmas/scan.py) this gives: the result is the left fold
of the step factors, for every duration >= 1.  Assumed contracts (C04, bounded-checked): Funsor.__call__ with a Slice /
renaming, Contraction, Cat, Stack denote what their constructors say."""
from collections import OrderedDict

import z3

from pyvc import core
from pyvc.contract import Contract, Ctx, register
from pyvc.core import SV, And, Declined, If, Implies, Not, Or, Unsupported, deep_eq, truth

from . import models as M
from .c_domains import div_hints
from .c_terms import Iteration, MTerm, SliceM, VariableM, mul_hints
from .models import MDom

E = z3.DeclareSort("Factor")
MUL = z3.Function("compose", E, E, E)  # x·y = sum_op over drop of prod_op(x(curr=drop), y(prev=drop))


class OpM:
    def __init__(self, name):
        self.name = name


class AssociativeOpM:
    @staticmethod
    def __sym_instancecheck__(x):
        return isinstance(x, OpM)


class FunsorM:
    @staticmethod
    def __sym_instancecheck__(x):
        return isinstance(x, MTerm)


class TransM(MTerm):
    """abstract funsor with a time input: ghost element map `at(k)` and symbolic `length`"""

    def __init__(self, at, length, time, others, renames=None, checks=None):
        self.at, self.length, self.time = at, length, time
        self.others = OrderedDict(others)  # name -> domain of the non-time inputs
        self.renames = dict(renames or {})
        self.checks = checks if checks is not None else []
        self.inputs = OrderedDict([(time, MDom(length, ()))] + list(self.others.items()))

    def __call__(self, **kw):
        at, length = self.at, self.length
        ren = dict(self.renames)
        others = OrderedDict(self.others)
        res = None
        for k, v in kw.items():
            if k == self.time:
                if isinstance(v, SliceM):
                    # well-typedness of the substitution (SubsMeta/to_funsor): the slice's dtype is the input's size
                    self.checks.append(("slice_dtype_is_time_size", deep_eq(v.dtype, self.length)))
                    st, sp = v.slice.start, v.slice.step
                    base = at
                    at = (lambda base, st, sp: (lambda k_: base(st + sp * k_)))(base, st, sp)
                    length = v.size
                    res = "slice"
                elif isinstance(v, (int, SV)):
                    self.checks.append(("index_in_range", And(0 <= v, v < self.length)))
                    return ElemM(self.at(v), self.renames)
                else:
                    raise Unsupported("time substituted by %r" % (v,))
            elif k in self.others:
                if not isinstance(v, str):
                    raise Unsupported("non-renaming substitution")
                ren[k] = v
                dom = others.pop(k)
                others[v] = dom
            # names that are not inputs are ignored (Funsor.__call__)
        return TransM(at, length, self.time, others, ren, self.checks)


TransM.__model_class__ = TransM


class ElemM(MTerm):
    def __init__(self, e, renames):
        self.e, self.renames = e, renames


def ContractionM_factory(ctx):
    def Contraction(sum_op, prod_op, drop, x, y):
        ok = isinstance(x, TransM) and isinstance(y, TransM) and isinstance(drop, frozenset)
        if not ok:
            raise Unsupported("Contraction outside the model")
        names = sorted(v.name for v in drop)
        ctx.checks.append(("contraction_pairs_curr_of_x_with_prev_of_y", x.renames == ctx.curr_to_drop and y.renames == ctx.prev_to_drop and names == sorted(set(ctx.curr_to_drop.values()))))
        ctx.checks.append(("contraction_ops", sum_op is ctx.sum_op and prod_op is ctx.prod_op))
        ctx.checks.append(("contracted_operands_equally_long", deep_eq(x.length, y.length)))
        xa, ya = x.at, y.at
        others = OrderedDict((k, v) for k, v in ctx.base_others.items())
        return TransM(lambda k: SV(MUL(xa(k).e, ya(k).e)), x.length, x.time, others, {}, ctx.checks)

    return Contraction


def CatM_factory(ctx):
    def Cat(name, parts, part_name=None):
        a, b = parts
        ctx.checks.append(("cat_along_time", name == ctx.time and a.time == name and b.time == name and not a.renames and not b.renames))
        aa, ba, la = a.at, b.at, a.length
        return TransM(lambda k: SV(z3.If(core._lift(k < la), aa(k).e, ba(k - la).e)), a.length + b.length, name, ctx.base_others, {}, ctx.checks)

    return Cat


@register
class SequentialSumProduct(Contract):
    """sequential_sum_product(sum_op, prod_op, trans, time, step) for EVERY duration >= 1 (loop invariant, duration symbolic):
      invariant  duration == size of trans's time input >= 1  (and, ghost, fold(trans) == fold(trans_0): by the lemma);
      preserve   with d = duration > 1: every Slice is built inside its precondition and typed by the current duration; the
                 two strided restrictions have equal length d//2; new_trans[k] == trans[2k]·trans[2k+1] for k < d//2;
                 if d is odd new_trans[d//2] == trans[d-1]; the new duration (d+1)//2 equals the new length and is < d
                 (termination variant); curr of x is identified with prev of y through the same drop names;
      exit       duration == 1 and the result is trans(time=0), the single remaining factor."""

    props = ("C10",)
    file = "funsor/sum_product.py"
    qualname = "sequential_sum_product"
    timeout_ms = 30000
    mutants = (
        ("odd tail dropped", "if duration > even_duration:", "if False:"),
        ("tail taken one early", "Slice(time, duration - 1, duration)", "Slice(time, duration - 2, duration - 1)"),
        ("pairs overlap", "Slice(time, 1, even_duration, 2, duration)", "Slice(time, 1, even_duration - 1, 2, duration)"),
        ("duration halved by floor", "duration = (duration + 1) // 2", "duration = duration // 2"),
        ("x and y renames swapped", "x = trans(**{time: Slice(time, 0, even_duration, 2, duration)}, **curr_to_drop)", "x = trans(**{time: Slice(time, 0, even_duration, 2, duration)}, **prev_to_drop)"),
    )

    def structures(self, tier):
        yield "step_pairs=1", 1
        yield "step_pairs=2", 2

    def build(self, p, npairs):
        T = p.fresh_int("T")
        p.assume(T >= 1)
        step = {"p%d" % i: "c%d" % i for i in range(npairs)}
        others = OrderedDict()
        for i in range(npairs):
            n = p.fresh_int("state%d" % i)
            p.assume(n >= 1)
            others["p%d" % i] = MDom(n, ())
            others["c%d" % i] = MDom(n, ())
        F0 = z3.Function("trans0!%d" % next(p.counter), z3.IntSort(), E)
        checks = []
        trans = TransM(lambda k: SV(F0(core._lift(k))), T, "t", others, {}, checks)
        time = VariableM("t", MDom(T, ()))
        sum_op, prod_op = OpM("sum"), OpM("prod")
        drop = tuple("_drop_%d" % i for i in range(npairs))
        ks, vs = sorted(step.keys()), [step[k] for k in sorted(step.keys())]
        ctx = Ctx(args=(sum_op, prod_op, trans, time, step), namespace=None, checks=checks, time="t", T=T, sum_op=sum_op, prod_op=prod_op, base_others=others,
                  prev_to_drop=dict(zip(ks, drop)), curr_to_drop=dict(zip(vs, drop)), p=p, init=None, it=None)
        ctx.namespace = dict(M.DOMAIN_NS, OrderedDict=OrderedDict, AssociativeOp=AssociativeOpM, Funsor=FunsorM, Variable=VariableM, Slice=SliceM, Contraction=ContractionM_factory(ctx), Cat=CatM_factory(ctx))
        return ctx

    def hooks(self, ctx):
        def on_while(interp, s, sc, ordinal):
            p = ctx.path
            tr0, d0 = sc.lookup("trans"), sc.lookup("duration")
            ctx.init = (tr0, d0)
            if p.choose(2, "phase") == 0:  # arbitrary iteration under the invariant
                d = p.fresh_int("d")
                p.assume(d >= 1)
                S = z3.Function("S!%d" % next(p.counter), z3.IntSort(), E)
                tr = TransM(lambda k: SV(S(core._lift(k))), d, "t", ctx.base_others, {}, ctx.checks)
                sc.store("trans", tr)
                sc.store("duration", d)
                if not truth(interp.eval(s.test, sc)):
                    raise core.Infeasible()
                interp.exec_block(s.body, sc)
                raise core._Return(Iteration(kind="step", d=d, S=S, trans=sc.lookup("trans"), duration=sc.lookup("duration")))
            d = p.fresh_int("dexit")
            p.assume(d >= 1)
            S = z3.Function("Sx!%d" % next(p.counter), z3.IntSort(), E)
            tr = TransM(lambda k: SV(S(core._lift(k))), d, "t", ctx.base_others, {}, ctx.checks)
            sc.store("trans", tr)
            sc.store("duration", d)
            if truth(interp.eval(s.test, sc)):
                raise core.Infeasible()
            ctx.exit = (S, d)
            return True

        return {"while": on_while}

    total = True

    def ensures(self, ctx, result):
        tr0, d0 = ctx.init
        cl = [("init_invariant", And(deep_eq(d0, ctx.T), deep_eq(tr0.length, ctx.T), d0 >= 1))]
        for name, f in ctx.checks:
            cl.append((name, f))
        if isinstance(result, Iteration):
            d, S, tr, d2 = result.d, result.S, result.trans, result.duration
            p = ctx.p
            k = p.fresh_int("k")
            half = core.floordiv_pos(d, 2)
            cl += [
                ("preserve_duration_is_length", And(deep_eq(d2, tr.length), d2 >= 1)),
                ("variant_decreases", d2 < d),
                ("new_length_is_ceil_half", d2 * 2 >= d),
                ("pairs_are_adjacent_positions", Implies(And(0 <= k, k < half), tr.at(k).e == MUL(S(core._lift(2 * k)), S(core._lift(2 * k + 1))))),
                ("odd_tail_is_last_position", Implies(core.mod_pos(d, 2) == 1, And(deep_eq(d2, half + 1), tr.at(half).e == S(core._lift(d - 1))))),
                ("even_has_no_tail", Implies(core.mod_pos(d, 2) == 0, deep_eq(d2, half))),
                ("inputs_restored", list(tr.others.items()) == list(ctx.base_others.items()) and not tr.renames),
            ]
            return cl
        S, d = ctx.exit
        ok = isinstance(result, ElemM)
        cl.append(("exit_returns_the_single_remaining_factor", And(d == 1, result.e.e == S(0)) if ok else False))
        return cl

    def hints(self, ctx, path):
        return div_hints(path) + mul_hints(path)
