"""C04 / C05: funsor.terms.substitute and SubstituteInterpretation.interpret -- the function every non-leaf substitution, every
alpha-conversion and every eager Subs goes through (callee of eager_subs_funsor, Funsor._alpha_convert, ...).

Model.  A term is an abstract tree node with a class label, the names it INTRODUCES itself (.fresh: a Tensor's inputs, a
Variable's name, a Stack's / Cat's new name) and children; its inputs are its fresh names plus its children's inputs.  The
meaning of a term is a syntactic denotation over a free algebra,
    den(node) = ("app", label, (("var", n) for n in sorted(fresh)), den(children)...),
so that equality of denotations is equality of functions for every interpretation of the labels.  The base interpretation
is adversarial: rebuilding a node from (already substituted) children returns a term with the right denotation whose .fresh
is the lazy node's own fresh names (reflect / lazy), ALL of its inputs (eager evaluation to a Tensor) or empty (evaluation
to a compound term such as a Contraction) -- all are explored.  eager_subs / Subs on a rebuilt term substitute, as the real methods do, every free occurrence of the name.

Specification (the property statement: simultaneous substitution in the caller's environment):
    S(node) = ("app", label, (den(v_n) if n is a key else ("var", n) for n in sorted(fresh)), S(children)...)
i.e. every name is replaced exactly where it is introduced, once, and the free names of the values are never touched again.

Structure bound: trees of depth <= 2 (a root with <= 2 leaf children, or a leaf), names a, b (keys) and c, values with free
names among a, b, c.  Everything is concrete, so obligations are decided by evaluation of the real bodies."""
import itertools
from collections import OrderedDict

from pyvc import core
from pyvc.contract import Contract, Ctx, register
from pyvc.core import Unsupported


# ---- denotations ---------------------------------------------------------------------------------------------------
def var(n):
    return ("var", n)


def dsubst(d, m):
    """simultaneous substitution of denotations for free names"""
    if d[0] == "var":
        return m.get(d[1], d)
    return ("app", d[1]) + tuple(dsubst(c, m) for c in d[2:])


def dfree(d):
    if d[0] == "var":
        return {d[1]}
    out = set()
    for c in d[2:]:
        out |= dfree(c)
    return out


class Term:
    """a funsor with a denotation; identity semantics (hash-consed terms)"""

    def __init__(self, den, fresh, label=None, children=()):
        self.den = den
        self.fresh = frozenset(fresh)
        self.inputs = OrderedDict((n, "dom") for n in sorted(dfree(den)))
        self.label = label
        self._ast_values = tuple(children)

    def eager_subs(self, subs):
        # the real eager_subs methods require every key to be one of the node's fresh names
        if not all(k in self.fresh for k, v in subs):
            raise Unsupported("eager_subs called with a name that is not fresh in the node")
        d = dsubst(self.den, {k: v.den for k, v in subs})
        return Term(d, dfree(d))

    def __repr__(self):
        return "Term(%r)" % (self.den,)


def leaf(label, fresh):
    fresh = tuple(sorted(fresh))
    return Term(("app", label) + tuple(var(n) for n in fresh), fresh, label, ())


def compound(label, fresh, kids):
    fresh = tuple(sorted(fresh))
    return Term(("app", label, ("app", "fresh") + tuple(var(n) for n in fresh)) + tuple(k.den for k in kids), fresh, label, tuple(kids))


def value(names, tag):
    return Term(("app", "val_" + tag) + tuple(var(n) for n in sorted(names)), sorted(names), "val", ())


def spec(node, m):
    """S(node): replace each name where it is introduced"""
    if not node._ast_values:
        return dsubst(node.den, m)
    fresh_part = node.den[2]
    return ("app", node.label, dsubst(fresh_part, m)) + tuple(spec(k, m) for k in node._ast_values)


VALUE_NAMES = [(), ("a",), ("b",), ("c",), ("a", "b")]


# ---- SubstituteInterpretation.interpret --------------------------------------------------------------------------------
@register
class SubstituteInterpret(Contract):
    """SubstituteInterpretation.interpret(cls, *args): builds cls(*args) under the base interpretation (entered and left
    exactly once) and then substitutes -- simultaneously --
      * when cls is the class of the node being rebuilt (self.cls): exactly those pairs of self.subs whose key that node
        introduces (self.fresh) and the result lists as fresh; keys that merely occur in the result because an already
        substituted argument brought them along are NOT substituted again (the double-substitution defect, repaired);
      * for a helper term built by a metaclass while the node is rebuilt (cls is not self.cls): every key it lists as fresh
        if it is a leaf of the requested class (nothing has been substituted into it yet: GaussianMeta's shift Tensor), and
        NOTHING if it was evaluated to another kind of term (it is made of already substituted operands: Gaussian' + shift).
    When the rebuilt node no longer lists one of those names as fresh (a lazy MarkovProduct / Stack / Cat that evaluated to a
    compound term) the pairs are applied with a general Subs instead of the node's own eager_subs -- no pair is lost."""

    props = ("C04", "C05")
    file = "funsor/terms.py"
    qualname = "SubstituteInterpretation.interpret"
    total = True
    mutants = (
        ("every fresh name of the rebuilt term substituted (pinned-tree behaviour)", "                fresh = self.fresh\n", "                fresh = expr.fresh\n"),
        ("names the rebuilt term does not list as fresh are dropped (pinned-tree behaviour)", "                expr = Subs(expr, fresh_subs)", "                pass"),
        ("helper terms matched against the rebuilt node's names (first repair only)", "            if cls is self.cls:\n", "            if True:\n"),
        ("substituted one pair at a time", "                    expr = instrument.debug_logged(expr.eager_subs)(fresh_subs)", "                    for pair in fresh_subs:\n                        expr = expr.eager_subs((pair,))"),
    )

    def structures(self, tier):
        for keys in [("a",), ("b",), ("a", "b")]:
            for vals in itertools.product(VALUE_NAMES, repeat=len(keys)):
                for own in [(), ("a",), ("a", "b")]:  # names the original node introduces
                    for built in [("a",), ("a", "c"), ("a", "b"), ("c",)]:  # free names of the rebuilt term
                        for fresh_mode in ("lazy", "all", "none"):
                            yield "role=node,keys=%s,values=%s,node_fresh=%s,rebuilt_inputs=%s,rebuilt_fresh=%s" % ("".join(keys), ["".join(v) or "-" for v in vals], "".join(own) or "-", "".join(built), fresh_mode), ("node", keys, vals, own, built, fresh_mode)
                        for role in ("helper-leaf", "helper-evaluated"):
                            yield "role=%s,keys=%s,values=%s,node_fresh=%s,built_inputs=%s" % (role, "".join(keys), ["".join(v) or "-" for v in vals], "".join(own) or "-", "".join(built)), (role, keys, vals, own, built, "all")

    def build(self, p, st):
        role, keys, vals, own, built, fresh_mode = st
        subs = tuple((k, value(v, k)) for k, v in zip(keys, vals))
        log = []

        class Base:
            def __enter__(self_):
                log.append("enter")
                return self_

            def __exit__(self_, *a):
                log.append("exit")
                return False

        holder = {}

        class Meta(type):
            def __call__(cls, *args):
                log.append("build")
                return holder["rebuilt"]

        class Requested(Term, metaclass=Meta):
            pass

        class NodeClass(Term, metaclass=Meta):
            pass

        class Evaluated(Term):
            pass

        kind = Evaluated if role == "helper-evaluated" else Requested
        rebuilt = kind.__new__(kind)
        Term.__init__(rebuilt, ("app", "N") + tuple(var(n) for n in built), [n for n in built if fresh_mode == "all" or (fresh_mode == "lazy" and n in own)])
        holder["rebuilt"] = rebuilt

        class Self:
            pass

        s = Self()
        s.subs, s.fresh, s.base_interpretation = subs, frozenset(own), Base()
        s.cls = Requested if role == "node" else NodeClass

        class Instr:
            PROFILE = False

            @staticmethod
            def debug_logged(f):
                return f

        def Subs(expr, pairs):
            d = dsubst(expr.den, {k: v.den for k, v in pairs})
            return Term(d, dfree(d))

        return Ctx(args=(s, Requested), namespace=dict(instrument=Instr, Subs=Subs, tuple=tuple, frozenset=frozenset, isinstance=isinstance, all=core.sall), log=log, rebuilt=rebuilt, subs=subs, st=st)

    def ensures(self, ctx, result):
        role, keys, vals, own, built, fresh_mode = ctx.st
        tag = ""
        if role == "node":
            m = {k: v.den for k, v in ctx.subs if k in own and k in built}
            clause = "exactly_the_nodes_own_names_substituted_once"
        elif role == "helper-leaf":
            m = {k: v.den for k, v in ctx.subs if k in built}
            clause = "helper_leaf_substituted_for_its_own_names"
        else:
            m = {}
            clause = "evaluated_helper_not_substituted_again"
        return [("built_once_inside_the_base_interpretation", ctx.log == ["enter", "build", "exit"]), (clause + tag, isinstance(result, Term) and result.den == dsubst(ctx.rebuilt.den, m))]


# ---- substitute ------------------------------------------------------------------------------------------------------
def trees():
    fr = [("a",), ("b",), ("a", "b"), ("c",)]
    for f in fr:
        yield "L%s" % "".join(f), (None, (), [f])
    for rf in [(), ("a",), ("b",)]:
        for kids in itertools.chain(itertools.product(fr, repeat=1), itertools.product(fr[:3], repeat=2)):
            if any(n in rf for k in kids for n in k):
                continue  # well-formed terms: a node's own name is not an input of its children (Stack, Delta, ... assert it)
            yield "N%s(%s)" % ("".join(rf) or "-", ",".join("L" + "".join(k) for k in kids)), ("N", rf, list(kids))


@register
class Substitute(Contract):
    """substitute(expr, subs): the result denotes expr with every key replaced by its value where the name is introduced --
    simultaneously, in the caller's environment: the values' own free names are not substituted again, subterms that do not
    mention a key are returned as they are, and a term that mentions no key is returned itself.
    Callees by contract: interpreter.anf (contract Anf: every node once, children first), SubstituteInterpretation.interpret
    (contract SubstituteInterpret, with an adversarial choice of the rebuilt term's .fresh).
    The clause is split by the known finding C04/fresh-name-captures-value-input (a value substituted into a child mentions a
    name that the parent node introduces and that is itself a key: rebuilding the parent identifies the two)."""

    props = ("C04", "C05")
    file = "funsor/terms.py"
    qualname = "substitute"
    total = True
    mutants = (
        ("original node's fresh names not passed on", "                interp.fresh = value.fresh\n", ""),
        ("class of the node being rebuilt not announced", "                interp.cls = getattr(type(value), \"__origin__\", type(value))\n", ""),
        ("subterms mentioning a key treated as constants", "        if isinstance(x, Funsor) and support.isdisjoint(x.inputs):", "        if isinstance(x, Funsor):"),
    )

    def structures(self, tier):
        for tl, t in trees():
            for keys in [("a",), ("b",), ("a", "b")]:
                for vals in itertools.product(VALUE_NAMES, repeat=len(keys)):
                    for fresh_mode in ("lazy", "all", "none"):
                        yield "tree=%s,keys=%s,values=%s,rebuilt_fresh=%s" % (tl, "".join(keys), ["".join(v) or "-" for v in vals], fresh_mode), (t, keys, vals, fresh_mode)

    @staticmethod
    def mk_tree(t):
        label, rf, kids = t
        leaves = [leaf("L%d" % i, f) for i, f in enumerate(kids)]
        if label is None:
            return leaves[0]
        return compound("N", rf, leaves)

    def captures(self, st):
        t, keys, vals, fresh_mode = st
        label, rf, kids = t
        if label is None:
            return False
        m = dict(zip(keys, vals))
        for f in kids:
            for n in f:
                if n in m and any(x in rf and x in m for x in m[n]):
                    return True
        return False

    def build(self, p, st):
        t, keys, vals, fresh_mode = st
        expr = self.mk_tree(t)
        subs = tuple((k, value(v, k)) for k, v in zip(keys, vals))
        state = dict(current=None, depth=0)

        def is_atom(x):
            if isinstance(x, (tuple, frozenset)):
                return all(is_atom(c) for c in x)
            return not isinstance(x, Term)

        def children(x):
            if isinstance(x, Term):
                return x._ast_values
            return x

        def anf(x, stop):
            """contract of interpreter.anf (Anf): every non-stopped node once, children before parents, root last"""
            env = OrderedDict()

            def go(n):
                if is_atom(n) or stop(n) or any(n is k for k in env):
                    return
                for c in children(n):
                    go(c)
                env[n] = n

            go(x)
            return env

        class Interpreter:
            pass

        interpreter = Interpreter()
        interpreter.is_atom, interpreter.children, interpreter.anf = is_atom, children, anf
        interpreter.get_interpretation = lambda: "base"

        class SubstituteInterpretation:
            """callee model = the contract SubstituteInterpret"""

            def __init__(self_, subs_, base):
                self_.subs, self_.base, self_.fresh, self_.cls = subs_, base, frozenset(), None

            def __enter__(self_):
                state["current"] = self_
                state["depth"] += 1
                return self_

            def __exit__(self_, *a):
                state["current"] = None
                state["depth"] -= 1
                return False

            def interpret(self_, node, args, cls_token):
                if self_.cls is not cls_token:
                    # the callee treats the construction as a helper term: an evaluated compound gets nothing substituted
                    self_ = type("Helper", (), dict(subs=(), fresh=frozenset()))()
                fresh_part = ("app", "fresh") + tuple(var(n) for n in sorted(node.fresh))
                d = ("app", node.label, fresh_part) + tuple(a.den for a in args) if node._ast_values else node.den
                rebuilt_fresh = dfree(d) if fresh_mode == "all" else (set(node.fresh) if fresh_mode == "lazy" else set())
                m = {k: v.den for k, v in self_.subs if k in self_.fresh and k in dfree(d)}
                d2 = dsubst(d, m)
                return Term(d2, dfree(d2) if fresh_mode == "all" else ((set(node.fresh) - set(m)) if fresh_mode == "lazy" else ()), node.label, tuple(args))

        tokens = {}

        def stype(v):
            if isinstance(v, Term):
                if id(v) not in tokens:

                    def rebuild(*args, v=v):
                        if state["current"] is None:
                            raise Unsupported("term rebuilt outside the substitute interpretation")
                        return state["current"].interpret(v, args, tokens[id(v)])

                    tokens[id(v)] = rebuild
                return tokens[id(v)]
            return type(v)

        ns = dict(interpreter=interpreter, SubstituteInterpretation=SubstituteInterpretation, Funsor=Term, type=stype, isinstance=isinstance, getattr=getattr, dict=dict, OrderedDict=OrderedDict, tuple=tuple, frozenset=frozenset)
        return Ctx(args=(expr, subs), namespace=ns, expr=expr, subs=subs, st=st, state=state)

    def ensures(self, ctx, result):
        t, keys, vals, fresh_mode = ctx.st
        m = {k: v.den for k, v in ctx.subs}
        tag = "[value mentions a key that the parent node introduces]" if self.captures(ctx.st) else ""
        touched = any(k in ctx.expr.inputs for k in m)
        cl = [("simultaneous_substitution_where_each_name_is_introduced" + tag, isinstance(result, Term) and result.den == spec(ctx.expr, m)), ("interpretation_stack_restored", ctx.state["depth"] == 0)]
        if not touched:
            cl.append(("term_without_keys_returned_itself", result is ctx.expr))
        return cl
