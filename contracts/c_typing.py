"""Contracts on funsor/typing.py (C16): the parametric subtype relation deep_issubclass is a preorder.

The REAL bodies of deep_issubclass, _subclasscheck_any/_union/_frozenset/_tuple, GenericTypeMeta.__subclasscheck__ and
_type_to_typing are executed (the family is mutually recursive, so it is interpreted as a whole; the dispatch table
`_subclasscheck_registry` is rebuilt from the @register_subclasscheck decorators found in the AST) over an abstract type
grammar whose LEAVES ARE SYMBOLIC: a leaf is Any or an arbitrary plain class, decided by the solver, and the nominal
subclass relation between plain classes (and between generic origins) is an arbitrary reflexive-transitive relation.
So each obligation holds for every class hierarchy; the structure bound is the nesting depth (1; 2 on a subset in the
thorough tier) and arity (<= 2) of the type terms.

Assumptions (printed in the evidence): plain leaf classes are not subclasses of tuple/frozenset and are not `object`;
typing_wrap (_RuntimeSubclassCheckMeta) types are outside the grammar; lru_cache on deep_issubclass is dropped (pure)."""
import ast
import itertools

import z3

from pyvc import core
from pyvc.contract import Contract, Ctx, mval, register
from pyvc.core import SV, And, Declined, If, Implies, Not, Or, Unsupported, truth

SUB = z3.Function("SubPlain", z3.IntSort(), z3.IntSort(), z3.BoolSort())
SUBG = z3.Function("SubOrigin", z3.IntSort(), z3.IntSort(), z3.BoolSort())


class T:
    def __sym_is__(self, other):
        return self.same(other)

    def same(self, other):
        return self is other


class Leaf(T):
    """Any (id == 0) or a plain class (id >= 1)"""

    def __init__(self, id_):
        self.id = id_

    def same(self, other):
        if isinstance(other, Leaf):
            return self.id == other.id
        return False

    def __repr__(self):
        return "Leaf(%s)" % (self.id,)


ANY = Leaf(0)


class Marker(T):
    def __init__(self, name):
        self.name = name

    def __repr__(self):
        return self.name


UNION, TUP_B, FS_B, TUP_T, FS_T, OBJECT = (Marker(n) for n in ("typing.Union", "tuple", "frozenset", "typing.Tuple", "typing.FrozenSet", "object"))


class TTuple(T):
    def __init__(self, args=(), variadic=False, bare=False):
        self.args, self.variadic, self.bare = tuple(args), variadic, bare

    def same(self, other):
        if not isinstance(other, TTuple) or (self.bare, self.variadic, len(self.args)) != (other.bare, other.variadic, len(other.args)):
            return False
        return And(*[a.same(b) for a, b in zip(self.args, other.args)])


class TFS(T):
    def __init__(self, arg=None):
        self.arg = arg

    def same(self, other):
        if not isinstance(other, TFS) or (self.arg is None) != (other.arg is None):
            return False
        return True if self.arg is None else self.arg.same(other.arg)


class TUnion(T):
    def __init__(self, args):
        self.args = tuple(args)

    def same(self, other):
        if not isinstance(other, TUnion) or len(self.args) != len(other.args):
            return False
        return And(*[a.same(b) for a, b in zip(self.args, other.args)])


class TGen(T):
    """a GenericTypeMeta class: origin id (symbolic int) and type arguments; bare when args == ()"""

    __model_class__ = None

    def __init__(self, gid, args=()):
        self.gid, self.args = gid, tuple(args)

    def same(self, other):
        if not isinstance(other, TGen) or len(self.args) != len(other.args):
            return False
        return And(self.gid == other.gid, *[a.same(b) for a, b in zip(self.args, other.args)])


class GenericTypeMetaM:
    @staticmethod
    def __sym_instancecheck__(x):
        return isinstance(x, TGen)


class RuntimeMetaM:
    @staticmethod
    def __sym_instancecheck__(x):
        return False


def get_origin(tp):
    if isinstance(tp, TTuple):
        return TUP_B
    if isinstance(tp, TFS):
        return FS_B
    if isinstance(tp, TUnion):
        return UNION
    if isinstance(tp, TGen):
        return TGen(tp.gid, ()) if tp.args else tp
    return tp


def get_args(tp):
    if isinstance(tp, TTuple):
        return tp.args + ((Ellipsis,) if tp.variadic else ())
    if isinstance(tp, TFS):
        return () if tp.arg is None else (tp.arg,)
    if isinstance(tp, (TUnion, TGen)):
        return tp.args
    return ()


class TypingNS:
    Any = ANY
    Union = UNION
    Tuple = TUP_T
    FrozenSet = FS_T


def nominal(sub, sup):
    """type.__subclasscheck__ / issubclass on non-generic arguments"""
    if isinstance(sub, (TTuple, TFS, TUnion)) and not (isinstance(sub, TTuple) and False):
        raise Declined("TypeError", "issubclass() arg 1 must be a class")
    if isinstance(sup, (TTuple, TFS, TUnion)):
        raise Declined("TypeError", "issubclass() arg 2 must be a class")
    for x in (sub, sup):
        if isinstance(x, Leaf) and truth(x.id == 0):
            raise Unsupported("issubclass involving typing.Any is outside the model")
    if isinstance(sub, Marker) and isinstance(sup, Marker):
        return sub is sup
    if isinstance(sub, Leaf) and isinstance(sup, Leaf):
        return SV(SUB(core._lift(sub.id), core._lift(sup.id)))
    if isinstance(sub, TGen) and isinstance(sup, TGen):
        return SV(SUBG(core._lift(sub.gid), core._lift(sup.gid)))
    return False  # plain class vs tuple/frozenset/generic origin: unrelated (assumption)


def registry_from_ast():
    """{decorator argument source: function name} from the @register_subclasscheck decorators of funsor/typing.py"""
    src, tree = core.parse_file("funsor/typing.py")
    out = {}
    for n in tree.body:
        if isinstance(n, ast.FunctionDef):
            for d in n.decorator_list:
                if isinstance(d, ast.Call) and isinstance(d.func, ast.Name) and d.func.id == "register_subclasscheck":
                    out[ast.unparse(d.args[0])] = n.name
    return out


KEYMAP = {"typing.Any": ANY, "typing.Union": UNION, "frozenset": FS_B, "typing.FrozenSet": FS_T, "tuple": TUP_B, "typing.Tuple": TUP_T}


class Registry:
    def __init__(self, fns):
        self.fns = fns  # marker -> IFunc

    def __sym_getitem__(self, key):
        if isinstance(key, Leaf):
            if truth(key.id == 0):
                key = ANY
            else:
                raise Declined("KeyError")
        if key in self.fns:
            return self.fns[key]
        raise Declined("KeyError")


FAMILY = ["deep_issubclass", "_subclasscheck_any", "_subclasscheck_union", "_subclasscheck_frozenset", "_subclasscheck_tuple", "_type_to_typing", "GenericTypeMeta.__subclasscheck__"]


class FamilyLoc:
    def __init__(self, locs):
        self.locs = locs
        import hashlib

        self.sha = hashlib.sha256("".join(l.source for l in locs.values()).encode()).hexdigest()[:16]
        self.lineno = locs["deep_issubclass"].lineno


def locate_family(mutant=None):
    import textwrap

    locs = {n: core.locate("funsor/typing.py", n) for n in FAMILY}
    if mutant is not None:
        label, old, new = mutant
        hit = [n for n, l in locs.items() if old in l.source]
        if not hit:
            raise core.FunctionMissing("mutant %r: pattern not found in the typing family" % (label,))
        l = locs[hit[0]]
        src = l.source.replace(old, new, 1)
        node = ast.parse(textwrap.dedent(src)).body[0]
        locs[hit[0]] = core.Located(l.path, l.qualname, node, src, l.cls)
    return FamilyLoc(locs)


def build_family(floc):
    """interpretable closures of the real function family sharing one namespace"""
    interp = core.Interp(hooks={})
    G = {}
    sc = core.Scope(None, G)
    locs = floc.locs
    for n in FAMILY[:-1]:
        G[n] = core.IFunc(interp, locs[n].node, sc, n)
    gsc = core.IFunc(interp, locs["GenericTypeMeta.__subclasscheck__"].node, sc, "__subclasscheck__")
    reg = {}
    for key_src, fname in registry_from_ast().items():
        if key_src not in KEYMAP or fname not in G:
            raise Unsupported("registry entry %s -> %s outside the model" % (key_src, fname))
        reg[KEYMAP[key_src]] = G[fname]

    def issubclass_(sub, sup):
        if isinstance(sup, TGen):
            return gsc(sup, sub)
        return nominal(sub, sup)

    class SuperProxy:
        def __init__(self, origin):
            self.origin = origin

        def __subclasscheck__(self, sub):
            # type.__subclasscheck__(origin, sub): nominal; a parametrised generic is nominally below its origin's ancestors
            if isinstance(sub, TGen):
                return SV(SUBG(core._lift(sub.gid), core._lift(self.origin.gid)))
            if isinstance(sub, (TTuple, TFS, TUnion)):
                raise Declined("TypeError", "issubclass() arg 1 must be a class")
            return False

    interp.hooks["super"] = lambda sc_, *a: SuperProxy(a[1])
    G.update(
        typing=TypingNS,
        get_origin=get_origin,
        get_args=get_args,
        issubclass=issubclass_,
        _subclasscheck_registry=Registry(reg),
        _RuntimeSubclassCheckMeta=RuntimeMetaM,
        GenericTypeMeta=GenericTypeMetaM,
        object=OBJECT,
        frozenset=FS_B,
        tuple=TUP_B,
        len=len,
        zip=zip,
    )
    return G, interp


SHAPES = ["leaf", "tupleT", "tupleB", "tuple1", "tuple2", "tupleV", "fs", "fs1", "union2", "gen0", "gen1", "gen2"]


# depth-2 type terms (thorough tier): an outer shape whose first argument is itself a depth-1 term, written outer(inner)
DEEP_SHAPES = ["tuple1(tuple1)", "tuple1(union2)", "tuple1(fs1)", "tuple1(tupleV)", "tupleV(tuple1)", "tupleV(union2)", "fs1(tuple1)", "fs1(union2)", "union2(tuple1)", "union2(fs1)", "gen1(tuple1)", "gen1(union2)", "tuple2(tuple1)"]


def mk(p, shape, leaves, depth=1):
    inner = None
    if "(" in shape:
        shape, inner = shape[:-1].split("(", 1)
    first = [inner]

    def leaf():
        if first[0] is not None:
            sub, first[0] = first[0], None
            return mk(p, sub, leaves)
        i = p.fresh_int("t")
        p.assume(i >= 0)
        l = Leaf(i)
        leaves.append(l)
        return l

    if shape == "leaf":
        return leaf() if depth == 1 else mk(p, "leaf", leaves, 1)
    if shape == "tupleT":
        return TTuple((), bare=True)
    if shape == "tupleB":
        return TUP_B
    if shape == "tuple1":
        return TTuple((leaf(),))
    if shape == "tuple2":
        return TTuple((leaf(), leaf()))
    if shape == "tupleV":
        return TTuple((leaf(),), variadic=True)
    if shape == "fs":
        return TFS()
    if shape == "fs1":
        return TFS(leaf())
    if shape == "union2":
        return TUnion((leaf(), leaf()))
    g = p.fresh_int("g")
    if shape == "gen0":
        return TGen(g)
    if shape == "gen1":
        return TGen(g, (leaf(),))
    return TGen(g, (leaf(), leaf()))


def p_choice_shape(p, leaves, depth):
    raise Unsupported("depth-2 structures are enumerated explicitly")


def gids(t, acc):
    if isinstance(t, TGen):
        acc.append(t.gid)
    for a in getattr(t, "args", ()) or ():
        gids(a, acc)
    if isinstance(t, TFS) and t.arg is not None:
        gids(t.arg, acc)
    return acc


def order_axioms(p, leaves, terms):
    """the nominal relations are arbitrary preorders (instantiated on the ids present)"""
    ids = [core._lift(l.id) for l in leaves]
    for a in ids:
        p.assume(SUB(a, a))
    for a, b, c in itertools.product(ids, repeat=3):
        p.assume(z3.Implies(z3.And(SUB(a, b), SUB(b, c)), SUB(a, c)))
    gs = []
    for t in terms:
        gids(t, gs)
    gs = [core._lift(g) for g in gs]
    for a in gs:
        p.assume(SUBG(a, a))
    for a, b, c in itertools.product(gs, repeat=3):
        p.assume(z3.Implies(z3.And(SUBG(a, b), SUBG(b, c)), SUBG(a, c)))


class _Typing(Contract):
    props = ("C16",)
    file = "funsor/typing.py"
    qualname = "deep_issubclass"
    max_paths = 20000
    drops = "decorators (lru_cache; register_subclasscheck re-read into the dispatch table), docstrings"
    assumptions = (
        "C16 proof: plain leaf classes are unrelated to tuple/frozenset/object; typing_wrap types outside the grammar; type terms of nesting depth <= 1 (quick) / <= 2 on the listed nested shapes (thorough), arity <= 2 (leaves symbolic: Any or any class, arbitrary preorder hierarchy)",
    )
    ALL_MUTANTS = (
        ("bare Tuple below every fixed Tuple[Any] (the pinned-tree defect)", "return cls_args[0] is typing.Any and cls_args[-1] is Ellipsis", "return cls_args[0] is typing.Any"),
        ("variadic subclass accepted below fixed-length", "        # issubclass(Tuple[A, ...], Tuple[X, Y]) == False\n        return False", "        return deep_issubclass(subcls_args[0], cls_args[0])"),
        ("union needs all members", "return any(deep_issubclass(subcls, arg) for arg in get_args(cls))", "return all(deep_issubclass(subcls, arg) for arg in get_args(cls))"),
        ("generic arity mismatch accepted", "return len(cls_args) == 0", "return True"),
    )

    def locate(self, mutant=None):
        return locate_family(mutant)

    def entry(self, loc, ctx):
        G, interp = build_family(loc)
        return G["deep_issubclass"], interp


@register
class DeepIssubclassReflexive(_Typing):
    """ensures deep_issubclass(t, t) for every type term t of the grammar (whenever it returns)."""

    mutants = (_Typing.ALL_MUTANTS[2], ("tuple arity ignored", "return len(cls_args) == len(subcls_args) and all(", "return len(cls_args) != len(subcls_args) and all("))

    def structures(self, tier):
        for s in SHAPES + (DEEP_SHAPES if tier != "quick" else []):
            yield s, s

    def build(self, p, shape):
        leaves = []
        t = mk(p, shape, leaves)
        order_axioms(p, leaves, [t])
        return Ctx(args=(t, t), namespace=None, t=t)

    def ensures(self, ctx, result):
        t = ctx.t
        conds = []

        def unions(x):
            if isinstance(x, TUnion):
                conds.extend(a.id == 0 for a in x.args if isinstance(a, Leaf))
            for a in getattr(x, "args", ()) or ():
                unions(a)
            if isinstance(x, TFS) and x.arg is not None:
                unions(x.arg)

        unions(t)
        if conds:
            has_any = Or(*conds)
            # known finding C16/union-with-any: Any <= Union[Any, X] is rejected, so such a union (and every term that
            # contains one) is not below itself
            return [("reflexive[union without Any member]", Implies(Not(has_any), result)), ("reflexive[union with Any member]", Implies(has_any, result))]
        return [("reflexive", result)]


@register
class DeepIssubclassTransitive(_Typing):
    """ensures deep_issubclass(a,b) and deep_issubclass(b,c) imply deep_issubclass(a,c) for every triple of type terms
    of the grammar (whenever the three calls return)."""

    mutants = (_Typing.ALL_MUTANTS[0], _Typing.ALL_MUTANTS[1], _Typing.ALL_MUTANTS[3])

    def structures(self, tier):
        for a, b, c in itertools.product(SHAPES, repeat=3):
            yield "%s<=%s<=%s" % (a, b, c), (a, b, c)
        if tier != "quick":
            # depth 2: every triple with one or two nested terms among terms of the same outer constructor family (the
            # only triples on which the nested arguments are compared), plus nested-vs-flat triples
            fam = lambda sh: sh.split("(")[0]  # noqa: E731
            pool = SHAPES + DEEP_SHAPES
            for a, b, c in itertools.product(pool, repeat=3):
                if not any("(" in x for x in (a, b, c)):
                    continue
                outs = {fam(a), fam(b), fam(c)}
                if len(outs - {"union2", "tupleV", "tuple1", "tupleT", "leaf"}) > 1 and len(outs) > 2:
                    continue
                yield "%s<=%s<=%s" % (a, b, c), (a, b, c)

    def allow_vacuous(self, st):
        # issubclass(<typing alias>, <class>) raises TypeError natively: the relation is undefined on these pairs
        fam = lambda sh: sh.split("(")[0]  # noqa: E731
        return any("(" in x for x in st) or (fam(st[0]) in ("tupleT", "tuple1", "tuple2", "tupleV", "fs", "fs1") and fam(st[1]) in ("gen0", "gen1", "gen2"))

    MUTANT_SHAPES = {
        "bare Tuple below every fixed Tuple[Any] (the pinned-tree defect)": ("tupleT", "tupleB", "tuple1", "tuple2", "tupleV", "leaf"),
        "variadic subclass accepted below fixed-length": ("tupleT", "tuple1", "tuple2", "tupleV", "leaf"),
        "union needs all members": ("union2", "leaf", "tuple1", "gen1"),
        "generic arity mismatch accepted": ("gen0", "gen1", "gen2", "leaf"),
    }

    def mutant_structures(self, tier, label):
        sh = self.MUTANT_SHAPES.get(label, SHAPES)
        for a, b, c in itertools.product(sh, repeat=3):
            yield "%s<=%s<=%s" % (a, b, c), (a, b, c)

    def build(self, p, st):
        leaves = []
        ts = [mk(p, s, leaves) for s in st]
        order_axioms(p, leaves, ts)
        return Ctx(args=(ts[0], ts[1]), namespace=None, ts=ts)

    def ensures(self, ctx, result):
        a, b, c = ctx.ts
        if not truth(result):
            return [("transitive", True)]
        f = ctx.entry
        try:
            if not truth(f(b, c)):
                return [("transitive", True)]
            r13 = f(a, c)
        except Declined:
            return [("transitive", True)]  # a call raised TypeError: the relation is undefined there
        return [("transitive", r13)]

    def replay(self, ctx, m, st, clause):
        return None


@register
class PartialCall(Contract):
    """PartialDispatcher.partial_call(*args): get-or-compute on the tuple of wrapped deep types.
    requires the cache invariant (every cached entry equals dispatch of its key);
    ensures result is dispatch(*types) for types == tuple(typing_wrap(deep_type(a)) for a in args) -- so the rule that
    runs depends only on the argument types, not on the cache state; the invariant is preserved (a miss stores exactly
    the dispatched function under exactly that key, other keys untouched); raises NotImplementedError iff dispatch finds
    nothing, and then nothing is cached."""

    props = ("C16",)
    file = "funsor/registry.py"
    qualname = "PartialDispatcher.partial_call"
    mutants = (
        ("caches under the raw argument types", "self._cache[types] = func", "self._cache[tuple(map(type, args))] = func"),
        ("a miss is not stored", "            self._cache[types] = func\n", "            pass\n"),
        ("None cached before the check", "            func = self.dispatch(*types)\n            if func is None:", "            func = self._cache[types] = self.dispatch(*types)\n            if func is None:"),
    )

    def structures(self, tier):
        for n in (0, 1, 2, 3):
            for st in ("hit", "miss", "miss-none"):
                yield "nargs=%d,%s" % (n, st), (n, st)

    def build(self, p, st):
        n, kind = st
        args = tuple("arg%d" % i for i in range(n))
        types = tuple(("wrap", ("deep_type", a)) for a in args)
        calls = []
        table = {types: None if kind == "miss-none" else "FUNC"}

        class Self:
            name = "disp"

            def dispatch(self, *ts):
                calls.append(ts)
                return table.get(ts, "OTHERFUNC")

        s = Self()
        s._cache = {("other-key",): "OTHERFUNC"}
        if kind == "hit":
            s._cache[types] = "FUNC"

        class _Cls:
            __name__ = "T"

        ns = {"typing_wrap": lambda t: ("wrap", t), "deep_type": lambda a: ("deep_type", a)}
        return Ctx(args=(s,) + args, namespace=ns, s=s, types=types, calls=calls, kind=kind)

    def allow_vacuous(self, st):
        return st[1] == "miss-none"

    def may_raise(self, ctx, etype):
        return ctx.kind == "miss-none"

    def ensures_raise(self, ctx, etype):
        return [("nothing_cached_on_failure", ctx.s._cache == {("other-key",): "OTHERFUNC"})]

    def ensures(self, ctx, result):
        c = ctx.s._cache
        return [
            ("returns_the_dispatched_function_for_the_deep_types", result == "FUNC" and ctx.kind != "miss-none"),
            ("cache_invariant_preserved", c == {("other-key",): "OTHERFUNC", ctx.types: "FUNC"}),
            ("dispatch_consulted_only_on_miss", ctx.calls == ([] if ctx.kind == "hit" else [ctx.types])),
        ]
