"""Index-bookkeeping contracts for the Gaussian helpers (C12, C13) and adjoint_cat (C11).  Only the integer / index
reasoning is proved here; everything numerical about Gaussians is checked by the bounded tier (DESIGN section 1)."""
import itertools
from collections import OrderedDict

import z3

from pyvc import core
from pyvc.contract import Contract, Ctx, register
from pyvc.core import SV, And, Declined, If, Implies, Not, Or, Unsupported, deep_eq, truth

from . import models as M
from .c_terms import MTerm, SliceM
from .models import MDom


class Dom:
    """an input domain with symbolic number of elements"""

    def __init__(self, dtype, numel):
        self.dtype, self.num_elements = dtype, numel


def mk_inputs(p, pattern):
    inputs = OrderedDict()
    nums = []
    for i, c in enumerate(pattern):
        if c == "r":
            n = p.fresh_int("numel%d" % i)
            p.assume(n >= 1)
            inputs["k%d" % i] = Dom("real", n)
            nums.append(n)
        else:
            n = p.fresh_int("size%d" % i)
            p.assume(n >= 1)
            inputs["k%d" % i] = Dom(n, 1)
            nums.append(None)
    return inputs, nums


@register
class ComputeOffsets(Contract):
    """gaussian._compute_offsets(inputs): offsets[k] == sum of the element counts of the REAL inputs before k (in input
    order), only real inputs get an offset, total == sum over all real inputs -- so the blocks [offset, offset+numel) tile
    [0, total) in input order. structure bound: <= 4 inputs, any real/int pattern; element counts symbolic."""

    props = ("C12", "C13", "C14")
    file = "funsor/gaussian.py"
    qualname = "_compute_offsets"
    total = True
    mutants = (("offset taken after adding", "            offsets[key] = total\n            total += domain.num_elements", "            total += domain.num_elements\n            offsets[key] = total"), ("int inputs counted", 'if domain.dtype == "real":', "if True:"))

    def structures(self, tier):
        for n in range(0, 5):
            for pat in itertools.product("ri", repeat=n):
                yield "inputs=%s" % ("".join(pat) or "-"), pat

    def build(self, p, pat):
        inputs, nums = mk_inputs(p, pat)
        return Ctx(args=(inputs,), namespace={"OrderedDict": OrderedDict}, inputs=inputs, nums=nums, pat=pat)

    def ensures(self, ctx, result):
        offsets, total = result
        exp = OrderedDict()
        acc = 0
        for (k, d), n in zip(ctx.inputs.items(), ctx.nums):
            if n is not None:
                exp[k] = acc
                acc = acc + n
        return [("offsets_are_prefix_sums_over_real_inputs", deep_eq(offsets, exp)), ("total_is_event_size", deep_eq(total, acc))]


class RangeIdx:
    def __init__(self, start, stop):
        self.start, self.stop = start, stop


class CatIdx:
    def __init__(self, parts):
        self.parts = list(parts)


class OpsIdx:
    @staticmethod
    def cat(parts):
        return CatIdx(parts)

    @staticmethod
    def new_arange(prototype, start, stop):
        return RangeIdx(start, stop)


def selected(sel, g):
    """formula: position g is addressed by the index object (a slice or a concatenation of aranges)"""
    if isinstance(sel, slice):
        return And(sel.start <= g, g < sel.stop)
    return Or(*[And(r.start <= g, g < r.stop) for r in sel.parts])


@register
class SplitRealInputs(Contract):
    """gaussian._split_real_inputs(inputs, lhs_keys, prototype): the two returned index sets partition [0, dim): a flat
    position lies in `lhs` iff it belongs to the block of a real input named in lhs_keys, and in `rhs` iff it belongs to the
    block of any other real input -- both in the cheap contiguous-slice case and in the interleaved (index array) case; each
    position is addressed at most once. structure bound: <= 4 real inputs plus int inputs, every lhs subset that is
    non-empty and proper."""

    props = ("C13", "C12")
    file = "funsor/gaussian.py"
    qualname = "_split_real_inputs"
    timeout_ms = 30000
    mutants = (("contiguity test too weak", "if lhs_stop <= rhs_start or rhs_stop <= lhs_start:", "if lhs_stop <= rhs_stop or rhs_stop <= lhs_start:"), ("blocks keyed the wrong way", "(lhs_blocks if key in lhs_keys else rhs_blocks)", "(rhs_blocks if key in lhs_keys else lhs_blocks)"))

    def structures(self, tier):
        maxn = 3 if tier == "quick" else 4
        for n in range(2, maxn + 1):
            for pat in itertools.product("ri", repeat=n):
                reals = [i for i, c in enumerate(pat) if c == "r"]
                if len(reals) < 2:
                    continue
                for r in range(1, len(reals)):
                    for lhs in itertools.combinations(reals, r):
                        yield "inputs=%s,lhs=%s" % ("".join(pat), lhs), (pat, lhs)

    def build(self, p, st):
        pat, lhs = st
        inputs, nums = mk_inputs(p, pat)
        lhs_keys = frozenset("k%d" % i for i in lhs)
        return Ctx(args=(inputs, lhs_keys, "prototype"), namespace={"ops": OpsIdx, "slice": slice}, inputs=inputs, nums=nums, st=st, p=p)

    total = True

    def ensures(self, ctx, result):
        pat, lhs = ctx.st
        l, r = result
        g = ctx.p.fresh_int("g")
        acc = 0
        in_l, in_r = [], []
        for i, n in enumerate(ctx.nums):
            if n is None:
                continue
            blk = And(acc <= g, g < acc + n)
            (in_l if i in lhs else in_r).append(blk)
            acc = acc + n
        return [
            ("lhs_is_exactly_the_named_blocks", Implies(And(0 <= g, g < acc), selected(l, g) == Or(*in_l))),
            ("rhs_is_exactly_the_other_blocks", Implies(And(0 <= g, g < acc), selected(r, g) == Or(*in_r))),
            ("nothing_outside_the_event_dims", Implies(Or(g < 0, g >= acc), And(Not(selected(l, g)), Not(selected(r, g))))),
        ]


class PartA(MTerm):
    def __init__(self, k, size, part_name):
        self.k = k
        self.inputs = OrderedDict([(part_name, MDom(size, ()))])


class OutAdj(MTerm):
    def __init__(self, inputs):
        self.inputs = OrderedDict(inputs)

    def __call__(self, **kw):
        return ("restricted", self, tuple(kw.items()))


@register
class AdjointCat(Contract):
    """adjoint_cat(..., out_adj, name, parts, part_name): every part receives the adjoint restricted to ITS OWN interval of the
    concatenated input, expressed over the part's own input name: part k gets out_adj(name=Slice(part_name, off_k,
    off_k + n_k, 1, total)) with off_k the sum of the earlier parts' sizes -- the intervals tile [0, total) in order; if the
    adjoint does not depend on the Cat's name every part receives it unchanged (name and part_name may differ). structure bound: <= 4 parts; sizes symbolic."""

    props = ("C11",)
    file = "funsor/adjoint.py"
    qualname = "adjoint_cat"
    total = True
    mutants = (("tests the part name instead of the Cat's name (the pinned-tree defect)", "if name not in out_adj.inputs:", "if part_name not in out_adj.inputs:"), ("start not advanced", "start += part.inputs[part_name].dtype", "start += 0"), ("interval one too long", "part_name, start, start + part.inputs[part_name].dtype, 1, size", "part_name, start, start + part.inputs[part_name].dtype + 1, 1, size"))

    def structures(self, tier):
        for n in (1, 2, 3, 4):
            for dep in (True, False):
                for pn in ("t", "p"):
                    yield "parts=%d,adjoint_depends_on_cat_name=%s,part_name=%s" % (n, dep, pn), (n, dep, pn)

    def build(self, p, st):
        n, dep, pn = st
        szs = []
        for k in range(n):
            s = p.fresh_int("n%d" % k)
            p.assume(s >= 1)
            szs.append(s)
        parts = tuple(PartA(k, s, pn) for k, s in enumerate(szs))
        out_adj = OutAdj([("t", MDom(sum(szs), ()))] if dep else [("u", MDom(3, ())), (pn + "x", MDom(2, ()))])
        return Ctx(args=("sum", "prod", out_adj, "t", parts, pn), namespace={"Slice": SliceM, "sum": core.ssum, "enumerate": enumerate}, parts=parts, szs=szs, out_adj=out_adj, st=st)

    def ensures(self, ctx, result):
        n, dep, pn = ctx.st
        if not dep:
            return [("unchanged_adjoint_for_every_part", isinstance(result, tuple) and len(result) == n and all(r[0] is q and r[1] is ctx.out_adj for r, q in zip(result, ctx.parts)))]
        total = sum(ctx.szs)
        cl = []
        ok = isinstance(result, tuple) and len(result) == n
        if not ok:
            return [("one_adjoint_per_part", False)]
        off = 0
        for k, (r, q) in enumerate(zip(result, ctx.parts)):
            shape_ok = r[0] is q and isinstance(r[1], tuple) and r[1][0] == "restricted" and r[1][1] is ctx.out_adj and len(r[1][2]) == 1 and r[1][2][0][0] == "t" and isinstance(r[1][2][0][1], SliceM) and r[1][2][0][1].name == pn
            if not shape_ok:
                return [("part%d_gets_a_slice_of_the_adjoint" % k, False)]
            sl = r[1][2][0][1]
            cl.append(("part%d_interval" % k, And(deep_eq(sl.slice.start, off), deep_eq(sl.slice.stop, off + ctx.szs[k]), deep_eq(sl.slice.step, 1), deep_eq(sl.dtype, total), deep_eq(sl.size, ctx.szs[k]))))
            off = off + ctx.szs[k]
        return cl


class Arr:
    """opaque array recording slicing / transposition"""

    def __init__(self, tag, last=None, before_last=None):
        self.tag = tag
        self.shape = ("batch", before_last, last)

    def __sym_getitem__(self, idx):
        return Arr(("getitem", self.tag, idx))


class BV:
    def __init__(self, shape):
        self.shape, self.assigned, self.done = shape, [], False

    def __sym_setitem__(self, idx, value):
        self.assigned.append((idx, value))

    def as_tensor(self):
        self.done = True
        return Arr(("blockvector", id(self)))


@register
class AlignGaussian(Contract):
    """gaussian.align_gaussian(new_inputs, old, expand): the real inputs are laid out by _compute_offsets (contract above) in
    the NEW order: for every real input k of `old`, the block of prec_sqrt rows [new_off_k, new_off_k + n_k) is filled from
    exactly the old block [old_off_k, old_off_k + n_k) (same length), real inputs that `old` lacks get no block (zero
    fill), and when the offsets coincide nothing is copied; the batch (integer) inputs are re-aligned through align_tensor
    only when they differ. structure bound: <= 3 real inputs in any two orders, optional extra new real input."""

    props = ("C12", "C19")
    file = "funsor/gaussian.py"
    qualname = "align_gaussian"
    total = True
    mutants = (("block read at the new offset", "offset = old_offsets[k]", "offset = new_offset"), ("blocks keep the old length of another input", "num_elements = old.inputs[k].num_elements", "num_elements = new_inputs[k].num_elements if k in new_inputs else 0; num_elements = old.inputs[sorted(old.inputs)[0]].num_elements"))

    def structures(self, tier):
        for n in (1, 2, 3):
            reals = "xyz"[:n]
            for old in itertools.permutations(reals):
                for new in itertools.permutations(reals):
                    for extra in (False, True):
                        yield "old=%s,new=%s%s" % ("".join(old), "".join(new), "+w" if extra else ""), (old, new, extra)

    def build(self, p, st):
        old_o, new_o, extra = st
        numel = {}
        for k in "xyzw":
            v = p.fresh_int("n_" + k)
            p.assume(v >= 1)
            numel[k] = v
        bdom = Dom(3, 1)
        old_inputs = OrderedDict([("b", bdom)] + [(k, Dom("real", numel[k])) for k in old_o])
        new_list = [("b", bdom)] + [(k, Dom("real", numel[k])) for k in new_o]
        if extra:
            new_list.insert(1, ("w", Dom("real", numel["w"])))
        new_inputs = OrderedDict(new_list)

        def offsets(inputs):
            off, tot = OrderedDict(), 0
            for k, d in inputs.items():
                if d.dtype == "real":
                    off[k] = tot
                    tot = tot + d.num_elements
            return off, tot

        old_off, old_dim = offsets(old_inputs)

        class Old:
            inputs = old_inputs
            white_vec = Arr("white_vec")
            prec_sqrt = Arr("prec_sqrt", "rank", old_dim)

        class GaussianCls:
            @staticmethod
            def __sym_instancecheck__(x):
                return isinstance(x, Old)

        bvs = []

        def BlockVector(shape):
            b = BV(shape)
            bvs.append(b)
            return b

        class OpsNS:
            @staticmethod
            def transpose(a, i, j):
                r = Arr(("T", a.tag))
                r.shape = (a.shape[0], a.shape[2], a.shape[1]) if len(a.shape) == 3 else a.shape
                return r

        calls = []

        def align_tensor(*a, **k):
            calls.append(a)
            return Arr("aligned")

        ns = dict(OrderedDict=OrderedDict, Gaussian=GaussianCls, _compute_offsets=offsets, BlockVector=BlockVector, ops=OpsNS, align_tensor=align_tensor, Tensor=lambda d, i: ("Tensor", d), slice=slice)
        return Ctx(args=(new_inputs, Old()), namespace=ns, st=st, numel=numel, bvs=bvs, old_off=old_off, new_off=offsets(new_inputs)[0], calls=calls)

    def ensures(self, ctx, result):
        old_o, new_o, extra = ctx.st
        same = (not extra) and tuple(old_o) == tuple(new_o)
        cl = [("batch_inputs_untouched_when_equal", ctx.calls == [])]
        if same:
            return cl + [("no_copy_when_offsets_coincide", ctx.bvs == [])]
        if len(ctx.bvs) != 1 or not ctx.bvs[0].done:
            return cl + [("one_block_vector_built", False)]
        asg = ctx.bvs[0].assigned
        ok = len(asg) == len(old_o)
        conds = []
        for (idx, val), k in zip(asg, [k for k in ctx.new_off if k in old_o]):
            good = isinstance(idx, tuple) and idx[0] is Ellipsis and isinstance(idx[1], slice) and isinstance(val, Arr) and val.tag[0] == "getitem" and isinstance(val.tag[2], tuple) and isinstance(val.tag[2][1], slice)
            if not good:
                ok = False
                break
            ns_, os_ = idx[1], val.tag[2][1]
            n = ctx.numel[k]
            conds.append(And(deep_eq(ns_.start, ctx.new_off[k]), deep_eq(ns_.stop, ctx.new_off[k] + n), deep_eq(os_.start, ctx.old_off[k]), deep_eq(os_.stop, ctx.old_off[k] + n)))
        cl.append(("each_old_block_moves_to_its_new_offset_with_its_own_length", And(*conds) if ok else False))
        return cl


# ==================================================================================================
# C13: Gaussian plate sum (Gaussian.eager_reduce with ops.add): the square-root factors are stacked along the rank axis
# ==================================================================================================
class RecArr:
    """opaque array that records the layout operations applied to it"""

    def __init__(self, tag, shape):
        self.tag, self.shape = tag, tuple(shape)

    def reshape(self, shape):
        return RecArr(("reshape", self.tag, tuple(shape)), tuple(s for s in shape))


@register
class GaussianPlateSum(Contract):
    """Gaussian.eager_reduce(ops.add, reduced): summing a Gaussian along batch inputs (a plate) stacks the square-root factors:
    -1/2 sum_i |x S_i - w_i|^2 == -1/2 |x [S_1 .. S_m] - [w_1 .. w_m]|^2.  The data of a Gaussian carries one leading dim per
    INTEGER input, in input order (Gaussian.__init__), then the rank axis (white_vec) / the dim and rank axes (prec_sqrt).
    ensures: white_vec is permuted by  kept batch dims (original order) ++ reduced batch dims ++ [rank axis]  and reshaped
    to  kept sizes ++ (-1,);  prec_sqrt by  kept ++ [dim axis] ++ reduced ++ [rank axis]  and reshaped to kept sizes ++
    (dim, -1) -- every position is a position AMONG THE INTEGER INPUTS, whatever real inputs are interleaved -- and the result
    is Gaussian(those arrays, the inputs without the reduced ones, order kept).  numpy's permute / reshape(-1) semantics then
    give result[kept idx, flat(reduced idx, r)] == self[kept idx, reduced idx, r].
    structure bound: <= 4 inputs in every int / real interleaving, every non-empty reduced subset of the int inputs."""

    props = ("C13",)
    file = "funsor/gaussian.py"
    qualname = "Gaussian.eager_reduce"
    total = True
    mutants = (
        ("batch dims indexed among all inputs (the pinned-tree defect)", "                    dim = len(old_ints)\n", "                    dim = i\n"),
        ("reduced dims placed before the kept ones", "            perm = kept_perm + reduced_perm + [n]\n            white_vec", "            perm = reduced_perm + kept_perm + [n]\n            white_vec"),
    )

    def structures(self, tier):
        for n in (1, 2, 3, 4):
            for pat in itertools.product("ir", repeat=n):
                ints = [k for k, c in enumerate(pat) if c == "i"]
                if not ints or (tier == "quick" and n == 4 and pat.count("i") > 3):
                    continue
                for r in range(1, len(ints) + 1):
                    for red in itertools.combinations(ints, r):
                        yield "inputs=%s,reduced=%s" % ("".join(pat), list(red)), (pat, red)

    def build(self, p, st):
        pat, red = st
        inputs = OrderedDict()
        sizes = {}
        for k, c in enumerate(pat):
            nm = "k%d" % k
            if c == "i":
                s = 2 + k
                sizes[nm] = s
                inputs[nm] = Dom(s, 1)
            else:
                inputs[nm] = Dom("real", 1)
        int_names = [nm for nm, d in inputs.items() if d.dtype != "real"]
        batch = tuple(sizes[nm] for nm in int_names)
        dim = sum(1 for c in pat if c == "r")

        class Self:
            pass

        s = Self()
        s.inputs = inputs
        s.white_vec = RecArr("white_vec", batch + (7,))
        s.prec_sqrt = RecArr("prec_sqrt", batch + (dim, 7))
        made = []

        class Ops:
            logaddexp = "logaddexp"
            add = "add"

            @staticmethod
            def permute(a, perm):
                return RecArr(("permute", a.tag, tuple(perm)), tuple(a.shape[i] for i in perm))

        def Gaussian(white_vec, prec_sqrt, inputs_):
            made.append((white_vec, prec_sqrt, inputs_))
            return ("Gaussian", len(made) - 1)

        reduced = frozenset("k%d" % k for k in red)
        ns = dict(ops=Ops, OrderedDict=OrderedDict, Gaussian=Gaussian, ValueError=ValueError, enumerate=enumerate, len=len, repr=repr, frozenset=frozenset, all=core.sall)
        return Ctx(args=(s, Ops.add, reduced), namespace=ns, st=st, made=made, int_names=int_names, sizes=sizes, reduced=reduced, inputs=inputs, dim=dim)

    def ensures(self, ctx, result):
        if result != ("Gaussian", 0) or len(ctx.made) != 1:
            return [("returns_one_gaussian", False)]
        w, S, ins = ctx.made[0]
        ints = ctx.int_names
        kept = [i for i, nm in enumerate(ints) if nm not in ctx.reduced]
        redp = [i for i, nm in enumerate(ints) if nm in ctx.reduced]
        n = len(ints)
        kept_sizes = tuple(ctx.sizes[ints[i]] for i in kept)
        exp_w = ("reshape", ("permute", "white_vec", tuple(kept + redp + [n])), kept_sizes + (-1,))
        exp_S = ("reshape", ("permute", "prec_sqrt", tuple(kept + [n] + redp + [n + 1])), kept_sizes + (ctx.dim, -1))
        exp_inputs = [k for k in ctx.inputs if k not in ctx.reduced]
        return [("white_vec_stacked_along_rank", w.tag == exp_w), ("prec_sqrt_stacked_along_rank", S.tag == exp_S), ("inputs_without_the_plate_order_kept", list(ins) == exp_inputs and all(ins[k] is ctx.inputs[k] for k in exp_inputs))]


# ==================================================================================================
# C12 / C04: Gaussian._eager_subs_real -- block bookkeeping of substituting real values
# ==================================================================================================
class LArr:
    """formal array: a tag plus a shape; slicing rows of prec_sqrt / concatenating blocks / products are recorded"""

    def __init__(self, tag, shape=()):
        self.tag, self.shape = tag, tuple(shape)

    def reshape(self, shape):
        shape = list(shape)
        if -1 in shape:
            total = 1
            for d in self.shape:
                total *= d
            known = 1
            for d in shape:
                if d != -1:
                    known *= d
            shape[shape.index(-1)] = total // known
        return LArr(self.tag, tuple(shape))

    def __getitem__(self, idx):
        # prec_sqrt[..., i, :]: the row block i
        if isinstance(idx, tuple) and len(idx) == 3 and idx[0] is Ellipsis and isinstance(idx[1], slice) and idx[2] == slice(None):
            return LArr(("rows", self.tag, (idx[1].start, idx[1].stop)), self.shape[:-2] + (idx[1].stop - idx[1].start, self.shape[-1]))
        raise Unsupported("indexing form outside the block model")

    def __sub__(self, other):
        return LArr(("sub", self.tag, other.tag), self.shape)

    def __rmul__(self, c):
        return LArr(("scale", c, self.tag), self.shape)


@register
class GaussianSubsRealBlocks(Contract):
    """Gaussian._eager_subs_real(subs, remaining): with the Gaussian read block-wise, g(x) = -1/2 | sum_k x_k P_k - w |^2 (P_k the
    rows of prec_sqrt at k's offsets, contract ComputeOffsets), substituting values v_k for the real inputs k in b gives
      partial (some real input stays):  Gaussian(w - sum_{k in b} v_k P_k,  rows P_k for the remaining k IN THE ORDER OF THE
        RESULT'S REAL INPUTS,  inputs = aligned batch inputs ++ remaining real inputs in order);
      complete (b = all real inputs):   Tensor(-1/2 | sum_k v_k P_k - w |^2) with each v_k placed at k's own offsets;
    in both cases EVERY value is multiplied with the rows of ITS OWN input, whatever order the pairs are given in (the
    order of the pairs is the caller's: explicit Subs, fused chains), and the remaining pairs are applied to the result.
    Batch alignment (align_tensors / broadcasting) and the numerics of the products are the callees' (bounded tier).
    structure bound: 2..3 real inputs of equal size (so that a mix-up is not caught by shapes), one batch input, every
    non-empty subset substituted, pairs given in every order."""

    props = ("C12", "C04")
    file = "funsor/gaussian.py"
    qualname = "Gaussian._eager_subs_real"
    total = True
    mutants = (
        ("values concatenated in the order of the pairs", "        value_b = ops.cat([values[k] for k, i in slices if k in b], -1)", "        value_b = ops.cat(list(values.values()), -1)"),
        ("remaining rows taken in the order of the pairs' complement reversed", "        prec_sqrt_a = ops.cat([prec_sqrt[..., i, :] for k, i in slices if k in a], -2)", "        prec_sqrt_a = ops.cat([prec_sqrt[..., i, :] for k, i in reversed(slices) if k in a], -2)"),
        ("value written at the offsets of the next input", "                    value[..., i] = values[k]", "                    value[..., slices[(list(values).index(k) + 1) % len(slices)][1]] = values[k]"),
    )

    def structures(self, tier):
        for pat in ("xy", "xyz", "xiy", "ixyz"):
            reals = [c for c in pat if c != "i"]
            for r in range(1, len(reals) + 1):
                for sub in itertools.permutations(reals, r):
                    for rem in (False, True):
                        yield "inputs=%s,pairs=%s,remaining=%s" % (pat, "".join(sub), rem), (pat, sub, rem)

    def build(self, p, st):
        pat, sub, rem = st
        N = 2
        inputs = OrderedDict()
        for c in pat:
            inputs[c] = Dom(3, 1) if c == "i" else Dom("real", N)
        reals = [c for c in pat if c != "i"]
        dim = N * len(reals)
        batch = (3,) if "i" in pat else ()

        class Self:
            pass

        s = Self()
        s.inputs = inputs
        s.white_vec = LArr("w", batch + (7,))
        s.prec_sqrt = LArr("P", batch + (dim, 7))

        class TensorT:
            def __init__(self, data, inputs_=None):
                self.data, self.inputs = data, inputs_ if inputs_ is not None else OrderedDict()
                self.shape = data.shape

        class TensorCls:
            @staticmethod
            def __sym_instancecheck__(x):
                return isinstance(x, TensorT)

            def __call__(self, data, inputs_=None):
                return tensor_out[0](data, inputs_)

        tensor_out = [TensorT]
        TensorK = TensorCls()
        values = OrderedDict((k, TensorT(LArr(("v", k), batch + (N,)))) for k in sub)
        made, subs_calls = [], []

        def align_tensors(*ts):
            ii = OrderedDict((k, d) for k, d in inputs.items() if d.dtype != "real")
            return ii, [t.data for t in ts]

        def compute_offsets(ins):
            off, tot = OrderedDict(), 0
            for k, d in ins.items():
                if d.dtype == "real":
                    off[k] = tot
                    tot += d.num_elements
            return off, tot

        class BV:
            def __init__(self, shape):
                self.shape, self.parts = shape, {}

            def __sym_setitem__(self, idx, val):
                if not (isinstance(idx, tuple) and idx[0] is Ellipsis and isinstance(idx[1], slice)):
                    raise Unsupported("BlockVector index")
                self.parts[(idx[1].start, idx[1].stop)] = val

            __setitem__ = __sym_setitem__

            def as_tensor(self):
                return LArr(("blockvector", tuple(sorted((k, v.tag) for k, v in self.parts.items()))), self.shape)

        class Ops:
            @staticmethod
            def cat(parts, axis):
                parts = list(parts)
                sh = list(parts[0].shape)
                sh[axis] = sum(q.shape[axis] for q in parts)
                return LArr(("cat", tuple(q.tag for q in parts), axis), sh)

            @staticmethod
            def expand(a, shape):
                return LArr(a.tag, tuple(shape) if -1 not in shape else a.shape)

            @staticmethod
            def new_full(proto, shape, v):
                return LArr(("const", v), shape)

        def vm(vec, mat):
            return LArr(("vm", vec.tag, mat.tag), vec.shape[:-1] + mat.shape[-1:])

        def norm2(vec):
            return LArr(("norm2", vec.tag), vec.shape[:-1])

        class ResT:
            output = "Real"

            def __init__(self, k):
                self.k = k

            def __eq__(self, o):
                return isinstance(o, ResT) and o.k == self.k

            def __hash__(self):
                return hash(("ResT", self.k))

        def GaussianK(w, S, ins):
            made.append(("Gaussian", w, S, ins))
            return ResT(len(made) - 1)

        def TensorOut(data, ins=None):
            if isinstance(data, LArr) and data.tag[0] == "scale":
                made.append(("Tensor", data, ins))
                return ResT(len(made) - 1)
            return TensorT(data, ins)

        tensor_out[0] = TensorOut

        def SubsK(res, remaining):
            subs_calls.append((res, remaining))
            return ("Subs", res, remaining)

        remaining = (("zz", "lazy"),) if rem else ()
        ns = dict(OrderedDict=OrderedDict, Tensor=TensorK, ops=Ops, align_tensors=align_tensors, broadcast_shape=lambda *shs: batch, _compute_offsets=compute_offsets, BlockVector=BV,
                  get_tracing_state=lambda: False, _vm=vm, _norm2=norm2, Gaussian=GaussianK, Subs=SubsK, Real="Real", frozenset=frozenset, slice=slice, zip=zip, len=len, all=core.sall, isinstance=core.sisinstance)
        return Ctx(args=(s, tuple(values.items()), remaining), namespace=ns, st=st, made=made, subs_calls=subs_calls, reals=reals, N=N, remaining=remaining, inputs=inputs, ResT=ResT)

    def ensures(self, ctx, result):
        pat, sub, rem = ctx.st
        N, reals = ctx.N, ctx.reals
        off = {k: (j * N, j * N + N) for j, k in enumerate(reals)}
        if len(ctx.made) != 1:
            return [("one_result_built", False)]
        inner = ctx.ResT(0)
        wrap_ok = (result == ("Subs", inner, ctx.remaining) and len(ctx.subs_calls) == 1) if rem else (result == inner and not ctx.subs_calls)
        cl = [("remaining_pairs_applied_to_the_result", wrap_ok)]
        kept = [k for k in reals if k not in sub]
        if kept:
            kind, w, S, ins = ctx.made[0]
            ok = kind == "Gaussian"
            pairs_ok = rows_ok = ins_ok = False
            if ok and w.tag[0] == "sub" and w.tag[1] == "w" and w.tag[2][0] == "vm":
                vt, pt = w.tag[2][1], w.tag[2][2]
                if vt[0] == "cat" and pt[0] == "cat" and len(vt[1]) == len(pt[1]):
                    got = sorted(zip(vt[1], pt[1]))
                    exp = sorted((("v", k), ("rows", "P", off[k])) for k in sub)
                    pairs_ok = got == exp
            if ok and S.tag[0] == "cat":
                rows_ok = list(S.tag[1]) == [("rows", "P", off[k]) for k in kept]
            if ok:
                ins_ok = list(ins) == [c for c in pat if c == "i"] + kept
            cl += [("every_value_meets_the_rows_of_its_own_input", pairs_ok), ("remaining_rows_in_the_order_of_the_results_real_inputs", rows_ok), ("inputs_batch_then_remaining_reals", ins_ok)]
        else:
            kind, data, ins = ctx.made[0]
            ok = kind == "Tensor" and data.tag[0] == "scale" and data.tag[1] == -0.5 and data.tag[2][0] == "norm2"
            placed = False
            if ok:
                inner_t = data.tag[2][1]
                if inner_t[0] == "sub" and inner_t[2] == "w" and inner_t[1][0] == "vm" and inner_t[1][2] == "P" and inner_t[1][1][0] == "blockvector":
                    placed = dict(inner_t[1][1][1]) == {off[k]: ("v", k) for k in sub}
            cl += [("complete_substitution_evaluates_the_quadratic_form", ok), ("every_value_placed_at_its_own_offsets", placed), ("result_over_the_batch_inputs", ok and list(ins) == [c for c in pat if c == "i"])]
        return cl


# ==================================================================================================
# C12 / C04: Gaussian.eager_subs -- which pairs are applied first
# ==================================================================================================
class ValK:
    def __init__(self, kind, tag):
        self.kind, self.tag = kind, tag
        self.dtype = "real" if kind in ("real_num", "real_tensor", "affine", "lazy", "var_real") else 3
        self.affine = kind == "affine"

    def __repr__(self):
        return "%s:%s" % (self.kind, self.tag)


@register
class GaussianEagerSubsOrder(Contract):
    """Gaussian.eager_subs(subs): pairs whose key is not an input are ignored; nothing substituted returns self; otherwise
    ONE class of pairs is applied now and every other pair is handed on, unchanged and in a fixed order, as `remaining`:
      renamings (Variable values) first; else the integer-valued pairs (Number / Tensor / Slice of integer dtype) -- BEFORE
      any real-valued pair, because a real value may carry its own caller-side batch inputs, which an index applied after
      it would capture (g(i=1, x=v(i))) --; else the real constants / tensors; else the affine values; else a lazy Subs.
    No pair is lost or duplicated: applied ++ remaining is a permutation of the pairs whose key is an input.
    structure bound: <= 3 pairs over 8 kinds of value, one foreign key."""

    props = ("C12", "C04")
    file = "funsor/gaussian.py"
    qualname = "Gaussian.eager_subs"
    total = True
    mutants = (
        ("real values applied before indices", "        if int_subs:\n            return self._eager_subs_int(int_subs, real_subs + affine_subs + lazy_subs)\n        if real_subs:\n            return self._eager_subs_real(real_subs, affine_subs + lazy_subs)", "        if real_subs:\n            return self._eager_subs_real(real_subs, int_subs + affine_subs + lazy_subs)\n        if int_subs:\n            return self._eager_subs_int(int_subs, affine_subs + lazy_subs)"),
        ("affine pairs dropped when an index is applied", "return self._eager_subs_int(int_subs, real_subs + affine_subs + lazy_subs)", "return self._eager_subs_int(int_subs, real_subs + lazy_subs)"),
    )

    KINDS = ["var", "int_num", "int_tensor", "slice", "real_num", "real_tensor", "affine", "lazy"]

    def structures(self, tier):
        yield "pairs=-", ()
        yield "pairs=foreign-only", ("foreign",)
        for n in (1, 2, 3):
            for ks in itertools.product(self.KINDS, repeat=n):
                if tier == "quick" and n == 3 and len(set(ks)) < 2:
                    continue
                yield "pairs=%s" % ",".join(ks), ks
        yield "pairs=foreign,int_num,real_tensor", ("foreign", "int_num", "real_tensor")

    def build(self, p, ks):
        names = ["a", "b", "c"]
        calls = []

        class VariableT(ValK):
            pass

        class SliceT(ValK):
            pass

        class NumberT(ValK):
            pass

        class TensorT(ValK):
            pass

        cls_of = {"var": VariableT, "slice": SliceT, "int_num": NumberT, "real_num": NumberT, "int_tensor": TensorT, "real_tensor": TensorT, "affine": ValK, "lazy": ValK, "foreign": NumberT}
        subs = []
        j = 0
        for k in ks:
            if k == "foreign":
                subs.append(("zz", NumberT("int_num", "zz")))
                continue
            nm = names[j]
            j += 1
            subs.append((nm, cls_of[k](k, nm)))

        class Self:
            pass

        s = Self()
        s.inputs = OrderedDict((n, "dom") for n in names)
        s.white_vec = "w"
        for m in ("_eager_subs_var", "_eager_subs_int", "_eager_subs_real", "_eager_subs_affine"):
            setattr(s, m, lambda applied, remaining, m=m: calls.append((m, applied, remaining)) or ("delegated", m))

        class Proto:
            def materialize(self, v):
                return v

        class Reflect:
            @staticmethod
            def interpret(cls, arg, lazy_subs):
                calls.append(("lazy_Subs", lazy_subs, ()))
                return ("delegated", "lazy_Subs")

        def isinst(x, c):
            if isinstance(c, tuple):
                return any(isinst(x, cc) for cc in c)
            return isinstance(x, c)

        ns = dict(Tensor=type("TK", (), {"__call__": lambda self_, d: Proto(), "__sym_instancecheck__": staticmethod(lambda x: isinstance(x, TensorT))})(), Variable=VariableT, Slice=SliceT, Number=NumberT,
                  is_affine=lambda v: v.affine, affine_inputs=lambda v: frozenset(["u"]) if v.affine else frozenset(), reflect=Reflect, Subs="SubsCls", isinstance=core.sisinstance, tuple=tuple)
        return Ctx(args=(s, tuple(subs)), namespace=ns, s=s, subs=subs, calls=calls, ks=ks)

    def ensures(self, ctx, result):
        live = [(k, v) for k, v in ctx.subs if k in ctx.s.inputs]
        if not live:
            return [("nothing_to_substitute_returns_self", result is ctx.s and not ctx.calls)]
        if len(ctx.calls) != 1:
            return [("exactly_one_delegation", False)]
        m, applied, remaining = ctx.calls[0]
        kinds = [v.kind for k, v in live]
        if "var" in kinds:
            exp_m, sel = "_eager_subs_var", {"var"}
        elif any(k in ("int_num", "int_tensor", "slice") for k in kinds):
            exp_m, sel = "_eager_subs_int", {"int_num", "int_tensor", "slice"}
        elif any(k in ("real_num", "real_tensor") for k in kinds):
            exp_m, sel = "_eager_subs_real", {"real_num", "real_tensor"}
        elif "affine" in kinds:
            exp_m, sel = "_eager_subs_affine", {"affine"}
        else:
            exp_m, sel = "lazy_Subs", {"lazy"}
        exp_applied = [(k, v) for k, v in live if v.kind in sel]
        both = list(applied) + list(remaining)
        no_loss = len(both) == len(live) and all(any(k is k2 and v is v2 for k2, v2 in both) for k, v in live)
        order = [["var"], ["int_num", "int_tensor", "slice"], ["real_num", "real_tensor"], ["affine"], ["lazy"]]
        rank = {k: i for i, grp in enumerate(order) for k in grp}
        rem_sorted = all(rank[a[1].kind] <= rank[b[1].kind] for a, b in zip(remaining, list(remaining)[1:]))
        return [("right_class_applied_first", m == exp_m and list(applied) == exp_applied and result == ("delegated", exp_m)), ("no_pair_lost_or_duplicated", no_loss), ("remaining_pairs_grouped_indices_before_real_values", rem_sorted)]


# ==================================================================================================
# C12: joint.eager_cat_homogeneous -- concatenating Gaussians along a batch input
# ==================================================================================================
@register
class GaussianCatLayout(Contract):
    """joint.eager_cat_homogeneous(name, part_name, *Gaussians): every part is aligned to ONE joint layout -- part_name's dim
    first, then the other integer inputs (first-appearance order), then the real inputs -- and expanded to it; the parts are
    concatenated along dim 0 in the given order; the result is Gaussian(cat of white_vecs, cat of prec_sqrts, inputs) whose
    inputs list `name` (size = sum of the parts' sizes) FIRST, exactly where the data has the concatenated dim, then the other
    inputs in the layout order -- also when name differs from part_name (the repaired defect appended it last).
    structure bound: 2..3 parts of equal rank, with / without another batch input, inputs in two orders, name == or !=
    part_name.  (Mixture parts and rank padding go through the same layout; they are covered by the bounded tier.)"""

    props = ("C12",)
    file = "funsor/joint.py"
    qualname = "eager_cat_homogeneous"
    total = True
    mutants = (
        ("new name appended after the other inputs (the pinned-tree defect)", "    inputs = OrderedDict(\n        (name, domain) if k == part_name else (k, v) for k, v in inputs.items()\n    )", "    inputs = OrderedDict((k, v) for k, v in inputs.items() if k != part_name)\n    inputs[name] = domain"),
        ("parts concatenated in reverse", "    white_vec = ops.cat(white_vecs, dim)", "    white_vec = ops.cat(white_vecs[::-1], dim)"),
    )

    def structures(self, tier):
        for nparts in (2, 3):
            for pat in (("t", "x"), ("t", "j", "x"), ("x", "j", "t"), ("j", "x", "t", "y")):
                for nm in ("t", "s"):
                    yield "parts=%d,inputs=%s,name=%s" % (nparts, ",".join(pat), nm), (nparts, pat, nm)

    def build(self, p, st):
        nparts, pat, nm = st

        class GaussT:
            output = "Real"

            def __init__(self, k, tsize):
                self.k = k
                self.inputs = OrderedDict()
                for c in pat:
                    if c == "t":
                        self.inputs[c] = Dom(tsize, 1)
                        self.inputs[c].size = tsize
                    elif c == "j":
                        d = Dom(4, 1)
                        d.size = 4
                        self.inputs[c] = d
                    else:
                        self.inputs[c] = Dom("real", 2)

        parts = tuple(GaussT(k, 2 + k) for k in range(nparts))
        made = []

        class GaussCls:
            @staticmethod
            def __sym_instancecheck__(x):
                return isinstance(x, GaussT)

            def __call__(self, w, S, ins):
                made.append((w, S, ins))
                return ("Gaussian", len(made) - 1)

        def align_gaussian(inputs, g):
            layout = tuple((k, getattr(d, "size", None)) for k, d in inputs.items())
            return RecArr(("w", g.k, layout), (1, 7)), RecArr(("S", g.k, layout), (1, 4, 7))

        class Ops:
            @staticmethod
            def expand(a, shape):
                return RecArr(("expand", a.tag, tuple(shape)), tuple(s if s != -1 else a.shape[i - len(shape)] for i, s in enumerate(shape)))

            @staticmethod
            def cat(parts_, dim):
                parts_ = list(parts_)
                sh = list(parts_[0].shape)
                sh[dim] = sum(q.shape[dim] for q in parts_)
                return RecArr(("cat", tuple(q.tag for q in parts_), dim), sh)

        class BintNS2:
            def __getitem__(self, n):
                d = Dom(n, 1)
                d.size = n
                return d

        ns = dict(OrderedDict=OrderedDict, Gaussian=GaussCls(), GaussianMixture=type("GM", (), {}), ops=Ops, align_gaussian=align_gaussian, Bint=BintNS2(), isinstance=core.sisinstance, issubclass=issubclass, type=type, tuple=tuple, max=max, enumerate=enumerate, zip=zip, any=core.sany, NotImplementedError=NotImplementedError)
        return Ctx(args=(nm, "t") + parts, namespace=ns, parts=parts, made=made, st=st)

    def ensures(self, ctx, result):
        nparts, pat, nm = ctx.st
        if result != ("Gaussian", 0) or len(ctx.made) != 1:
            return [("one_gaussian", False)]
        w, S, ins = ctx.made[0]
        ints = ["t"] + [c for c in pat if c == "j"]
        reals = [c for c in pat if c not in ("t", "j")]
        exp_names = [nm] + ints[1:] + reals
        total = sum(2 + k for k in range(nparts))
        names_ok = list(ins) == exp_names and ins[nm].size == total
        cl = [("new_input_first_then_the_joint_layout", names_ok)]
        ok_w = w.tag[0] == "cat" and w.tag[2] == 0 and len(w.tag[1]) == nparts
        ok_S = S.tag[0] == "cat" and S.tag[2] == 0 and len(S.tag[1]) == nparts
        order = ok_w and ok_S
        if order:
            for k in range(nparts):
                layout = tuple([("t", 2 + k)] + [(c, 4) for c in ints[1:]] + [(c, None) for c in reals])
                shape = (2 + k,) + (4,) * (len(ints) - 1)
                order = order and w.tag[1][k] == ("expand", ("w", k, layout), shape + (-1,)) and S.tag[1][k] == ("expand", ("S", k, layout), shape + (-1, -1))
        cl.append(("parts_aligned_to_one_layout_and_concatenated_in_order_along_dim_0", bool(order)))
        return cl


# ==================================================================================================
# C04 / C12: Gaussian._eager_subs_var -- renaming some inputs while other pairs are still to be applied
# ==================================================================================================
@register
class GaussianEagerSubsVar(Contract):
    """Gaussian._eager_subs_var(renamings, remaining pairs): the call denotes the SIMULTANEOUS substitution of all pairs.  Read
    denotationally (the Gaussian an opaque function G of the values at its input positions, a value v an opaque function of the
    values of the names it mentions, Subs(t, pairs) evaluating t in the environment updated by all pairs at once), at every
    environment:
        result  ==  G( position k:  env[new name]  if k is renamed;   v_k(env)  if (k, v_k) is a remaining pair;   env[k] otherwise )
    -- in particular a remaining value that mentions the OLD name of a renamed input reads the caller's variable of that name,
    not the renamed input, and one that mentions the NEW name reads the same variable the renamed input now reads.  Renaming
    two inputs onto one name, or onto the name of an input that stays, raises ValueError.
    structure bound: inputs i, x, y; renamings of i and / or x; 0..2 remaining pairs whose values mention an old name, a new
    name, another input, a foreign name."""

    props = ("C04", "C12")
    file = "funsor/gaussian.py"
    qualname = "Gaussian._eager_subs_var"
    total = True
    mutants = (
        ("values substituted before the renaming (seeded C04_gaussian_rename_after_values)", "        rename = {k: v.name for k, v in subs}", "        if remaining_subs:\n            return Subs(Subs(self, remaining_subs), subs)\n        rename = {k: v.name for k, v in subs}"),
        ("remaining pairs dropped", "        return Subs(var_result, remaining_subs) if remaining_subs else var_result", "        return var_result"),
    )

    def structures(self, tier):
        renames = [(("i", "j"),), (("x", "z"),), (("i", "j"), ("x", "z")), (("i", "x"), ("x", "i")), (("i", "y"),), (("i", "k"), ("x", "k"))]
        mention_sets = [("i",), ("j",), ("y",), ("q",), ("i", "j"), ("z", "x")]
        for rn in renames:
            yield "rename=%s,remaining=-" % (",".join("%s>%s" % r for r in rn)), (rn, ())
            free_keys = [k for k in ("x", "y") if k not in dict(rn)]
            for key in free_keys:
                for ms in mention_sets:
                    yield "rename=%s,remaining=%s:v(%s)" % (",".join("%s>%s" % r for r in rn), key, ",".join(ms)), (rn, ((key, ms),))
            if len(free_keys) == 2 and tier != "quick":
                for ms1 in mention_sets[:3]:
                    for ms2 in mention_sets[:3]:
                        yield "rename=%s,remaining=x:v(%s),y:v(%s)" % (",".join("%s>%s" % r for r in rn), ",".join(ms1), ",".join(ms2)), (rn, (("x", ms1), ("y", ms2)))

    def build(self, p, st):
        rn, rem = st

        class VarV:
            def __init__(self, name):
                self.name = name

        class Val:
            def __init__(self, tag, mentions):
                self.tag, self.mentions = tag, mentions

        class GaussT:
            def __init__(self, w, P, inputs, positions):
                self.white_vec, self.prec_sqrt, self.inputs, self.positions = w, P, inputs, positions

        class SubsT:
            def __init__(self, arg, pairs):
                self.arg, self.pairs = arg, tuple(pairs)

        g = GaussT("w", "P", OrderedDict([("i", "Bint[3]"), ("x", "Real"), ("y", "Real")]), ("i", "x", "y"))

        def Gaussian(w, P, inputs):
            # the constructor keeps data and positions: input names are the only thing that changed
            return GaussT(w, P, OrderedDict(inputs), g.positions)

        subs = tuple((k, VarV(v)) for k, v in rn)
        remaining = tuple((k, Val("v_" + k, ms)) for k, ms in rem)
        ns = dict(OrderedDict=OrderedDict, Gaussian=Gaussian, Subs=SubsT, len=len)
        return Ctx(args=(g, subs, remaining), namespace=ns, g=g, st=st, GaussT=GaussT, SubsT=SubsT, Val=Val, VarV=VarV)

    def may_raise(self, ctx, etype):
        rn, rem = ctx.st
        new = [v for _, v in rn]
        kept = [k for k in ctx.g.inputs if k not in dict(rn)]
        conflict = len(set(new)) < len(new) or any(v in kept for v in new)
        return conflict and etype == "ValueError"

    def allow_vacuous(self, st):
        rn, rem = st
        new = [v for _, v in rn]
        kept = [k for k in ("i", "x", "y") if k not in dict(rn)]
        return len(set(new)) < len(new) or any(v in kept for v in new)

    def ensures(self, ctx, result):
        rn, rem = ctx.st
        new = [v for _, v in rn]
        kept = [k for k in ctx.g.inputs if k not in dict(rn)]
        if len(set(new)) < len(new) or any(v in kept for v in new):
            return [("conflicting_renaming_is_rejected", False)]

        def den(t, env):
            if isinstance(t, ctx.GaussT):
                return ("G",) + tuple(env(k) for k in t.inputs)
            if isinstance(t, ctx.SubsT):
                pairs = dict(t.pairs)
                return den(t.arg, lambda k, env=env, pairs=pairs: den(pairs[k], env) if k in pairs else env(k))
            if isinstance(t, ctx.Val):
                return ("V", t.tag) + tuple(env(m) for m in t.mentions)
            if isinstance(t, ctx.VarV):
                return env(t.name)
            raise Unsupported("term %r" % (t,))

        env0 = lambda k: ("atom", k)
        rename, remd = dict(rn), dict(rem)
        expect = ("G",) + tuple(env0(rename[k]) if k in rename else (("V", "v_" + k) + tuple(env0(m) for m in remd[k]) if k in remd else env0(k)) for k in ctx.g.positions)
        return [("denotes_the_simultaneous_substitution", den(result, env0) == expect)]
