"""C12 (affine substitution): soundness of funsor/affine.py:affine_inputs -- the test that decides whether Gaussian.eager_subs may
linearise a substituted value with extract_affine.  The REAL affine_inputs (with its cache) and the five REAL registered rules
are executed on a term model for every expression tree of a grammar; the ground truth is an abstract interpretation that is
exact for the question asked: every term denotes a set of monomials over its real inputs, a non-polynomial construct (exp, a
quotient by a real-dependent term, a non-additive reduction) contributing an opaque atom that remembers which inputs it
depends on.  `fn is jointly affine in S` holds iff every monomial has total degree <= 1 in the inputs of S and no input of S
occurs under an atom of it; (cancellations such as x - x are not credited: the rules do not credit them either).
Proved: affine_inputs(fn) is a subset of fn's real inputs in which fn is jointly affine -- for every tree of the grammar
  leaves x, y (real inputs), c (constant);  unary neg, sum, reshape, exp;  binary add, sub, mul, matmul, truediv, getitem-by-
  an-integer-index;  reductions over an integer input with add and with logaddexp;  einsum of 2..3 operands
of depth <= 2 (thorough: depth 3 on a reduced operator set).  extract_affine's probing (evaluate at zero and at basis
vectors) is exact precisely on such jointly affine values; its numerics are the bounded tier's subject."""
import itertools
from collections import OrderedDict

from pyvc import core
from pyvc.contract import Contract, Ctx, register
from pyvc.core import Unsupported

FILE = "funsor/affine.py"


class Dom:
    def __init__(self, dtype):
        self.dtype = dtype


class OpT:
    def __init__(self, name, cls=None):
        self.name, self.cls = name, cls

    def __repr__(self):
        return self.name


class ReshapeOp:
    pass


class GetsliceOp:
    pass


class GetitemOp:
    pass


class EinsumOp:
    pass


class OpsNS:
    neg, sum, add, sub, mul, matmul, truediv, exp, logaddexp, or_ = (OpT(n) for n in ("neg", "sum", "add", "sub", "mul", "matmul", "truediv", "exp", "logaddexp", "or_"))
    ReshapeOp, GetsliceOp, GetitemOp, EinsumOp = ReshapeOp, GetsliceOp, GetitemOp, EinsumOp


OpsNS.or_ = lambda a, b: a | b
RESHAPE = type("ReshapeInst", (ReshapeOp,), {"name": "reshape", "__repr__": lambda self: "reshape"})()
GETITEM = type("GetitemInst", (GetitemOp,), {"name": "getitem", "__repr__": lambda self: "getitem"})()
EINSUM = type("EinsumInst", (EinsumOp,), {"name": "einsum", "__repr__": lambda self: "einsum"})()


class Term:
    _affine_inputs = None

    def __init__(self):
        self.inputs = OrderedDict()


class VarT(Term):
    def __init__(self, name, dtype="real"):
        super().__init__()
        self.name = name
        self.inputs[name] = Dom(dtype)


class ConstT(Term):
    pass


class UnaryT(Term):
    def __init__(self, op, arg):
        super().__init__()
        self.op, self.arg = op, arg
        self.inputs.update(arg.inputs)


class BinaryT(Term):
    def __init__(self, op, lhs, rhs):
        super().__init__()
        self.op, self.lhs, self.rhs = op, lhs, rhs
        self.inputs.update(lhs.inputs)
        self.inputs.update(rhs.inputs)


class ReduceT(Term):
    def __init__(self, op, arg, names):
        super().__init__()
        self.op, self.arg = op, arg
        self.reduced_vars = frozenset(VarT(n, 2) for n in names)
        for k, d in arg.inputs.items():
            if k not in names:
                self.inputs[k] = d


class FinitaryT(Term):
    def __init__(self, op, args):
        super().__init__()
        self.op, self.args = op, tuple(args)
        for a in args:
            self.inputs.update(a.inputs)


# ---------------------------------------------------------------------------------------------------------------------
# ground truth: monomials = (sorted tuple of real input names, frozenset of atoms); atom = frozenset of names it depends on
# ---------------------------------------------------------------------------------------------------------------------
def real_names(t):
    return frozenset(k for k, d in t.inputs.items() if d.dtype == "real")


def den(t):
    if isinstance(t, VarT):
        return {((t.name,), frozenset())} if t.inputs[t.name].dtype == "real" else {((), frozenset())}
    if isinstance(t, ConstT):
        return {((), frozenset())}
    if isinstance(t, UnaryT):
        a = den(t.arg)
        if t.op in (OpsNS.neg, OpsNS.sum) or isinstance(t.op, (ReshapeOp, GetsliceOp)):
            return a
        return atomise(t.arg)
    if isinstance(t, BinaryT):
        l, r = den(t.lhs), den(t.rhs)
        if t.op in (OpsNS.add, OpsNS.sub):
            return l | r
        if t.op in (OpsNS.mul, OpsNS.matmul):
            return product(l, r)
        if t.op is OpsNS.truediv:
            return product(l, atomise(t.rhs))
        if isinstance(t.op, GetitemOp):
            return l  # an integer index selects entries: linear in lhs
        return atomise(t)
    if isinstance(t, ReduceT):
        if t.op is OpsNS.add:
            return den(t.arg)
        return atomise(t.arg)
    if isinstance(t, FinitaryT):
        acc = {((), frozenset())}
        for a in t.args:
            acc = product(acc, den(a))
        return acc
    raise Unsupported("term")


def atomise(t):
    names = real_names(t)
    return {((), frozenset([names]))} if names else {((), frozenset())}


def product(l, r):
    return {(tuple(sorted(m1 + m2)), a1 | a2) for (m1, a1) in l for (m2, a2) in r}


def jointly_affine(t, S):
    if not S <= real_names(t):
        return False
    for mono, atoms in den(t):
        if sum(1 for v in mono if v in S) > 1:
            return False
        if any(S & a for a in atoms):
            return False
    return True


# ---------------------------------------------------------------------------------------------------------------------
def leaves():
    return [("x", lambda: VarT("x")), ("y", lambda: VarT("y")), ("c", lambda: ConstT())]


UNARY = [("neg", OpsNS.neg), ("sum", OpsNS.sum), ("reshape", RESHAPE), ("exp", OpsNS.exp)]
BINARY = [("add", OpsNS.add), ("sub", OpsNS.sub), ("mul", OpsNS.mul), ("matmul", OpsNS.matmul), ("truediv", OpsNS.truediv)]


def depth1():
    """curated sub-terms: every operator over the leaves that matter for affinity (shared / distinct inputs, constants)"""
    x, y, c = (lambda: VarT("x")), (lambda: VarT("y")), (lambda: ConstT())
    gi = lambda b: (lambda: BinaryT(GETITEM, b(), VarT("i", 2)))
    out = [("x", x), ("y", y), ("c", c)]
    for ol, op in UNARY:
        out.append(("%s(x)" % ol, lambda op=op: UnaryT(op, x())))
    out.append(("exp(y)", lambda: UnaryT(OpsNS.exp, y())))
    out.append(("exp(c)", lambda: UnaryT(OpsNS.exp, c())))
    for ol, op in BINARY:
        for (l1, b1), (l2, b2) in ((("x", x), ("y", y)), (("x", x), ("c", c)), (("c", c), ("x", x)), (("x", x), ("x", x))):
            out.append(("%s(%s,%s)" % (ol, l1, l2), lambda op=op, b1=b1, b2=b2: BinaryT(op, b1(), b2())))
    out.append(("getitem(x,i)", gi(x)))
    out.append(("reduce_add(getitem(x,i),i)", lambda: ReduceT(OpsNS.add, gi(x)(), ["i"])))
    out.append(("reduce_logaddexp(getitem(x,i),i)", lambda: ReduceT(OpsNS.logaddexp, gi(x)(), ["i"])))
    out.append(("einsum(x,c)", lambda: FinitaryT(EINSUM, [x(), c()])))
    out.append(("einsum(x,y)", lambda: FinitaryT(EINSUM, [x(), y()])))
    out.append(("einsum(x,x)", lambda: FinitaryT(EINSUM, [x(), x()])))
    return out


def over(sub):
    """every operator applied to the given sub-terms"""
    out = []
    for (ol, op) in UNARY:
        for (l, b) in sub:
            out.append(("%s(%s)" % (ol, l), lambda op=op, b=b: UnaryT(op, b())))
    for (ol, op) in BINARY:
        for (l1, b1) in sub:
            for (l2, b2) in sub:
                out.append(("%s(%s,%s)" % (ol, l1, l2), lambda op=op, b1=b1, b2=b2: BinaryT(op, b1(), b2())))
    for (l, b) in sub:
        out.append(("getitem(%s,i)" % l, lambda b=b: BinaryT(GETITEM, b(), VarT("i", 2))))
        out.append(("reduce_add(getitem(%s,i),i)" % l, lambda b=b: ReduceT(OpsNS.add, BinaryT(GETITEM, b(), VarT("i", 2)), ["i"])))
        out.append(("reduce_logaddexp(getitem(%s,i),i)" % l, lambda b=b: ReduceT(OpsNS.logaddexp, BinaryT(GETITEM, b(), VarT("i", 2)), ["i"])))
    for (l1, b1) in sub:
        for (l2, b2) in sub:
            out.append(("einsum(%s,%s)" % (l1, l2), lambda b1=b1, b2=b2: FinitaryT(EINSUM, [b1(), b2()])))
    return out


_CACHE = {}


def all_trees(tier):
    """quick: every operator over the curated depth-1 sub-terms (depth <= 2); thorough: one more level over a reduced set"""
    if tier not in _CACHE:
        d1 = depth1()
        ts = list(d1) + over(d1)
        ts += [("einsum(%s)" % ",".join(l for l, _ in combo), (lambda combo=combo: FinitaryT(EINSUM, [b() for _, b in combo]))) for combo in itertools.product(d1[:3], repeat=3)]
        if tier != "quick":
            d2 = [t for t in over(d1[:8] + d1[9:12]) if t[0].split("(")[0] in ("add", "sub", "mul", "truediv", "exp", "neg", "reduce_logaddexp", "reduce_add")]
            picked = d2[::7][:60]
            ts += over(picked + d1[:3])
        seen, out = set(), []
        for l, b in ts:
            if l not in seen:
                seen.add(l)
                out.append((l, b))
        _CACHE[tier] = out
    return _CACHE[tier]


def group_key(label):
    """structures: root operator + its first operand"""
    head = label.split("(")[0]
    if "(" not in label:
        return "leaf"
    depth, first = 0, ""
    for ch in label[len(head) + 1:]:
        if ch == "," and depth == 0:
            break
        if ch == "(":
            depth += 1
        if ch == ")":
            if depth == 0:
                break
            depth -= 1
        first += ch
    return "%s(%s" % (head, first)


def rule_ordinals():
    """ordinal (among the module-level functions named `_`) of the rule registered for each term class, read from the
    decorators -- so that a rule added or moved by a maintainer does not make a contract execute the wrong body"""
    import ast

    src, tree = core.parse_file(FILE)
    out, k = {}, 0
    for n in tree.body:
        if isinstance(n, ast.FunctionDef) and n.name == "_":
            for d in n.decorator_list:
                txt = ast.unparse(d)
                if txt.startswith("affine_inputs.register("):
                    arg = txt[len("affine_inputs.register("):-1]
                    out[arg.split("[")[0]] = k
            k += 1
    return out


class _AffineRule(Contract):
    """affine_inputs(fn) -- the real function with its cache and the five real registered rules (this contract is anchored in
    one of them; the others are its real callees) -- returns a subset S of fn's real inputs such that fn is JOINTLY affine in S
    (every monomial of fn has degree <= 1 in S and no input of S occurs inside a non-polynomial sub-term); in particular a sum
    is not affine in an input that one side uses non-affinely (x + exp(x)), and only additive reductions preserve affinity (the
    two repaired defects).  Every tree of the grammar in the module docstring; one structure per (root operator, left
    operand), all right operands inside."""

    props = ("C12", "C04")
    file = FILE
    qualname = "_"
    total = True
    needs = None  # labels of the trees in which the rule under contract fires
    rule_class = None  # the term class the rule under contract is registered for

    @property
    def ordinal(self):
        return rule_ordinals()[self.rule_class]

    def mine(self, tier):
        """the trees in which the rule under contract fires at least once"""
        return [(l, b) for l, b in all_trees(tier) if self.needs is None or any(k in l for k in self.needs)]

    def structures(self, tier):
        groups = OrderedDict()
        for label, b in self.mine(tier):
            groups.setdefault(group_key(label), []).append(label)
        for key, items in groups.items():
            yield "trees=%s...(%d)" % (key, len(items)), (key, tier)

    def build(self, p, st):
        key, tier = st
        items = [(l, b()) for l, b in self.mine(tier) if group_key(l) == key]
        ns = dict(ops=OpsNS, Funsor=Term, frozenset=frozenset, getattr=getattr, isinstance=core.sisinstance, reduce=__import__("functools").reduce, map=map, sum=sum, bool=bool, enumerate=enumerate)
        return Ctx(args=(), namespace=ns, trees=items)

    def entry(self, loc, ctx):
        ns = ctx.namespace
        ns["_real_inputs"] = core.make_callable(core.locate(FILE, "_real_inputs"), ns)[0]
        ords = rule_ordinals()
        table = [(VarT, ords["Variable"]), (UnaryT, ords["Unary"]), (BinaryT, ords["Binary"]), (ReduceT, ords["Reduce"]), (FinitaryT, ords["Finitary"])]
        box, outer = {}, {}

        def dispatch(fn):
            for cls, k in table:
                if isinstance(fn, cls):
                    return box[k](fn)
            return frozenset()  # the default rule: not known to be affine in anything

        ns["_affine_inputs"] = dispatch
        ns["affine_inputs"] = lambda fn: outer["f"](fn)
        interp = None
        for cls, k in table:
            if k == self.ordinal:
                box[k], interp = core.make_callable(loc, ns, self.hooks(ctx))
            else:
                box[k] = core.make_callable(core.locate(FILE, "_", k), ns)[0]
        outer["f"] = core.make_callable(core.locate(FILE, "affine_inputs"), ns)[0]
        return (lambda: [outer["f"](t) for _, t in ctx.trees]), interp

    def ensures(self, ctx, result):
        bad = [l for (l, t), S in zip(ctx.trees, result) if not jointly_affine(t, S)]
        cached = all(t._affine_inputs == S for (l, t), S in zip(ctx.trees, result))
        return [("result_is_a_set_of_real_inputs_in_which_the_term_is_jointly_affine", not bad), ("result_is_cached_on_the_term", cached)]


@register
class AffineInputsBinaryRule(_AffineRule):
    __doc__ = "rule for Binary terms.  " + _AffineRule.__doc__
    rule_class = "Binary"
    mutants = (
        ("a sum is affine in the union of both sides' affine inputs (the pinned-tree defect)", "        return (lhs_affine | rhs_affine) - non_affine", "        return lhs_affine | rhs_affine"),
        ("a quotient is affine in the divisor's inputs too", "        return affine_inputs(fn.lhs) - _real_inputs(fn.rhs)", "        return affine_inputs(fn.lhs)"),
        ("a product of two affine factors is affine", "        return frozenset()\n    return frozenset()", "        return lhs_affine | rhs_affine\n    return frozenset()"),
    )


@register
class AffineInputsReduceRule(_AffineRule):
    __doc__ = "rule for Reduce terms.  " + _AffineRule.__doc__
    rule_class = "Reduce"
    needs = ("reduce_",)
    mutants = (("every reduction preserves affinity (the pinned-tree defect)", "    if fn.reduced_vars and fn.op is not ops.add:\n        return frozenset()  # only sums are linear\n", ""),)


@register
class AffineInputsUnaryRule(_AffineRule):
    __doc__ = "rule for Unary terms.  " + _AffineRule.__doc__
    rule_class = "Unary"
    needs = ("neg(", "sum(", "reshape(", "exp(")
    mutants = (("every unary op preserves affinity", "        return affine_inputs(fn.arg)\n    return frozenset()", "        return affine_inputs(fn.arg)\n    return affine_inputs(fn.arg)"),)


@register
class AffineInputsEinsumRule(_AffineRule):
    __doc__ = "rule for Finitary einsum terms.  " + _AffineRule.__doc__
    rule_class = "Finitary"
    needs = ("einsum(",)
    mutants = (("an operand's affine inputs are kept although another operand uses them", "        results.append(affine_inputs(x) - other_inputs)", "        results.append(affine_inputs(x))"),)
