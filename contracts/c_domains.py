"""Contracts on funsor/domains.py find_domain rules and funsor/util.py broadcast_shape (property C06).

Postconditions are taken from the property: "the domain computed statically for an op applied to operand
domains equals the shape and value range the op actually returns on arrays of those domains" -- the shape the
op returns is numpy's documented shape rule (contracts/models.py spec_*, conformance-tested against numpy),
the value range is an arithmetic fact about the op on [0, size).
"""
import itertools

import z3

from pyvc import core
from pyvc.contract import Contract, Ctx, mval, register
from pyvc.core import SV, And, Declined, If, Implies, Not, Or, deep_eq, smax, smin, truth

from . import models as M
from .models import MDom, spec_basic_index_shape, spec_broadcast, spec_reduce_shape
from .specs import spec_slice_indices


def sym_shape(p, rank, name="d"):
    out = []
    for i in range(rank):
        s = p.fresh_int("%s%d" % (name, i))
        p.assume(s >= 0)
        out.append(s)
    return tuple(out)


def broadcast_shape_model(*shapes, **kwargs):
    """callee contract of util.broadcast_shape (proved below): returns numpy's broadcast shape, raises
    ValueError exactly when the shapes are incompatible"""
    if kwargs.get("strict", False):
        raise core.Unsupported("strict broadcasting is not under contract")
    ok, out = spec_broadcast([tuple(s) for s in shapes])
    if not truth(ok):
        raise Declined("ValueError", "shape mismatch")
    return out


class MOp:
    """model of a funsor op object: name, defaults and (for the value-range clauses) its meaning on ints"""

    def __init__(self, name, fn=None, **defaults):
        self.name = name
        self.fn = fn
        self.defaults = defaults

    def __call__(self, *args):
        return self.fn(*args)

    def __repr__(self):
        return "ops." + self.name


def bits(p, x, n=4):
    """bit decomposition of 0 <= x < 2**n (ghost)"""
    bs = [p.fresh_int("bit") for _ in range(n)]
    for b in bs:
        p.assume(And(b >= 0, b <= 1))
    p.assume(x == sum(b * (2 ** i) for i, b in enumerate(bs)))
    return bs


class OpsNS:
    add = MOp("add", lambda a, b: a + b)
    mul = MOp("mul", lambda a, b: a * b)
    max = MOp("max", lambda a, b: smax(a, b))
    min = MOp("min", lambda a, b: smin(a, b))
    pow = MOp("pow")
    and_ = MOp("and_")
    or_ = MOp("or_")
    xor = MOp("xor")
    logaddexp = MOp("logaddexp")
    sub = MOp("sub", lambda a, b: a - b)


NS = dict(M.DOMAIN_NS, broadcast_shape=broadcast_shape_model, ops=OpsNS)


# --------------------------------------------------------------------------------------------------
@register
class BroadcastShape(Contract):
    """ensures result == numpy broadcast shape; raises (ValueError) iff the shapes are not broadcastable.
    structure bound: number of shapes <= 3, rank <= 3; all sizes symbolic >= 0."""

    props = ("C06",)
    file = "funsor/util.py"
    qualname = "broadcast_shape"
    mutants = (
        ("unit dim not replaced", "reversed_shape[i] = size\n", "pass\n"),
        ("size-1 operand rejected", "and (size != 1 or strict)", "and (size != 0 or strict)"),
        ("wrong order", "return tuple(reversed(reversed_shape))", "return tuple(reversed_shape)"),
    )

    def structures(self, tier):
        maxr = 2 if tier == "quick" else 3
        for n in (1, 2, 3):
            for ranks in itertools.product(range(maxr + 1), repeat=n):
                if n == 3 and tier == "quick" and max(ranks) > 1:
                    continue
                yield "ranks=%s" % (ranks,), ranks

    def build(self, p, ranks):
        shapes = tuple(sym_shape(p, r, "s%d_" % k) for k, r in enumerate(ranks))
        ok, out = spec_broadcast(shapes)
        return Ctx(args=shapes, namespace={}, shapes=shapes, ok=ok, out=out)

    def may_raise(self, ctx, etype):
        return Not(ctx.ok)

    def ensures(self, ctx, result):
        return [("compatible_when_returns", ctx.ok), ("equals_numpy_broadcast", deep_eq(tuple(result), ctx.out))]

    def replay(self, ctx, m, st, clause):
        shapes = tuple(tuple(mval(m, s) for s in sh) for sh in ctx.shapes)
        return (
            "import sys, numpy as np\nfrom funsor.util import broadcast_shape\nshapes=%r\n"
            "try: exp=np.broadcast_shapes(*shapes)\nexcept ValueError: exp='error'\n"
            "try: got=broadcast_shape(*shapes)\nexcept ValueError: got='error'\n"
            "print(shapes, got, exp)\nsys.exit(1 if got!=exp else 0)\n" % (shapes,)
        )


# --------------------------------------------------------------------------------------------------
@register
class FindDomainReduction(Contract):
    """ensures output shape == numpy reduction shape for axis in {None, int, tuple} and keepdims, dtype kept for
    real, Bint[2] for all/any. structure bound: rank <= 3 (quick 2); axis values enumerated, sizes symbolic."""

    props = ("C06",)
    file = "funsor/domains.py"
    qualname = "_find_domain_reduction"
    mutants = (
        ("reads 'dim' instead of 'axis' (the pinned-tree defect)", 'op.defaults.get("axis", None)', 'op.defaults.get("dim", None)'),
        ("keepdims inverted", 'if op.defaults.get("keepdims", False):', 'if not op.defaults.get("keepdims", False):'),
        ("negative axis not normalised", "dims = {dim % ndims}", "dims = {dim}"),
    )

    def structures(self, tier):
        maxr = 2 if tier == "quick" else 3
        for rank in range(maxr + 1):
            axes = [None] + list(range(-rank, rank)) + [t for t in itertools.permutations(range(-rank, rank), 2) if (t[0] % max(rank, 1)) != (t[1] % max(rank, 1))]
            for ax in axes:
                for kd in (False, True):
                    for name in ("sum", "any"):
                        yield "rank=%d,axis=%s,keepdims=%s,op=%s" % (rank, ax, kd, name), (rank, ax, kd, name)

    def build(self, p, st):
        rank, ax, kd, name = st
        shape = sym_shape(p, rank)
        dtype = "real" if name == "sum" else 2
        op = MOp(name, axis=ax, keepdims=kd)
        return Ctx(args=(op, MDom(dtype, shape)), namespace=NS, shape=shape, st=st)

    def ensures(self, ctx, result):
        rank, ax, kd, name = ctx.st
        exp = MDom("real" if name == "sum" else 2, spec_reduce_shape(ctx.shape, ax, kd))
        return [("equals_numpy_reduction_shape", deep_eq(result, exp))]

    def replay(self, ctx, m, st, clause):
        rank, ax, kd, name = st
        shape = tuple(max(1, mval(m, s)) for s in ctx.shape)
        return (
            "import sys, numpy as np, funsor\nfrom funsor import ops\nfrom funsor.domains import find_domain, Reals, Array\n"
            "shape=%r; op=ops.%s; ax=%r; kd=%r\n"
            "x=np.ones(shape, dtype=%s)\nd=find_domain(op.__class__(ax, kd) if False else type(op)(ax, kd), Array[%r, shape])\n"
            "exp=op(x, ax, kd).shape\nprint(d, exp)\nsys.exit(1 if tuple(d.shape)!=tuple(exp) else 0)\n"
            % (shape, name, ax, kd, "float" if name == "sum" else "bool", "real" if name == "sum" else 2)
        )


# --------------------------------------------------------------------------------------------------
@register
class FindDomainGetitem(Contract):
    """x[..., i] at event position `offset`: ensures shape == shape with that dim removed, dtype kept.
    structure bound: rank <= 4, offset enumerated."""

    props = ("C06",)
    file = "funsor/domains.py"
    qualname = "_find_domain_getitem"
    mutants = (("off by one", "lhs_domain.shape[1 + offset :]", "lhs_domain.shape[offset :]"),)

    def structures(self, tier):
        for rank in range(1, 5):
            for off in range(rank):
                for dt in ("real", "int"):
                    yield "rank=%d,offset=%d,%s" % (rank, off, dt), (rank, off, dt)

    def build(self, p, st):
        rank, off, dt = st
        shape = sym_shape(p, rank)
        dtype = "real" if dt == "real" else p.fresh_int("n")
        if dt != "real":
            p.assume(dtype >= 0)
        n = p.fresh_int("m")
        p.assume(n >= 0)
        return Ctx(args=(MOp("getitem", offset=off), MDom(dtype, shape), MDom(n, ())), namespace=NS, shape=shape, dtype=dtype, off=off)

    def ensures(self, ctx, result):
        exp = MDom(ctx.dtype, ctx.shape[: ctx.off] + ctx.shape[ctx.off + 1:])
        return [("dim_removed", deep_eq(result, exp))]


# --------------------------------------------------------------------------------------------------
def parse_slice_model(s, size):
    """callee contract of ops.builtin.parse_slice (proved in c_builtin.ParseSlice): requires step None or >= 1"""
    if s.step is not None and not truth(s.step >= 1):
        raise core.Unsupported("parse_slice called outside its contract (step < 1): known finding C06/negative-step")
    return spec_slice_indices(s.start, s.stop, s.step, size)


def parse_ellipsis_model(index):
    if not isinstance(index, tuple):
        index = (index,)
    k = [i for i, p in enumerate(index) if p is Ellipsis]
    if not k:
        return tuple(index), ()
    left = index[: k[0]]
    rest = index[k[0] + 1:]
    k2 = [i for i, p in enumerate(rest) if p is Ellipsis]
    right = rest[k2[-1] + 1:] if k2 else rest
    return tuple(left), tuple(right)


@register
class ParseEllipsis(Contract):
    """ensures (left, right) are the parts before the first and after the last Ellipsis (index without Ellipsis:
    left = index, right = ()). structure bound: len(index) <= 4 over {None, int, slice, Ellipsis}."""

    props = ("C06", "C01")
    file = "funsor/ops/builtin.py"
    qualname = "parse_ellipsis"
    total = True
    mutants = (("right part not re-reversed", "right.reverse()", "pass"), ("ellipsis kept in left", "break\n        left.append(part)", "pass\n        left.append(part)"))

    def structures(self, tier):
        parts = ["N", "i", "s", "E"]
        for k in range(0, 5):
            for idx in itertools.product(parts, repeat=k):
                if idx.count("E") <= 1:
                    yield "index=%s" % "".join(idx), idx
        yield "scalar-int", "scalar"

    def build(self, p, st):
        if st == "scalar":
            idx = p.fresh_int("i")
            return Ctx(args=(idx,), namespace={}, index=(idx,))
        idx = tuple(None if c == "N" else Ellipsis if c == "E" else p.fresh_int("i") if c == "i" else slice(p.fresh_int("a"), p.fresh_int("b"), None) for c in st)
        return Ctx(args=(idx,), namespace={}, index=idx)

    def ensures(self, ctx, result):
        l, r = parse_ellipsis_model(ctx.index)
        return [("split_at_ellipsis", And(deep_eq(result[0], l), deep_eq(result[1], r)))]


@register
class FindDomainGetslice(Contract):
    """ensures shape == numpy basic-indexing shape of x[index] for index parts None | int | slice (step None or
    >= 1) with at most one Ellipsis; dtype kept. Calls parse_slice / parse_ellipsis through their contracts.
    structure bound: rank <= 3, len(index) <= 3; sizes and slice fields symbolic."""

    props = ("C06",)
    file = "funsor/domains.py"
    qualname = "_find_domain_getslice"
    timeout_ms = 30000
    mutants = (
        ("length formula off by one", "shape[i] = max(0, (stop - start + step - 1) // step)\n                i += 1", "shape[i] = max(0, (stop - start + step) // step)\n                i += 1"),
        ("right part: wrong insert position", "shape.insert(len(shape) + i + 1, 1)", "shape.insert(len(shape) + i, 1)"),
        ("int does not remove dim on the right", "del shape[i]\n            elif isinstance(part, slice):\n                start, stop, step = parse_slice(part, shape[i])\n                shape[i] = max(0, (stop - start + step - 1) // step)\n                i -= 1", "i -= 1\n            elif isinstance(part, slice):\n                start, stop, step = parse_slice(part, shape[i])\n                shape[i] = max(0, (stop - start + step - 1) // step)\n                i -= 1"),
    )

    def structures(self, tier):
        parts = ["N", "i", "s", "t", "E"]  # s: slice(a,b,None)  t: slice(a,b,c)
        maxr = 2 if tier == "quick" else 3
        maxk = 2 if tier == "quick" else 3
        for rank in range(maxr + 1):
            for k in range(0, maxk + 1):
                for idx in itertools.product(parts, repeat=k):
                    if idx.count("E") > 1:
                        continue
                    consumed = sum(1 for c in idx if c in "ist")
                    if consumed > rank:
                        continue
                    yield "rank=%d,index=%s" % (rank, "".join(idx) or "()"), (rank, idx)

    def build(self, p, st):
        rank, idxs = st
        shape = sym_shape(p, rank)
        idx = []
        for c in idxs:
            if c == "N":
                idx.append(None)
            elif c == "E":
                idx.append(Ellipsis)
            elif c == "i":
                idx.append(p.fresh_int("i"))
            else:
                step = None
                if c == "t":
                    step = p.fresh_int("step")
                    p.assume(step >= 1)
                idx.append(slice(p.fresh_int("a"), p.fresh_int("b"), step))
        idx = tuple(idx)
        ns = dict(NS, parse_slice=parse_slice_model, parse_ellipsis=parse_ellipsis_model)
        return Ctx(args=(MOp("getslice", index=idx), MDom("real", shape)), namespace=ns, shape=shape, index=idx)

    def ensures(self, ctx, result):
        exp = MDom("real", spec_basic_index_shape(ctx.shape, ctx.index))
        return [("equals_numpy_index_shape", deep_eq(result, exp))]

    def hints(self, ctx, path):
        return div_hints(path)

    def replay(self, ctx, m, st, clause):
        shape = tuple(mval(m, s) for s in ctx.shape)
        idx = tuple(slice(mval(m, x.start), mval(m, x.stop), mval(m, x.step)) if isinstance(x, slice) else mval(m, x) for x in ctx.index)
        return (
            "import sys, numpy as np\nfrom funsor import ops\nfrom funsor.domains import find_domain, Reals\n"
            "shape=%r; idx=%r\nx=np.zeros(shape)\ntry: exp=x[idx].shape\nexcept IndexError: print('index invalid for numpy'); sys.exit(0)\n"
            "d=find_domain(ops.getslice(idx), Reals[shape])\nprint(d, exp)\nsys.exit(1 if tuple(d.shape)!=tuple(exp) else 0)\n" % (shape, idx)
        )


def div_hints(path):
    """ground instances of lemma `mul_ge` (lemmas/arith.py:  b >= 0 and k >= 1 -> k*b >= b;  b >= 0 and k <= -1 -> k*b <= -b)
    for the Euclidean witnesses a = q*b + r introduced by symbolic floor divisions, instantiated at the integer
    combinations of quotients of the same divisor that can relate two dividends: q1-q2, q1-q2-q3 and q1-q2-q3-1"""
    out = []
    divs = path.ghost.get("divs", [])
    seen = set()

    def inst(k, b):
        key = (str(k), str(b))
        if key in seen:
            return
        seen.add(key)
        out.append(z3.Implies(z3.And(b >= 0, k >= 1), k * b >= b))
        out.append(z3.Implies(z3.And(b >= 0, k <= -1), k * b <= -b))

    for (a1, b1, q1, r1), (a2, b2, q2, r2) in itertools.combinations(divs, 2):
        if b1.eq(b2):
            inst(q1 - q2, b1)
    if len(divs) <= 6:
        for x, y, w in itertools.permutations(divs, 3):
            if x[1].eq(y[1]) and x[1].eq(w[1]) and str(y[2]) < str(w[2]) or (x[1].eq(y[1]) and x[1].eq(w[1])):
                inst(x[2] - y[2] - w[2], x[1])
                inst(x[2] - y[2] - w[2] - 1, x[1])
                inst(x[2] - y[2] + w[2], x[1])
                inst(x[2] - y[2] + w[2] + 1, x[1])
    return out


# --------------------------------------------------------------------------------------------------
class _Pointwise(Contract):
    props = ("C06",)
    file = "funsor/domains.py"
    opname = "op"

    def structures(self, tier):
        maxr = 2 if tier == "quick" else 3
        for ra in range(maxr + 1):
            for rb in range(maxr + 1):
                for dt in self.dtypes:
                    yield "ranks=(%d,%d),%s" % (ra, rb, dt), (ra, rb, dt)

    dtypes = ("real/real", "int/int")

    def mk(self, p, st):
        ra, rb, dt = st
        a, b = dt.split("/")
        sa, sb = sym_shape(p, ra, "a"), sym_shape(p, rb, "b")
        L = "real" if a == "real" else p.fresh_int("L")
        R = "real" if b == "real" else p.fresh_int("R")
        for x in (L, R):
            if x != "real":
                p.assume(x >= 1)
        ok, out = spec_broadcast([sa, sb])
        return sa, sb, L, R, ok, out


@register
class FindDomainBinaryGeneric(_Pointwise):
    """generic pointwise binary rule (equal dtypes): ensures shape == numpy broadcast, dtype kept; raises iff
    shapes incompatible. (Value range on bounded ints is NOT ensured by this rule: known finding C06/generic-bint-range.)"""

    qualname = "_find_domain_pointwise_binary_generic"
    mutants = (("lhs shape only", "broadcast_shape(lhs.shape, rhs.shape)", "lhs.shape"),)

    def build(self, p, st):
        sa, sb, L, R, ok, out = self.mk(p, st)
        if L != "real":
            p.assume(L == R)
        return Ctx(args=(MOp("sub"), MDom(L, sa), MDom(R, sb)), namespace=NS, ok=ok, out=out, L=L)

    def may_raise(self, ctx, etype):
        return Not(ctx.ok)

    def ensures(self, ctx, result):
        return [("shape_is_broadcast_dtype_kept", deep_eq(result, MDom(ctx.L, ctx.out)))]


@register
class FindDomainComparison(_Pointwise):
    """comparison ops: Bint[2] of the broadcast shape"""

    qualname = "_find_domain_comparison"
    mutants = (("dtype 3", "Array[2, broadcast_shape", "Array[3, broadcast_shape"),)

    def build(self, p, st):
        sa, sb, L, R, ok, out = self.mk(p, st)
        return Ctx(args=(MOp("lt"), MDom(L, sa), MDom(R, sb)), namespace=NS, ok=ok, out=out)

    def may_raise(self, ctx, etype):
        return Not(ctx.ok)

    def ensures(self, ctx, result):
        return [("bool_of_broadcast_shape", deep_eq(result, MDom(2, ctx.out)))]


@register
class FindDomainMod(_Pointwise):
    """x % y: shape broadcast; for x in [0,L), y in [1,R): 0 <= x % y < size (y = 0 raises in numpy/python)"""

    qualname = "_find_domain_mod"
    mutants = (("bound too small", "dtype = max(0, rhs.dtype - 1)", "dtype = max(0, rhs.dtype - 2)"),)

    def structures(self, tier):
        for st in super().structures(tier):
            if st[1][0] <= 1 and st[1][1] <= 1:
                yield st

    def build(self, p, st):
        sa, sb, L, R, ok, out = self.mk(p, st)
        return Ctx(args=(MOp("mod"), MDom(L, sa), MDom(R, sb)), namespace=NS, ok=ok, out=out, L=L, R=R, p=p)

    def may_raise(self, ctx, etype):
        return Not(ctx.ok)

    def ensures(self, ctx, result):
        cl = [("shape_is_broadcast", deep_eq(result.shape, ctx.out))]
        if ctx.L != "real":
            x, y = ctx.p.fresh_int("x"), ctx.p.fresh_int("y")
            v = core.mod_pos(x, y)
            cl.append(("value_in_declared_range", Implies(And(0 <= x, x < ctx.L, 1 <= y, y < ctx.R), And(0 <= v, v < result.dtype))))
        else:
            cl.append(("real_stays_real", result.dtype == "real"))
        return cl


@register
class FindDomainFloordiv(_Pointwise):
    """x // y: shape broadcast; for x in [0,L), y in [1,R): 0 <= x // y < size.
    The clause is split by the known finding C06/floordiv-bound: the declared size (L-1)//(R-1)+1 is the bound for
    the LARGEST divisor only (test/test_factory.py::test_flatten relies on it), so it holds for y == R-1 and is
    refuted for y < R-1."""

    qualname = "_find_domain_floordiv"
    mutants = (("bound one too small even for the largest divisor", "size = (lhs.size - 1) // (rhs.size - 1) + 1", "size = (lhs.size - 1) // (rhs.size - 1)"),)

    def structures(self, tier):
        for st in super().structures(tier):
            if st[1][0] <= 1 and st[1][1] <= 1:
                yield st

    def build(self, p, st):
        sa, sb, L, R, ok, out = self.mk(p, st)
        if R != "real":
            p.assume(R >= 2)  # R == 1: every division is by zero (the rule raises ZeroDivisionError; nothing to type)
        return Ctx(args=(MOp("floordiv"), MDom(L, sa), MDom(R, sb)), namespace=NS, ok=ok, out=out, L=L, R=R, p=p)

    def may_raise(self, ctx, etype):
        return Not(ctx.ok)

    def ensures(self, ctx, result):
        cl = [("shape_is_broadcast", deep_eq(result.shape, ctx.out))]
        if ctx.L != "real":
            x, y = ctx.p.fresh_int("x"), ctx.p.fresh_int("y")
            v = core.floordiv_pos(x, y)
            rng = And(0 <= x, x < ctx.L, 1 <= y, y < ctx.R)
            ok = And(0 <= v, v < result.dtype)
            cl.append(("value_in_declared_range[divisor==max]", Implies(And(rng, y == ctx.R - 1), ok)))
            cl.append(("value_in_declared_range[divisor<max]", Implies(And(rng, y < ctx.R - 1), ok)))
        return cl

    def hints(self, ctx, path):
        return div_hints(path)

    def replay(self, ctx, m, st, clause):
        L, R = mval(m, ctx.L), mval(m, ctx.R)
        return (
            "import sys\nfrom funsor import ops\nfrom funsor.domains import find_domain, Bint\nL,R=%r,%r\n"
            "d=find_domain(ops.floordiv, Bint[L], Bint[R])\nbad=[(x,y) for x in range(L) for y in range(1,R) if not 0<=x//y<d.size]\n"
            "print(d, 'values outside the declared range at', bad[:5])\nsys.exit(1 if bad else 0)\n" % (L, R)
        )


@register
class FindDomainAssociative(_Pointwise):
    """binary associative ops: shape broadcast; bounded ints: for x in [0,L), y in [0,R): op(x,y) in [0,size) and the
    bound is attained (add, mul, max, min); and_/or_/xor declare Bint[2]: sound for boolean operands (L,R <= 2),
    known finding C06/bitwise-bint-range otherwise; mixed real/int -> real."""

    qualname = "_find_domain_associative_generic"
    dtypes = ("real/real", "int/int", "real/int", "int/real")
    ops_ = ("add", "mul", "max", "min", "and_", "or_", "xor", "logaddexp")
    mutants = (
        ("bound one too small", "dtype = op(lhs.dtype - 1, rhs.dtype - 1) + 1", "dtype = op(lhs.dtype - 1, rhs.dtype - 1)"),
        ("bound from sizes not maxima", "dtype = op(lhs.dtype - 1, rhs.dtype - 1) + 1", "dtype = op(lhs.dtype, rhs.dtype) - 1"),
    )

    def structures(self, tier):
        for label, st in super().structures(tier):
            if st[0] <= 1 and st[1] <= 1:
                for o in self.ops_:
                    if o == "logaddexp" and st[2] == "int/int":
                        continue
                    yield label + "," + o, st + (o,)
        yield "unary-form", "unary"

    def build(self, p, st):
        if st == "unary":
            shape = sym_shape(p, 2)
            return Ctx(args=(OpsNS.add, MDom("real", shape)), namespace=NS, unary=True, ok=True)
        sa, sb, L, R, ok, out = self.mk(p, st[:3])
        op = getattr(OpsNS, st[3])
        return Ctx(args=(op, MDom(L, sa), MDom(R, sb)), namespace=NS, ok=ok, out=out, L=L, R=R, p=p, opn=st[3], unary=False)

    def may_raise(self, ctx, etype):
        return Not(ctx.ok)

    def ensures(self, ctx, result):
        if ctx.unary:
            return [("reduces_to_scalar", deep_eq(result, MDom("real", ())))]
        cl = [("shape_is_broadcast", deep_eq(result.shape, ctx.out))]
        if ctx.L == "real" or ctx.R == "real":
            cl.append(("real_if_any_real", result.dtype == "real"))
            return cl
        p = ctx.p
        x, y = p.fresh_int("x"), p.fresh_int("y")
        rng = And(0 <= x, x < ctx.L, 0 <= y, y < ctx.R)
        if ctx.opn in ("add", "mul", "max", "min"):
            v = getattr(OpsNS, ctx.opn)(x, y)
            cl.append(("value_in_declared_range", Implies(rng, And(0 <= v, v < result.dtype))))
            top = getattr(OpsNS, ctx.opn)(ctx.L - 1, ctx.R - 1)
            cl.append(("range_attained", top == result.dtype - 1))
        else:
            # bitwise on 4-bit operands (structure bound L, R <= 16)
            bx, by = bits(p, x), bits(p, y)
            f = {"and_": lambda a, b: a * b, "or_": lambda a, b: a + b - a * b, "xor": lambda a, b: a + b - 2 * a * b}[ctx.opn]
            v = sum(f(a, b) * (2 ** i) for i, (a, b) in enumerate(zip(bx, by)))
            small = And(ctx.L <= 16, ctx.R <= 16)
            ok = And(0 <= v, v < result.dtype)
            cl.append(("value_in_declared_range[boolean operands]", Implies(And(rng, small, ctx.L <= 2, ctx.R <= 2), ok)))
            cl.append(("value_in_declared_range[non-boolean operands]", Implies(And(rng, small, Or(ctx.L > 2, ctx.R > 2)), ok)))
        return cl

    def replay(self, ctx, m, st, clause):
        if st == "unary" or ctx.L == "real" or ctx.R == "real":
            return None
        L, R = mval(m, ctx.L), mval(m, ctx.R)
        return (
            "import sys\nfrom funsor import ops\nfrom funsor.domains import find_domain, Bint\nL,R=%r,%r\nop=ops.%s\n"
            "d=find_domain(op, Bint[L], Bint[R])\nbad=[(x,y,int(op(x,y))) for x in range(L) for y in range(R) if not 0<=int(op(x,y))<d.size]\n"
            "top=max(int(op(x,y)) for x in range(L) for y in range(R))\n"
            "print(d, 'outside declared range:', bad[:5], 'max value', top)\nsys.exit(1 if bad or (%r and top != d.size-1) else 0)\n" % (L, R, ctx.opn, clause == "range_attained")
        )


@register
class FindDomainMatmul(Contract):
    """ensures shape == numpy matmul shape rule (1-d operands contracted, batch dims broadcast); raises iff the
    contracted sizes differ or batch dims are incompatible. structure bound: ranks 1..3 (quick) / 4."""

    props = ("C06",)
    file = "funsor/domains.py"
    qualname = "_find_domain_matmul"
    mutants = (("keeps lhs column dim", "shape = lhs.shape[:-1]\n", "shape = lhs.shape[:]\n"),)

    def structures(self, tier):
        maxr = 3 if tier == "quick" else 4
        for ra in range(1, maxr + 1):
            for rb in range(1, maxr + 1):
                yield "ranks=(%d,%d)" % (ra, rb), (ra, rb)

    def build(self, p, st):
        ra, rb = st
        sa, sb = sym_shape(p, ra, "a"), sym_shape(p, rb, "b")
        # numpy matmul shape rule (documentation of np.matmul)
        if rb == 1:
            ok, out = deep_eq(sa[-1], sb[-1]), sa[:-1]
        elif ra == 1:
            ok, out = deep_eq(sa[-1], sb[-2]), sb[:-2] + sb[-1:]
        else:
            okb, batch = spec_broadcast([sa[:-2], sb[:-2]])
            ok, out = And(deep_eq(sa[-1], sb[-2]), okb), batch + (sa[-2], sb[-1])
        return Ctx(args=(MOp("matmul"), MDom("real", sa), MDom("real", sb)), namespace=NS, ok=ok, out=out)

    def may_raise(self, ctx, etype):
        return Not(ctx.ok)

    def ensures(self, ctx, result):
        return [("compatible_when_returns", ctx.ok), ("equals_numpy_matmul_shape", deep_eq(result, MDom("real", ctx.out)))]


@register
class FindDomainStack(Contract):
    """ops.stack(parts, dim): shape == broadcast of part shapes with len(parts) inserted at `dim` (numpy.stack of the
    broadcast parts). structure bound: <= 3 parts of rank <= 2, dim enumerated over [-(r+1), r]."""

    props = ("C06",)
    file = "funsor/domains.py"
    qualname = "_find_domain_stack"
    mutants = (("nonnegative dim off by one", "dim = dim - len(shape) - 1", "dim = dim - len(shape)"),)

    def structures(self, tier):
        for n in (1, 2, 3):
            for ranks in itertools.product(range(3), repeat=n):
                r = max(ranks)
                if tier == "quick" and n == 3 and r > 1:
                    continue
                for dim in range(-(r + 1), r + 1):
                    yield "ranks=%s,dim=%d" % (ranks, dim), (ranks, dim)

    def build(self, p, st):
        ranks, dim = st
        shapes = [sym_shape(p, r, "p%d_" % k) for k, r in enumerate(ranks)]
        ok, b = spec_broadcast(shapes)
        pos = dim if dim >= 0 else dim + len(b) + 1
        out = b[:pos] + (len(ranks),) + b[pos:]
        parts = tuple(MDom("real", s) for s in shapes)
        return Ctx(args=(MOp("stack", dim=dim), parts), namespace=NS, ok=ok, out=out)

    def may_raise(self, ctx, etype):
        return Not(ctx.ok)

    def ensures(self, ctx, result):
        return [("equals_numpy_stack_shape", deep_eq(result, MDom("real", ctx.out)))]


@register
class FindDomainCat(Contract):
    """ops.cat(parts, axis): equal-rank parts; size along axis is the sum, other dims broadcast.
    structure bound: <= 3 parts of rank 1..3, axis enumerated."""

    props = ("C06",)
    file = "funsor/domains.py"
    qualname = "_find_domain_cat"
    mutants = (("trailing dims dropped", "if dim < -1:", "if dim < -2:"), ("first part only", "sum(x.shape[dim] for x in parts)", "parts[0].shape[dim]"))

    def structures(self, tier):
        for n in (1, 2, 3):
            for rank in (1, 2, 3):
                if tier == "quick" and n == 3 and rank == 3:
                    continue
                for axis in range(-rank, rank):
                    yield "n=%d,rank=%d,axis=%d" % (n, rank, axis), (n, rank, axis)

    def build(self, p, st):
        n, rank, axis = st
        shapes = [sym_shape(p, rank, "p%d_" % k) for k in range(n)]
        a = axis % rank
        ok1, left = spec_broadcast([s[:a] for s in shapes])
        ok2, right = spec_broadcast([s[a + 1:] for s in shapes])
        tot = shapes[0][a]
        for s in shapes[1:]:
            tot = tot + s[a]
        out = left + (tot,) + right
        return Ctx(args=(MOp("cat", axis=axis), tuple(MDom("real", s) for s in shapes)), namespace=NS, ok=And(ok1, ok2), out=out)

    def may_raise(self, ctx, etype):
        return Not(ctx.ok)

    def ensures(self, ctx, result):
        return [("equals_cat_shape", deep_eq(result, MDom("real", ctx.out)))]


@register
class FindDomainEinsum(Contract):
    """einsum: output dims take the sizes bound to the output symbols; a symbol bound to two different sizes raises.
    structure bound: equations over <= 3 symbols, <= 2 operands of rank <= 2 (enumerated)."""

    props = ("C06",)
    file = "funsor/domains.py"
    qualname = "_find_domain_einsum"
    mutants = (("sizes of the wrong symbols", "for d in ein_output)", "for d in reversed(ein_output))"),)

    def structures(self, tier):
        syms = "abc"
        terms = [""] + [a for a in syms] + [a + b for a in syms for b in syms if a != b]
        for n in (1, 2):
            for ins in itertools.product(terms, repeat=n):
                used = sorted(set("".join(ins)))
                outs = [""] + ["".join(o) for k in (1, 2) for o in itertools.permutations(used, k)]
                for o in outs:
                    if tier == "quick" and n == 2 and len(o) > 1 and len("".join(ins)) > 3:
                        continue
                    yield "%s->%s" % (",".join(ins), o), (ins, o)

    def build(self, p, st):
        ins, o = st
        shapes = [sym_shape(p, len(t), "o%d_" % k) for k, t in enumerate(ins)]
        first = {}
        ok = []
        for t, sh in zip(ins, shapes):
            for c, s in zip(t, sh):
                if c in first:
                    ok.append(deep_eq(first[c], s))
                else:
                    first[c] = s
        out = tuple(first[c] for c in o)
        op = MOp("einsum", equation="%s->%s" % (",".join(ins), o))
        return Ctx(args=(op, tuple(MDom("real", s) for s in shapes)), namespace=NS, ok=And(*ok) if ok else True, out=out)

    def may_raise(self, ctx, etype):
        return Not(ctx.ok)

    def ensures(self, ctx, result):
        return [("sizes_consistent_when_returns", ctx.ok), ("output_sizes_of_output_symbols", deep_eq(result, MDom("real", ctx.out)))]


@register
class FindDomainReshape(Contract):
    """reshape: declares the requested shape with the operand's dtype"""

    props = ("C06",)
    file = "funsor/domains.py"
    qualname = "_find_domain_reshape"
    total = True

    def structures(self, tier):
        for r in range(4):
            yield "rank=%d" % r, r

    def build(self, p, r):
        sh = sym_shape(p, r)
        tgt = sym_shape(p, 2, "t")
        return Ctx(args=(MOp("reshape", shape=tgt), MDom("real", sh)), namespace=NS, tgt=tgt)

    def ensures(self, ctx, result):
        return [("requested_shape", deep_eq(result, MDom("real", ctx.tgt)))]


@register
class FindDomainUnaryGeneric(Contract):
    """generic pointwise unary rule: same shape and dtype (value range on bounded ints not ensured: known finding
    C06/generic-bint-range)"""

    props = ("C06",)
    file = "funsor/domains.py"
    qualname = "_find_domain_pointwise_unary_generic"
    total = True

    def structures(self, tier):
        for r in range(4):
            yield "rank=%d" % r, r

    def build(self, p, r):
        sh = sym_shape(p, r)
        return Ctx(args=(MOp("neg"), MDom("real", sh)), namespace=NS, sh=sh)

    def ensures(self, ctx, result):
        return [("same_shape_and_dtype", deep_eq(result, MDom("real", ctx.sh)))]
