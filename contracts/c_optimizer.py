"""C08: the optimizer's re-bracketing rule funsor/optimizer.py:optimize_contract_finitary_funsor EXECUTED on abstract operands over
the free commutative semiring (contracts/poly.py).  Every operand entry is a distinct indeterminate; Contraction and reduce
build polynomials; the result is compared -- as a polynomial identity at every point of the free inputs, hence for ALL operand
contents and every commutative semiring in which the product distributes over the sum -- with the naive contraction
    sum over every reduced variable (mentioned by an operand or not) of the product of all operands.
The contraction path is the callee's choice (opt_einsum's greedy search, third party): it is ADVERSARIAL here -- every
sequence of pairwise contractions is explored, so the obligation holds whatever path the search returns.
Structure bound: 2..3 operands (4 in the thorough tier on a reduced family) over variables a, b, c plus one variable u that no
operand mentions; every reduced subset; all sizes fixed to 2 (stated in the evidence)."""
import collections
import itertools
from collections import OrderedDict

from pyvc import core
from pyvc.contract import Contract, Ctx, register

from .poly import ONE, ZERO, Poly

SIZE = 2


class VarM:
    def __init__(self, name):
        self.name, self.dtype, self.num_elements = name, SIZE, 1

    def __eq__(self, other):
        return isinstance(other, VarM) and other.name == self.name

    def __hash__(self):
        return hash(("VarM", self.name))

    def __repr__(self):
        return self.name


class Dm:
    dtype = SIZE
    num_elements = 1


class OpM:
    def __init__(self, name):
        self.name = name

    def __repr__(self):
        return self.name


SUM, PROD, NULL = OpM("sum"), OpM("prod"), OpM("null")


class Term:
    """abstract operand / intermediate result: ordered input names and env -> Poly"""

    bound = {}

    def __init__(self, names, fn, label):
        self.inputs = OrderedDict((n, Dm()) for n in names)
        self.input_vars = frozenset(VarM(n) for n in names)
        self.fn, self.label = fn, label

    def at(self, env):
        return self.fn({k: env[k] for k in self.inputs})

    def reduce(self, op, rvars):
        names = sorted(v.name if isinstance(v, VarM) else v for v in rvars)
        assert op is SUM
        mine = [n for n in names if n in self.inputs]
        absent = len(names) - len(mine)
        rest = [k for k in self.inputs if k not in mine]
        src = self

        def fn(env):
            acc = ZERO
            for vals in itertools.product(range(SIZE), repeat=len(mine)):
                e = dict(env)
                e.update(zip(mine, vals))
                acc = acc + src.at(e)
            for _ in range(absent):  # a variable the operand does not mention: SIZE equal summands
                acc = sum_copies(acc)
            return acc

        return Term(rest, fn, "red")

    def __repr__(self):
        return "%s%s" % (self.label, list(self.inputs))


def sum_copies(p):
    acc = ZERO
    for _ in range(SIZE):
        acc = acc + p
    return acc


def contraction(red_op, bin_op, reduced_vars, *terms):
    """model of Contraction(red_op, bin_op, reduced_vars, ta, tb): the bin_op-product of the terms, red_op-reduced"""
    assert bin_op is PROD
    names = []
    for t in terms:
        names += [k for k in t.inputs if k not in names]
    prod = Term(names, lambda env, ts=terms: _prod(ts, env), "con")
    if red_op is NULL:
        assert not reduced_vars
        return prod
    return prod.reduce(red_op, reduced_vars)


def _prod(ts, env):
    acc = ONE
    for t in ts:
        acc = acc * t.at(env)
    return acc


def leaf(i, names):
    return Term(names, lambda env, i=i, names=tuple(names): Poly.sym("t%d[%s]" % (i, ",".join("%s=%d" % (k, env[k]) for k in names))), "t%d" % i)


def all_paths(n):
    if n == 1:
        yield []
        return
    for a, b in itertools.combinations(range(n), 2):
        for rest in all_paths(n - 1):
            yield [(a, b)] + rest


@register
class OptimizeContract(Contract):
    """optimize_contract_finitary_funsor(red_op, bin_op, reduced_vars, terms) for a distributive (sum, product) pair: whatever
    pairwise contraction path the search returns, the re-bracketed result equals the naive contraction at every point of the
    free inputs -- no variable is reduced before its last use, every reduced variable is reduced exactly once, including a
    variable that no operand mentions (which contributes its size as a multiplicity); returns None (rule declines) for a
    null operator or a non-distributive pair."""

    props = ("C08", "C02")
    file = "funsor/optimizer.py"
    qualname = "optimize_contract_finitary_funsor"
    total = True
    max_paths = 50
    mutants = (
        ("variables no operand mentions are dropped (pre-fix behaviour)", "    final_reduced_vars |= reduced_vars - frozenset().union(*inputs)\n", ""),
        ("a variable is reduced at its first contraction", "d for d in reduced_vars & both_vars if reduce_dim_counter[d] == 0", "d for d in reduced_vars & both_vars"),
        ("remaining variables never reduced", "    if final_reduced_vars:\n        path_end = path_end.reduce(red_op, final_reduced_vars)", "    if False:\n        pass"),
    )

    VARS = ("a", "b", "c")

    def structures(self, tier):
        subsets = [tuple(v for v, bit in zip(self.VARS, bits) if bit) for bits in itertools.product((0, 1), repeat=3)]
        red_sets = [tuple(v for v, bit in zip(self.VARS + ("u",), bits) if bit) for bits in itertools.product((0, 1), repeat=4)]
        yield "declines:null-reduce", ("decline", "null_red")
        yield "declines:null-product", ("decline", "null_bin")
        yield "declines:non-distributive", ("decline", "nondist")
        for n in (2, 3) + ((4,) if tier != "quick" else ()):
            for ops_ in itertools.combinations_with_replacement(subsets, n):
                used = set(sum(ops_, ()))
                if n == 3 and tier == "quick" and sum(len(o) for o in ops_) > 5:
                    continue
                if n == 4 and (len(used) > 2 or sum(len(o) for o in ops_) > 5):
                    continue
                for red in red_sets:
                    if any(v not in used and v != "u" for v in red):
                        continue  # unmentioned variables are represented by u
                    if n == 4 and len(red) > 2:
                        continue
                    for pi, path in enumerate(all_paths(n)):
                        yield "operands=%s,reduced=%s,path=%s" % (["".join(o) or "-" for o in ops_], "".join(red) or "-", path), ("run", ops_, red, tuple(path))

    def build(self, p, st):
        if st[0] == "decline":
            terms = (leaf(0, ("a",)), leaf(1, ("a", "b")))
            red = frozenset([VarM("a")])
            other = OpM("other")
            args = {"null_red": (NULL, PROD, frozenset(), terms), "null_bin": (SUM, NULL, red, terms), "nondist": (other, PROD, red, terms)}[st[1]]
            return Ctx(args=args, namespace=self.ns(None), st=st)
        _, ops_, red, path = st
        terms = tuple(leaf(i, o) for i, o in enumerate(ops_))
        reduced = frozenset(VarM(v) for v in red)
        return Ctx(args=(SUM, PROD, reduced, terms), namespace=self.ns(list(path)), st=st, terms=terms, red=red)

    def ns(self, path):
        class Ops:
            null = NULL

        def greedy(input_names, output_names, size_dict):
            # contract of the third-party search: SOME sequence of pairwise contractions over the current operand list
            return list(path)

        return dict(ops=Ops, DISTRIBUTIVE_OPS=frozenset([(SUM, PROD)]), REAL_SIZE=4, greedy=greedy, collections=collections, Contraction=contraction,
                    frozenset=frozenset, tuple=tuple, list=list, sorted=sorted)

    def ensures(self, ctx, result):
        if ctx.st[0] == "decline":
            return [("rule_declines", result is None)]
        terms, red = ctx.terms, ctx.red
        if not isinstance(result, Term):
            return [("returns_a_term", False)]
        names = []
        for t in terms:
            names += [k for k in t.inputs if k not in names]
        free = [n for n in names if n not in red]
        mentioned = [n for n in names if n in red]
        absent = [v for v in red if v not in names]
        ok_inputs = set(result.inputs) == set(free)
        same = ok_inputs
        if ok_inputs:
            for vals in itertools.product(range(SIZE), repeat=len(free)):
                env = dict(zip(free, vals))
                naive = ZERO
                for rv in itertools.product(range(SIZE), repeat=len(mentioned)):
                    e = dict(env)
                    e.update(zip(mentioned, rv))
                    naive = naive + _prod(terms, e)
                for _ in absent:
                    naive = sum_copies(naive)
                if not (result.at(env) == naive):
                    same = False
                    break
        return [("free_inputs_are_the_unreduced_inputs", ok_inputs), ("equals_naive_contraction_for_every_path", bool(same))]


@register
class ApplyOptimizer(Contract):
    """apply_optimizer(x): reinterprets x under `unfold` (left again before the next step), then reinterprets THAT term under
    the optimize rules layered over the interpretation that was active at the call (so anything optimize has no rule for
    is interpreted as the caller would); each context is entered and left exactly once, in that order.  Value preservation
    of the two passes is the contracts of the rules they fire (UnfoldContractionGenericTuple, OptimizeContract) and of the
    reinterpreter (RecursionReinterpret / StackReinterpret)."""

    props = ("C08", "C03")
    file = "funsor/optimizer.py"
    qualname = "apply_optimizer"
    total = True
    mutants = (("optimised against the original term", "        return interpreter.reinterpret(expr)", "        return interpreter.reinterpret(x)"),)

    def structures(self, tier):
        yield "term", None

    def build(self, p, st):
        log = []
        stack = ["caller"]

        class Ctxm:
            def __init__(self, name):
                self.name = name

            def __enter__(self):
                stack.append(self.name)
                log.append(("enter", self.name))
                return self

            def __exit__(self, *a):
                log.append(("exit", stack.pop()))
                return False

        class Interpreter:
            @staticmethod
            def reinterpret(t):
                log.append(("reinterpret", t, stack[-1]))
                return ("re", stack[-1], t)

        def Prioritized(*subs):
            return Ctxm(("prioritized",) + tuple(subs))

        ns = dict(unfold=Ctxm("unfold"), interpreter=Interpreter, PrioritizedInterpretation=Prioritized, optimize_base="optimize_base", get_interpretation=lambda: stack[-1])
        return Ctx(args=("X",), namespace=ns, log=log, stack=stack)

    def ensures(self, ctx, result):
        opt = ("prioritized", "optimize_base", "caller")
        exp_log = [("enter", "unfold"), ("reinterpret", "X", "unfold"), ("exit", "unfold"), ("enter", opt), ("reinterpret", ("re", "unfold", "X"), opt), ("exit", opt)]
        return [("unfold_then_optimize_over_the_callers_interpretation", ctx.log == exp_log and result == ("re", opt, ("re", "unfold", "X")) and ctx.stack == ["caller"])]


# ==================================================================================================
# C08 / C05: one unfolding step with binders that clash -- value preservation with NAMED bound variables
# ==================================================================================================
SUMOP = SUM  # the semiring sum used as a binary operator (x + h); DISTRIBUTIVE_OPS holds (SUM, PROD)
class ConP:
    """Contraction with named bound variables over the free semiring: the value at an environment is the red_op-reduction over
    its OWN reduced variables (shadowing any outer variable of the same name) of the bin_op-product of its terms"""

    def __init__(self, red_op, bin_op, reduced_vars, *terms):
        if len(terms) == 1 and isinstance(terms[0], tuple):
            terms = terms[0]
        self.red_op, self.bin_op, self.terms = red_op, bin_op, tuple(terms)
        self.reduced_vars = frozenset(v if isinstance(v, VarM) else VarM(v) for v in reduced_vars)
        self.bound = {v.name: Dm() for v in self.reduced_vars}
        self.inputs = OrderedDict()
        for t in self.terms:
            for k_, d in t.inputs.items():
                if k_ not in self.bound:
                    self.inputs.setdefault(k_, d)
        self.input_vars = frozenset(VarM(n) for n in self.inputs)

    def at(self, env):
        names = sorted(self.bound)
        acc = None
        for vals in itertools.product(range(SIZE), repeat=len(names)):
            e = dict(env)
            e.update(zip(names, vals))
            v = None
            for t in self.terms:
                tv = t.at({k_: e[k_] for k_ in t.inputs})
                v = tv if v is None else (v * tv if self.bin_op is PROD else v + tv)  # SUMOP: pointwise sum
            acc = v if acc is None else (acc + v if self.red_op is SUM else acc * v)
        return acc

    def reduce(self, op, rvars):
        rvars = frozenset(rvars)
        if not rvars:
            return self
        return ConP(op, NULL, rvars, self)

    def _alpha_convert(self, alpha_subs):
        ren = dict(alpha_subs)
        rv = frozenset(VarM(ren.get(v.name, v.name)) for v in self.reduced_vars)
        return self.red_op, self.bin_op, rv, tuple(rename_free(t, ren) for t in self.terms)


def rename_free(t, ren):
    """rename FREE occurrences of names (a nested binder of the same name shadows)"""
    if isinstance(t, ConP):
        inner = {k_: v for k_, v in ren.items() if k_ not in t.bound}
        if not any(k_ in t.inputs for k_ in inner):
            return t
        return ConP(t.red_op, t.bin_op, t.reduced_vars, *[rename_free(u, inner) for u in t.terms])
    if not any(k_ in t.inputs for k_ in ren):
        return t
    names = [ren.get(k_, k_) for k_ in t.inputs]
    back = {ren.get(k_, k_): k_ for k_ in t.inputs}
    src = t
    return Term(names, lambda env: src.at({back[k_]: env[k_] for k_ in back}), t.label + "'")


@register
class UnfoldSharedBinders(Contract):
    """optimizer.unfold_contraction_generic_tuple -- ONE unfolding step on operands whose bound names clash, read with named
    binders over the free commutative semiring (every tensor entry an indeterminate): the rule's result denotes, at every point
    of the free inputs, the same polynomial as Contraction(red_op, bin_op, reduced_vars, terms) -- in particular when the same
    (cons-hashed) reduction occurs twice among the operands (x * x with x = sum_j f[j]) and when a nested reduction binds a
    name that is free in a sibling (the second step of the same derivation): pulling the inner reduction out over the sibling
    must not identify the two j's ((sum_j f[j])^2 is not sum_j f[j]^2 -- the repaired defect).
    structure bound: 2..3 operands over leaves f[j], g[j,k], nested sum-reductions over j, outer reduction over j, k or none."""

    props = ("C08", "C05", "C02")
    file = "funsor/optimizer.py"
    qualname = "unfold_contraction_generic_tuple"
    total = True
    mutants = (
        ("bound names are not refreshed (the pinned-tree defect)", "            v = reflect.interpret(Contraction, *v._alpha_convert(fresh))\n", "            pass\n"),
        ("refreshed only when there are siblings (a clash with the outer reduction goes unnoticed)", "        if v.bound and (len(terms) > 1 or reduced_vars):", "        if v.bound and len(terms) > 2:"),
    )

    def cases(self):
        f = leaf(0, ("j",))
        g = leaf(1, ("j", "k"))
        h = leaf(2, ("k",))
        x = ConP(SUM, NULL, ["j"], f)  # sum_j f[j]
        y = ConP(SUM, NULL, ["j"], g)  # sum_j g[j,k]
        z = ConP(SUM, PROD, ["j"], f, g)  # sum_j f[j] g[j,k]
        out = OrderedDict()
        out["x*x"] = (NULL, PROD, [], (x, x))
        out["x*x*x"] = (NULL, PROD, [], (x, x, x))
        out["x*y"] = (NULL, PROD, [], (x, y))
        out["sum_j f[j]*x  (second step of x*x)"] = (SUM, PROD, ["j"], (f, x))
        out["sum_j g[j,k]*y"] = (SUM, PROD, ["j"], (g, y))
        out["sum_k h[k]*y*y"] = (SUM, PROD, ["k"], (h, y, y))
        out["y*z"] = (NULL, PROD, [], (y, z))
        out["sum_j f[j]*z"] = (SUM, PROD, ["j"], (f, z))
        out["h*x (no clash)"] = (NULL, PROD, [], (h, x))
        # the clash sits one level down: S = x + h occurs twice, each occurrence contains the reduction x
        S = ConP(NULL, SUMOP, [], x, h)
        out["(x+h)*(x+h)"] = (NULL, PROD, [], (S, S))
        out["sum_j f[j]*(x+h)"] = (SUM, PROD, ["j"], (f, S))
        return out

    def structures(self, tier):
        for label in self.cases():
            yield label, label

    def build(self, p, label):
        r, b, V, ts = self.cases()[label]
        counter = itertools.count()

        class Ops:
            null = NULL

        class Interp:
            @staticmethod
            def gensym(prefix):
                return "%s_%d" % (prefix, next(counter))

        class Reflect:
            @staticmethod
            def interpret(cls, *args):
                return cls(*args)

        class ConCls:
            @staticmethod
            def __sym_instancecheck__(x):
                return isinstance(x, ConP)

            def __call__(self, *a):
                return ConP(*a)

        ns = dict(ops=Ops, Contraction=ConCls(), DISTRIBUTIVE_OPS=frozenset([(SUM, PROD)]), interpreter=Interp, reflect=Reflect, isinstance=core.sisinstance, enumerate=enumerate, tuple=tuple, frozenset=frozenset)
        Vs = frozenset(VarM(n) for n in V)
        return Ctx(args=(r, b, Vs, tuple(ts)), namespace=ns, orig=ConP(r, b, Vs, *ts), label=label)

    def ensures(self, ctx, result):
        if result is None:
            return [("a_nested_contraction_is_unfolded", False)]
        orig = ctx.orig
        ok_inputs = set(result.inputs) == set(orig.inputs)
        same = ok_inputs
        if ok_inputs:
            names = list(orig.inputs)
            for vals in itertools.product(range(SIZE), repeat=len(names)):
                env = dict(zip(names, vals))
                if not (result.at(env) == orig.at(env)):
                    same = False
                    break
        return [("free_inputs_unchanged", ok_inputs), ("same_value_at_every_point_for_all_contents", bool(same))]
