"""C05: bound names are fresh and renamed consistently -- gensym, _alpha_mangle and the _alpha_convert family
(funsor/interpreter.py, funsor/terms.py, funsor/cnf.py, funsor/integrate.py, funsor/sum_product.py).

Sub-terms are opaque; `substitute(body, M)` is used through its C04 contract (recorded as the uninterpreted token
("subst", body, M)); `to_funsor(name, dom)` / `Variable(name, dom)` build the hash-consed variable of that name and domain.
Shared postcondition of every _alpha_convert(alpha): with M = {k: Variable(alpha[k], domain of k) for k in alpha},
every sub-term is replaced by substitute(sub-term, M) WITH THE SAME M, every binder field is the image of the old binder
under alpha (domains kept), and nothing else changes."""
import itertools
from collections import OrderedDict

from pyvc import core
from pyvc.contract import Contract, Ctx, register
from pyvc.core import Declined, Unsupported


class VarTok:
    _c = {}

    def __new__(cls, name, dom):
        key = (str(name), dom)
        if key not in cls._c:
            o = object.__new__(cls)
            o.name, o.output = str(name), dom
            o.inputs = OrderedDict([(o.name, dom)])
            cls._c[key] = o
        return cls._c[key]

    def __str__(self):
        return self.name

    def __repr__(self):
        return "Var(%s:%s)" % (self.name, self.output)


def to_funsor(v, dom=None, *a):
    if isinstance(v, VarTok):
        if dom is not None and v.output != dom:
            raise Declined("ValueError", "output mismatch")
        return v
    return VarTok(v, dom)


class Body:
    """an opaque sub-term with known inputs"""

    def __init__(self, label, inputs):
        self.label, self.inputs = label, OrderedDict(inputs)

    def __repr__(self):
        return self.label


def substitute(v, subs):
    if isinstance(v, Body):
        return ("subst", v, tuple(sorted((k, s) for k, s in subs.items())) if isinstance(subs, dict) else subs)
    if isinstance(v, VarTok):
        return subs.get(v.name, v) if isinstance(subs, dict) else v
    if isinstance(v, tuple):
        return tuple(substitute(x, subs) for x in v)
    if isinstance(v, frozenset):
        return frozenset(substitute(x, subs) for x in v)
    return v  # atoms (ops, names) are unchanged by substitution


def M_of(alpha, dom):
    return tuple(sorted((k, VarTok(v, dom[k])) for k, v in alpha.items()))


NS = dict(substitute=substitute, to_funsor=to_funsor, Variable=VarTok, OrderedDict=OrderedDict, set=set, str=str)


class BaseConv:
    """the real Funsor._alpha_convert, interpreted, for super() calls"""

    def __init__(self, self_):
        self.self_ = self_
        loc = core.locate("funsor/terms.py", "Funsor._alpha_convert")
        self.f, _ = core.make_callable(loc, NS)

    def _alpha_convert(self, alpha_subs):
        return self.f(self.self_, alpha_subs)


class _Alpha(Contract):
    props = ("C05",)
    total = True
    bound = {"i": "Bint[n]", "j": "Bint[m]"}

    def alphas(self):
        names = list(self.bound)
        for k in range(1, len(names) + 1):
            for sub in itertools.combinations(names, k):
                yield {n: n + "__BOUND_7" for n in sub}

    def structures(self, tier):
        for a in self.alphas():
            yield "rename=%s" % (",".join(sorted(a))), a

    def hooks(self, ctx):
        return {"super": lambda sc, *a: BaseConv(ctx.self_)}

    def build(self, p, alpha):
        s = self.make_self()
        return Ctx(args=(s, dict(alpha)), namespace=NS, self_=s, alpha=alpha)

    def rn(self, ctx, name):
        return ctx.alpha.get(name, name)

    def var(self, ctx, name, dom):
        return VarTok(self.rn(ctx, name), dom)


class Obj:
    pass


@register
class FunsorAlphaConvert(_Alpha):
    """Funsor._alpha_convert (base): requires alpha's keys to be bound names; every ast value is substituted with the
    given map (atoms are unchanged by substitution)."""

    file = "funsor/terms.py"
    qualname = "Funsor._alpha_convert"
    mutants = (("first value skipped", "for v in self._ast_values)", "for v in self._ast_values[1:])"),)

    def make_self(self):
        s = Obj()
        s.bound = dict(self.bound)
        s.b1, s.b2 = Body("f", [("i", "Bint[n]"), ("x", "Real")]), Body("g", [("j", "Bint[m]")])
        s._ast_values = ("op", s.b1, s.b2)
        return s

    def build(self, p, alpha):
        s = self.make_self()
        m = {k: VarTok(v, s.bound[k]) for k, v in alpha.items()}
        return Ctx(args=(s, m), namespace=NS, self_=s, alpha=alpha, m=m)

    def ensures(self, ctx, result):
        s = ctx.self_
        M = tuple(sorted(ctx.m.items()))
        return [("every_value_substituted_with_the_same_map", result == ("op", ("subst", s.b1, M), ("subst", s.b2, M)))]


@register
class ReduceAlphaConvert(_Alpha):
    """Reduce._alpha_convert: (op, substitute(arg, M), {M(v) for v in reduced_vars}); domains from arg.inputs."""

    file = "funsor/terms.py"
    qualname = "Reduce._alpha_convert"
    mutants = (("renamed binder gets the wrong domain", "k: to_funsor(v, self.arg.inputs[k]) for k, v in alpha_subs.items()", "k: to_funsor(v, self.arg.inputs[sorted(self.arg.inputs)[0]]) for k, v in alpha_subs.items()"),)

    def make_self(self):
        s = Obj()
        s.bound = dict(self.bound)
        s.arg = Body("arg", [("i", "Bint[n]"), ("j", "Bint[m]"), ("x", "Real")])
        s.reduced_vars = frozenset([VarTok("i", "Bint[n]"), VarTok("j", "Bint[m]")])
        s._ast_values = ("op", s.arg, s.reduced_vars)
        return s

    def ensures(self, ctx, result):
        s = ctx.self_
        M = M_of(ctx.alpha, s.arg.inputs)
        return [("body_and_binders_renamed_with_the_same_map", result == ("op", ("subst", s.arg, M), frozenset([self.var(ctx, "i", "Bint[n]"), self.var(ctx, "j", "Bint[m]")])))]


@register
class SubsAlphaConvert(_Alpha):
    """Subs._alpha_convert: the substituted-into term has its bound keys renamed (domain = output of the value bound to
    the key); the keys of the substitution pairs are renamed accordingly, the VALUES are untouched (they live in the
    caller's scope -- no capture)."""

    file = "funsor/terms.py"
    qualname = "Subs._alpha_convert"
    mutants = (("values substituted too", "subs = tuple((str(alpha_subs.get(k, k)), v) for k, v in subs)", "subs = tuple((str(alpha_subs.get(k, k)), substitute(v, alpha_subs)) for k, v in subs)"), ("keys not renamed", "subs = tuple((str(alpha_subs.get(k, k)), v) for k, v in subs)", "subs = tuple((k, v) for k, v in subs)"))

    def make_self(self):
        s = Obj()
        s.bound = dict(self.bound)
        s.arg = Body("arg", [("i", "Bint[n]"), ("j", "Bint[m]"), ("x", "Real")])
        s.vi, s.vj = Body("value_i", [("i", "Bint[9]")]), Body("value_j", [("k", "Bint[2]")])  # value_i mentions a FREE i
        s.vi.output, s.vj.output = "Bint[n]", "Bint[m]"
        s.subs = OrderedDict([("i", s.vi), ("j", s.vj)])
        s._ast_values = (s.arg, (("i", s.vi), ("j", s.vj)))
        return s

    def ensures(self, ctx, result):
        s = ctx.self_
        M = M_of(ctx.alpha, {"i": "Bint[n]", "j": "Bint[m]"})
        return [("body_renamed_values_untouched", result == (("subst", s.arg, M), ((self.rn(ctx, "i"), s.vi), (self.rn(ctx, "j"), s.vj))))]


@register
class LambdaAlphaConvert(_Alpha):
    """Lambda._alpha_convert: binder variable and body renamed with the same map."""

    file = "funsor/terms.py"
    qualname = "Lambda._alpha_convert"
    bound = {"i": "Bint[n]"}

    def make_self(self):
        s = Obj()
        s.bound = dict(self.bound)
        s.var = VarTok("i", "Bint[n]")
        s.expr = Body("expr", [("i", "Bint[n]"), ("x", "Real")])
        s._ast_values = (s.var, s.expr)
        return s

    def ensures(self, ctx, result):
        s = ctx.self_
        M = M_of(ctx.alpha, {"i": "Bint[n]"})
        return [("binder_and_body_renamed_with_the_same_map", result == (self.var(ctx, "i", "Bint[n]"), ("subst", s.expr, M)))]


@register
class CatAlphaConvert(_Alpha):
    """Cat._alpha_convert: the bound part_name is renamed in every part (domain = that part's own size) and in the
    part_name field; the free name of the concatenated input is untouched."""

    file = "funsor/terms.py"
    qualname = "Cat._alpha_convert"
    bound = {"p": "part"}
    mutants = (("only first part renamed", "            for p in self.parts\n", "            for p in self.parts[:1]\n"),)

    def make_self(self):
        s = Obj()
        s.bound = {"p": "Bint[2]"}
        s.name, s.part_name = "t", "p"
        s.parts = (Body("part0", [("p", "Bint[2]"), ("x", "Real")]), Body("part1", [("p", "Bint[3]")]))
        return s

    def ensures(self, ctx, result):
        s = ctx.self_
        new = self.rn(ctx, "p")
        exp_parts = tuple(("subst", q, (("p", VarTok(new, q.inputs["p"])),)) for q in s.parts)
        return [("all_parts_and_binder_renamed", result == ("t", exp_parts, new))]


@register
class IndependentAlphaConvert(_Alpha):
    """Independent._alpha_convert: bint_var and diag_var (the two binders) renamed in fn and in the name fields; reals_var
    (free) untouched."""

    file = "funsor/terms.py"
    qualname = "Independent._alpha_convert"
    bound = {"i": "Bint[n]", "xi": "Real"}
    mutants = (("the fresh output name is renamed too", "        bint_var = str(alpha_subs.get(bint_var, bint_var))", "        reals_var = str(alpha_subs.get(reals_var, reals_var))\n        bint_var = str(alpha_subs.get(bint_var, bint_var))"),)

    def structures(self, tier):
        for a in self.alphas():
            yield "rename=%s" % (",".join(sorted(a))), a
        # the user may give the bound diag variable the SAME name as the fresh output variable: Independent(f, "x", "i", "x")
        yield "rename=i,x with diag_var == reals_var", {"i": "i__BOUND_7", "x": "x__BOUND_8", "__collide__": True}

    def build(self, p, alpha):
        alpha = dict(alpha)
        collide = alpha.pop("__collide__", False)
        s = Obj()
        dv = "x" if collide else "xi"
        s.bound = {"i": "Bint[n]", dv: "Real"}
        s.fn = Body("fn", [("i", "Bint[n]"), (dv, "Real"), ("z", "Real")])
        s._ast_values = (s.fn, "x", "i", dv)
        return Ctx(args=(s, dict(alpha)), namespace=NS, self_=s, alpha=alpha, dv=dv)

    def ensures(self, ctx, result):
        s = ctx.self_
        M = M_of(ctx.alpha, s.fn.inputs)
        # reals_var ("x") names the FRESH output input: it is never renamed, even when a bound name coincides with it
        return [("binders_renamed_fresh_output_name_kept", result == (("subst", s.fn, M), "x", self.rn(ctx, "i"), self.rn(ctx, ctx.dv)))]


@register
class ContractionAlphaConvert(_Alpha):
    """Contraction._alpha_convert: reduced_vars and all terms renamed with the same map; ops untouched."""

    file = "funsor/cnf.py"
    qualname = "Contraction._alpha_convert"
    mutants = (("terms renamed, binders not", "to_funsor(alpha_subs.get(var.name, var), var.output)", "to_funsor(var, var.output)"),)

    def make_self(self):
        s = Obj()
        s.bound = dict(self.bound)
        s.t1, s.t2 = Body("t1", [("i", "Bint[n]")]), Body("t2", [("i", "Bint[n]"), ("j", "Bint[m]")])
        s.reduced_vars = frozenset([VarTok("i", "Bint[n]"), VarTok("j", "Bint[m]")])
        s._ast_values = ("red_op", "bin_op", s.reduced_vars, (s.t1, s.t2))
        return s

    def ensures(self, ctx, result):
        s = ctx.self_
        M = M_of(ctx.alpha, self.bound)
        return [("terms_and_binders_renamed_with_the_same_map", result == ("red_op", "bin_op", frozenset([self.var(ctx, "i", "Bint[n]"), self.var(ctx, "j", "Bint[m]")]), (("subst", s.t1, M), ("subst", s.t2, M))))]


@register
class IntegrateAlphaConvert(_Alpha):
    """Integrate._alpha_convert: log_measure and integrand renamed with the same map (domain looked up in either), the
    reduced variables renamed accordingly."""

    file = "funsor/integrate.py"
    qualname = "Integrate._alpha_convert"
    mutants = (
        ("measure not renamed", "log_measure = substitute(self.log_measure, alpha_subs)", "log_measure = self.log_measure"),
        ("names the integrand lacks are not renamed", "            for k, v in alpha_subs.items()\n        }", "            for k, v in alpha_subs.items()\n            if k in self.integrand.inputs\n        }"),
    )
    bound = {"i": "Bint[n]", "j": "Bint[m]", "k": "Bint[c]"}

    def make_self(self):
        # i occurs in both, j only in the integrand, k only in the measure (a mixture component index)
        s = Obj()
        s.bound = dict(self.bound)
        s.log_measure = Body("log_measure", [("i", "Bint[n]"), ("k", "Bint[c]")])
        s.integrand = Body("integrand", [("i", "Bint[n]"), ("j", "Bint[m]")])
        s.reduced_vars = frozenset([VarTok("i", "Bint[n]"), VarTok("j", "Bint[m]"), VarTok("k", "Bint[c]")])
        return s

    def ensures(self, ctx, result):
        s = ctx.self_
        M = M_of(ctx.alpha, self.bound)
        return [("measure_integrand_and_binders_renamed_with_the_same_map", result == (("subst", s.log_measure, M), ("subst", s.integrand, M), frozenset([self.var(ctx, "i", "Bint[n]"), self.var(ctx, "j", "Bint[m]"), self.var(ctx, "k", "Bint[c]")])))]


# ---- gensym / _alpha_mangle ---------------------------------------------------------------------------------
class StrTerm:
    """a string built from concrete pieces and itos(symbolic int)"""

    def __init__(self, parts):
        out = []
        for x in parts:  # adjacent concrete pieces are merged (normal form)
            if out and isinstance(x, str) and isinstance(out[-1], str):
                out[-1] = out[-1] + x
            else:
                out.append(x)
        self.parts = tuple(out)

    def __radd__(self, o):
        return StrTerm((o,) + self.parts)

    def __add__(self, o):
        return StrTerm(self.parts + ((o,) if not isinstance(o, StrTerm) else o.parts))


def sstr(x):
    if isinstance(x, core.SV):
        return StrTerm((("itos", x),))
    return str(x)


sstr.__canon__ = str


@register
class Gensym(Contract):
    """gensym(x): the global counter strictly increases by one per call and the result for a string x is
    x + "_" + str(counter') -- so it ends in "_<digits of a counter value never issued before>" (results of different calls
    differ: lemma strings.suffix_injective), and for x = None it is "V" + str(counter')."""

    props = ("C05",)
    file = "funsor/interpreter.py"
    qualname = "gensym"
    total = True
    mutants = (("counter not advanced", "_GENSYM_COUNTER += 1", "_GENSYM_COUNTER += 0"), ("separator dropped", 'return x + "_" + str(sym)', "return x + str(sym)"))

    def structures(self, tier):
        yield "x=str", "str"
        yield "x=None", "none"

    def build(self, p, st):
        c = p.fresh_int("counter")
        p.assume(c >= 0)
        ns = {"_GENSYM_COUNTER": c, "str": sstr, "isinstance": core.sisinstance, "id": id}
        return Ctx(args=("name__BOUND",) if st == "str" else (), namespace=ns, c=c, st=st)

    def ensures(self, ctx, result):
        g = ctx.entry.scope.globals
        c2 = g["_GENSYM_COUNTER"]
        cl = [("counter_increases_by_one", core.deep_eq(c2, ctx.c + 1))]
        if not isinstance(result, StrTerm):
            return cl + [("result_shape", False)]
        if ctx.st == "str":
            ok = len(result.parts) == 2 and result.parts[0] == "name__BOUND" + "_" and result.parts[1][0] == "itos"
            cl.append(("result_is_name_underscore_new_counter", core.And(ok, core.deep_eq(result.parts[1][1], ctx.c + 1)) if ok else False))
        else:
            ok = len(result.parts) == 2 and result.parts[0] == "V" and result.parts[1][0] == "itos"
            cl.append(("result_is_V_new_counter", core.And(ok, core.deep_eq(result.parts[1][1], ctx.c + 1)) if ok else False))
        return cl


@register
class AlphaMangle(Contract):
    """_alpha_mangle(expr) (for open AND closed terms alike): renames exactly the bound names that do not yet carry the reserved marker "__BOUND", each to a
    fresh gensym(name + "__BOUND") (so every bound name of the result carries the marker and cannot equal a user name);
    returns expr itself when there is nothing to rename; otherwise rebuilds the term through reflect with the
    alpha-converted values."""

    props = ("C05",)
    file = "funsor/terms.py"
    qualname = "_alpha_mangle"
    total = True
    mutants = (("already mangled names renamed again", 'if "__BOUND" not in name', "if True"), ("marker omitted", 'interpreter.gensym(name + "__BOUND")', "interpreter.gensym(name)"))

    def structures(self, tier):
        for pat in (("i",), ("i__BOUND_3",), ("i", "j"), ("i", "j__BOUND_5"), ()):
            for closed in (False, True):
                yield "bound=%s,%s" % (",".join(pat) or "-", "closed-term" if closed else "open-term"), pat + (("__closed__",) if closed else ())

    def build(self, p, pat):
        closed = "__closed__" in pat
        pat = tuple(x for x in pat if x != "__closed__")
        issued = []

        class Interp:
            @staticmethod
            def gensym(x):
                issued.append(x)
                return x + "_%d" % (100 + len(issued))

        class Instr:
            @staticmethod
            def debug_logged(f):
                return f

        converted = []

        class Expr:
            bound = OrderedDict((n, "dom") for n in pat)
            inputs = OrderedDict() if closed else OrderedDict(z="dom")  # a closed term has no free inputs

            def _alpha_convert(self, alpha):
                converted.append(dict(alpha))
                return ("converted-values", tuple(sorted(alpha.items())))

        class Reflect:
            @staticmethod
            def interpret(cls, *vals):
                return ("reflected", cls, vals)

        e = Expr()
        ns = dict(interpreter=Interp, instrument=Instr, reflect=Reflect, type=type)
        return Ctx(args=(e,), namespace=ns, e=e, pat=pat, issued=issued, converted=converted, Expr=Expr)

    def ensures(self, ctx, result):
        need = [n for n in ctx.pat if "__BOUND" not in n]
        if not need:
            return [("unchanged_when_all_bound_names_are_mangled", result is ctx.e and ctx.issued == [] and ctx.converted == [])]
        ok_conv = len(ctx.converted) == 1 and set(ctx.converted[0]) == set(need)
        new = list(ctx.converted[0].values()) if ok_conv else []
        return [
            ("renames_exactly_the_unmangled_bound_names", ok_conv),
            ("new_names_are_fresh_gensyms_carrying_the_marker", ok_conv and sorted(ctx.issued) == sorted(n + "__BOUND" for n in need) and all("__BOUND" in v for v in new) and len(set(new)) == len(new)),
            ("rebuilt_through_reflect_with_converted_values", ok_conv and result == ("reflected", ctx.Expr, ("converted-values", tuple(sorted(ctx.converted[0].items()))))),
        ]


@register
class ScatterAlphaConvert(_Alpha):
    """Scatter._alpha_convert: the reduced (bound) variables are renamed in the source, in every substituted value of the
    scatter pairs and in the reduced_vars field with the same map (domains from self.bound); the op and the pair KEYS (the
    fresh output names) are untouched."""

    file = "funsor/terms.py"
    qualname = "Scatter._alpha_convert"
    mutants = (("renamed binder gets the domain of another binder", "alpha_subs = {k: to_funsor(v, self.bound[k]) for k, v in alpha_subs.items()}\n        op, subs, source, reduced_vars", "alpha_subs = {k: to_funsor(v, self.bound[sorted(self.bound)[-1]]) for k, v in alpha_subs.items()}\n        op, subs, source, reduced_vars"),)

    def make_self(self):
        s = Obj()
        s.bound = dict(self.bound)
        s.source = Body("source", [("i", "Bint[n]"), ("j", "Bint[m]"), ("x", "Real")])
        s.value = Body("index_value", [("i", "Bint[n]")])
        s.subs = (("t", s.value),)
        s.reduced_vars = frozenset([VarTok("i", "Bint[n]"), VarTok("j", "Bint[m]")])
        s._ast_values = ("op", s.subs, s.source, s.reduced_vars)
        return s

    def ensures(self, ctx, result):
        s = ctx.self_
        M = M_of(ctx.alpha, s.bound)
        exp = ("op", (("t", ("subst", s.value, M)),), ("subst", s.source, M), frozenset([self.var(ctx, "i", "Bint[n]"), self.var(ctx, "j", "Bint[m]")]))
        return [("source_values_and_binders_renamed_with_the_same_map", result == exp)]


@register
class ApproximateAlphaConvert(_Alpha):
    """Approximate._alpha_convert: model, guide and the approx_vars field renamed with the same map (domains from
    self.bound); the op untouched.  (That Approximate declares these variables bound although they stay inputs is the
    recorded known finding approximate-binder; this contract only states that the renaming itself is consistent.)"""

    file = "funsor/terms.py"
    qualname = "Approximate._alpha_convert"
    mutants = (("guide renamed with the identity", "        approx_vars = frozenset(alpha_subs.get(var.name, var) for var in approx_vars)\n", "        guide = self.guide\n        approx_vars = frozenset(alpha_subs.get(var.name, var) for var in approx_vars)\n"),)

    def make_self(self):
        s = Obj()
        s.bound = dict(self.bound)
        s.model = Body("model", [("i", "Bint[n]"), ("j", "Bint[m]")])
        s.guide = Body("guide", [("i", "Bint[n]"), ("x", "Real")])
        s.approx_vars = frozenset([VarTok("i", "Bint[n]"), VarTok("j", "Bint[m]")])
        s._ast_values = ("op", s.model, s.guide, s.approx_vars)
        return s

    def ensures(self, ctx, result):
        s = ctx.self_
        M = M_of(ctx.alpha, s.bound)
        exp = ("op", ("subst", s.model, M), ("subst", s.guide, M), frozenset([self.var(ctx, "i", "Bint[n]"), self.var(ctx, "j", "Bint[m]")]))
        return [("model_guide_and_binders_renamed_with_the_same_map", result == exp)]


@register
class MarkovProductAlphaConvert(_Alpha):
    """MarkovProduct._alpha_convert: the bound names are time and the step names (prev and curr of each pair, as they
    occur in trans); they are renamed in trans (domains from trans.inputs), in the time variable, in both components of the
    step pairs and in the KEYS of step_names -- the VALUES of step_names (the fresh output names the user sees) stay."""

    file = "funsor/sum_product.py"
    qualname = "MarkovProduct._alpha_convert"
    bound = {"t": "Bint[T]", "p": "Bint[s]", "c": "Bint[s]"}
    mutants = (("output names renamed too", "            (alpha_subs.get(k, k), v) for k, v in self.step_names.items()", "            (alpha_subs.get(k, k), alpha_subs.get(v, v)) for k, v in self.step_names.items()"), ("curr of a pair not renamed", "            (alpha_subs.get(k, k), alpha_subs.get(v, v)) for k, v in self.step.items()", "            (alpha_subs.get(k, k), v) for k, v in self.step.items()"))

    def make_self(self):
        s = Obj()
        s.bound = dict(self.bound)
        s.sum_op, s.prod_op = "sum_op", "prod_op"
        s.trans = Body("trans", [("t", "Bint[T]"), ("p", "Bint[s]"), ("c", "Bint[s]"), ("x", "Real")])
        s.time = VarTok("t", "Bint[T]")
        s.step = {"p": "c"}
        s.step_names = {"p": "p", "c": "c"}
        return s

    def build(self, p, alpha):
        s = self.make_self()
        return Ctx(args=(s, dict(alpha)), namespace=dict(NS, frozenset=frozenset), self_=s, alpha=alpha)

    def ensures(self, ctx, result):
        s = ctx.self_
        M = M_of(ctx.alpha, s.trans.inputs)
        r = lambda n: self.rn(ctx, n)  # noqa: E731
        exp = ("sum_op", "prod_op", ("subst", s.trans, M), self.var(ctx, "t", "Bint[T]"), frozenset([(r("p"), r("c"))]), frozenset([(r("p"), "p"), (r("c"), "c")]))
        return [("trans_time_and_step_pairs_renamed_output_names_kept", result == exp)]
