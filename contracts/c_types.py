"""C06: the typing rule in each term constructor (`__init__`): a lazily built term declares the inputs and output the
textbook rule predicts from its sub-terms -- free inputs of the parts minus binders, in first-occurrence order; output from
find_domain (used through its contract: an opaque function of the op and operand domains).  Sub-terms are opaque with
enumerated input-name structure."""
import itertools
from collections import OrderedDict

from pyvc import core
from pyvc.contract import Contract, Ctx, register

from .c_terms import make_super


class F:
    def __init__(self, label, inputs, output=None):
        self.label = label
        self.inputs = OrderedDict((k, "dom_" + k) for k in inputs)
        self.output = output or ("out_" + label)
        self.dtype = "dtype_" + label

    def __repr__(self):
        return self.label


class V(F):
    def __init__(self, name):
        F.__init__(self, "Var:" + name, [name], "dom_" + name)
        self.name = name
        self.dtype = 4


class FunsorCls:
    @staticmethod
    def __sym_instancecheck__(x):
        return isinstance(x, F)


class VariableCls:
    @staticmethod
    def __sym_instancecheck__(x):
        return isinstance(x, V)


class AOp:
    def __call__(self, *a):
        return None


class AssocCls:
    @staticmethod
    def __sym_instancecheck__(x):
        return isinstance(x, AOp)


class NullOp(AOp):
    pass


class NullCls:
    @staticmethod
    def __sym_instancecheck__(x):
        return isinstance(x, NullOp)


def fd(op, *doms):
    return ("find_domain", op, doms)


INPUT_SETS = [(), ("a",), ("b",), ("a", "b"), ("b", "a"), ("b", "c")]


def union(*seqs):
    out = []
    for s in seqs:
        for k in s:
            if k not in out:
                out.append(k)
    return out


class _Init(Contract):
    props = ("C06",)
    total = True

    def hooks(self, ctx):
        return {"super": lambda sc, *a: make_super(ctx.rec)}

    def common_ns(self):
        return dict(OrderedDict=OrderedDict, Funsor=FunsorCls, Variable=VariableCls, AssociativeOp=AssocCls, NullOp=NullCls, find_domain=fd, isinstance=core.sisinstance, callable=callable, frozenset=frozenset, reduce=__import__("functools").reduce, reversed=reversed)

    def got(self, ctx):
        a = ctx.rec[0][1]
        a = tuple(a) + (frozenset(), {})[len(a) - 2:] if len(a) < 4 else a
        return a


class Self:
    pass


@register
class BinaryInit(_Init):
    """Binary.__init__(op, lhs, rhs): inputs == lhs's inputs followed by rhs's new inputs; output == find_domain(op, lhs.output,
    rhs.output)."""

    file = "funsor/terms.py"
    qualname = "Binary.__init__"
    mutants = (("rhs inputs first", "        inputs = lhs.inputs.copy()\n        inputs.update(rhs.inputs)", "        inputs = rhs.inputs.copy()\n        inputs.update(lhs.inputs)"),)

    def structures(self, tier):
        for l in INPUT_SETS:
            for r in INPUT_SETS:
                yield "lhs=%s,rhs=%s" % ("".join(l) or "-", "".join(r) or "-"), (l, r)

    def build(self, p, st):
        l, r = st
        op = AOp()
        lhs, rhs = F("lhs", l), F("rhs", r)
        rec = []
        ns = self.common_ns()
        ns["Binary"] = "BinaryCls"
        return Ctx(args=(Self(), op, lhs, rhs), namespace=ns, rec=rec, st=st, op=op, lhs=lhs, rhs=rhs)

    def ensures(self, ctx, result):
        l, r = ctx.st
        inputs, output = ctx.rec[0][1][:2]
        return [("inputs_lhs_then_new_rhs", list(inputs) == union(l, r)), ("output_from_find_domain", output == ("find_domain", ctx.op, (ctx.lhs.output, ctx.rhs.output)))]


@register
class ReduceInit(_Init):
    """Reduce.__init__(op, arg, reduced_vars): inputs == arg's inputs without the reduced names (order kept, also when a
    reduced variable is not an input of arg); output == arg.output; bound == {name: domain} of the reduced variables."""

    file = "funsor/terms.py"
    qualname = "Reduce.__init__"
    mutants = (("reduced names kept", "(k, v) for k, v in arg.inputs.items() if k not in reduced_names", "(k, v) for k, v in arg.inputs.items()"),)

    def structures(self, tier):
        for a in INPUT_SETS:
            for red in [("a",), ("b",), ("a", "b"), ("z",), ("a", "z")]:
                yield "arg=%s,reduced=%s" % ("".join(a) or "-", "".join(red)), (a, red)

    def build(self, p, st):
        a, red = st
        arg = F("arg", a)
        rec = []
        ns = self.common_ns()
        ns["Reduce"] = "ReduceCls"
        return Ctx(args=(Self(), AOp(), arg, frozenset(V(n) for n in red)), namespace=ns, rec=rec, st=st, arg=arg)

    def ensures(self, ctx, result):
        a, red = ctx.st
        inputs, output, fresh, bound = ctx.rec[0][1]
        return [("inputs_without_reduced_names", list(inputs) == [k for k in a if k not in red]), ("output_of_arg_and_bound", output == ctx.arg.output and bound == {n: "dom_" + n for n in red} and fresh == frozenset())]


@register
class LambdaInit(_Init):
    """Lambda.__init__(var, expr): inputs == expr's inputs without var (order kept); output == Array[expr.dtype,
    (size of var,) + expr.output.shape] -- the bound variable becomes the LEADING event dimension; bound == {var}."""

    file = "funsor/terms.py"
    qualname = "Lambda.__init__"
    mutants = (("new dimension appended last", "shape = (var.dtype,) + expr.output.shape", "shape = expr.output.shape + (var.dtype,)"),)

    def structures(self, tier):
        for a in INPUT_SETS:
            for v in ("a", "z"):
                yield "expr=%s,var=%s" % ("".join(a) or "-", v), (a, v)

    def build(self, p, st):
        a, v = st
        expr = F("expr", a)

        class O:
            shape = ("e0", "e1")

        expr.output = O()
        rec = []

        class ArrayF:
            def __sym_getitem__(self, idx):
                return ("Array", idx)

        ns = self.common_ns()
        ns.update(Lambda="LambdaCls", Array=ArrayF(), int=int)
        return Ctx(args=(Self(), V(v), expr), namespace=ns, rec=rec, st=st, expr=expr)

    def ensures(self, ctx, result):
        a, v = ctx.st
        inputs, output, fresh, bound = ctx.rec[0][1]
        return [("inputs_without_the_bound_variable", list(inputs) == [k for k in a if k != v]), ("bound_variable_is_leading_event_dim", output == ("Array", ("dtype_expr", (4, "e0", "e1"))) and bound == {v: "dom_" + v})]


@register
class ContractionInit(_Init):
    """Contraction.__init__(red_op, bin_op, reduced_vars, terms): inputs == the terms' inputs in first-occurrence order without
    the reduced names; bound == reduced variables; output == the terms' outputs folded through find_domain(bin_op, ., .) (a
    single term's output when bin_op is null)."""

    file = "funsor/cnf.py"
    qualname = "Contraction.__init__"
    mutants = (("reduced names leak into inputs", "inputs.update((k, d) for k, d in v.inputs.items() if k not in bound)", "inputs.update((k, d) for k, d in v.inputs.items())"),)

    def structures(self, tier):
        for ts in itertools.chain(itertools.product(INPUT_SETS, repeat=2), [((("a", "b"),)), (("b", "a"), ("c",), ("a",))]):
            for red in [(), ("a",), ("a", "b")]:
                yield "terms=%s,reduced=%s" % (["".join(t) or "-" for t in ts], "".join(red) or "-"), (tuple(ts), red)

    def build(self, p, st):
        ts, red = st
        terms = tuple(F("t%d" % i, inp) for i, inp in enumerate(ts))
        red_op = AOp() if red else NullOp()
        bin_op = AOp() if len(ts) > 1 else NullOp()
        if isinstance(red_op, NullOp) and isinstance(bin_op, NullOp):
            bin_op = AOp()
        rec = []

        class OpsNS:
            null = bin_op if isinstance(bin_op, NullOp) else NullOp()

        class Dist:
            def __sym_contains__(self, x):
                return True

        ns = self.common_ns()
        ns.update(Contraction="ContractionCls", ops=OpsNS, DISTRIBUTIVE_OPS=Dist(), len=len, tuple=tuple)
        return Ctx(args=(Self(), red_op, bin_op, frozenset(V(n) for n in red), terms), namespace=ns, rec=rec, st=st, terms=terms, bin_op=bin_op)

    def may_raise(self, ctx, etype):
        ts, red = ctx.st
        return len(ts) == 1 and not red  # a single term without reduction is not a Contraction (asserted)

    def allow_vacuous(self, st):
        return len(st[0]) == 1 and not st[1]

    def ensures(self, ctx, result):
        ts, red = ctx.st
        inputs, output, fresh, bound = ctx.rec[0][1]
        exp_in = [k for k in union(*ts) if k not in red]
        if isinstance(ctx.bin_op, NullOp):
            exp_out = ctx.terms[0].output
        else:
            outs = [t.output for t in reversed(ctx.terms)]
            exp_out = outs[0]
            for o in outs[1:]:
                exp_out = ("find_domain", ctx.bin_op, (exp_out, o))
        return [("inputs_first_occurrence_minus_reduced", list(inputs) == exp_in), ("bound_and_output", bound == {n: "dom_" + n for n in red} and output == exp_out)]


@register
class StackInit(_Init):
    """Stack.__init__(name, parts): inputs == name (Bint[number of parts]) followed by the parts' inputs in first-occurrence
    order; output == the parts' common output; the stacking name must not be an input of any part."""

    file = "funsor/terms.py"
    qualname = "Stack.__init__"

    def structures(self, tier):
        for ts in itertools.product(INPUT_SETS, repeat=2):
            for name in ("s", "a"):
                yield "parts=%s,name=%s" % (["".join(t) or "-" for t in ts], name), (ts, name)

    def build(self, p, st):
        ts, name = st
        parts = tuple(F("p%d" % i, inp, "common-output") for i, inp in enumerate(ts))
        rec = []

        class BintF:
            def __sym_getitem__(self, n):
                return ("Bint", n)

        ns = self.common_ns()
        ns.update(Stack="StackCls", Bint=BintF(), set=set, len=len, str=str, tuple=tuple, any=core.sany)
        return Ctx(args=(Self(), name, parts), namespace=ns, rec=rec, st=st)

    def may_raise(self, ctx, etype):
        ts, name = ctx.st
        return any(name in t for t in ts)

    def allow_vacuous(self, st):
        return any(st[1] in t for t in st[0])

    def ensures(self, ctx, result):
        ts, name = ctx.st
        inputs, output, fresh = ctx.rec[0][1][:3]
        return [("name_not_an_input_of_parts", not any(name in t for t in ts)), ("inputs_name_then_parts", list(inputs) == [name] + union(*ts) and inputs[name] == ("Bint", len(ts))), ("output_and_fresh", output == "common-output" and fresh == frozenset({name}))]


class DomI:
    """a domain with a dtype and a shape (for Independent's typing rule)"""

    def __init__(self, dtype, shape):
        self.dtype, self.shape = dtype, tuple(shape)

    def __repr__(self):
        return "Dom(%r,%r)" % (self.dtype, self.shape)


@register
class IndependentInit(_Init):
    """Independent.__init__(fn, reals_var, bint_var, diag_var): inputs == fn's inputs without bint_var and diag_var (order
    kept) followed by reals_var typed Array[dtype of diag_var, (size of bint_var,) + shape of diag_var] -- the batch input
    becomes the LEADING dimension of the new real input; output == fn's output; fresh == {reals_var}; bound == {bint_var,
    diag_var} with fn's domains; raises if bint_var / diag_var are not inputs of fn, bint_var is not integer-valued, or
    reals_var is already another input."""

    file = "funsor/terms.py"
    qualname = "Independent.__init__"
    mutants = (("batch size appended last", "shape = (inputs.pop(bint_var).dtype,) + diag_input.shape", "shape = diag_input.shape + (inputs.pop(bint_var).dtype,)"),)

    def structures(self, tier):
        for names in [("i", "xi"), ("xi", "i"), ("a", "i", "xi"), ("i", "a", "xi", "b"), ("xi", "b", "i")]:
            for rv in ("x", "a", "xi"):
                yield "fn=%s,reals_var=%s" % (",".join(names), rv), (names, rv)
        yield "fn=a,xi (bint_var missing)", (("a", "xi"), "x")
        yield "fn=i (diag_var missing)", (("i",), "x")

    def build(self, p, st):
        names, rv = st
        fn = F("fn", names)
        doms = {"i": DomI(5, ()), "xi": DomI("real", (2, 3)), "a": DomI(4, ()), "b": DomI("real", ())}
        fn.inputs = OrderedDict((k, doms[k]) for k in names)

        class ArrayF:
            def __sym_getitem__(self, idx):
                return ("Array", idx)

        ns = self.common_ns()
        ns.update(Independent="IndependentCls", Array=ArrayF(), int=int, str=str)
        return Ctx(args=(Self(), fn, rv, "i", "xi"), namespace=ns, rec=[], st=st, fn=fn, doms=doms)

    def bad(self, st):
        names, rv = st
        return "i" not in names or "xi" not in names or (rv in names and rv not in ("i", "xi"))

    def may_raise(self, ctx, etype):
        return self.bad(ctx.st)

    def allow_vacuous(self, st):
        return self.bad(st)

    def ensures(self, ctx, result):
        names, rv = ctx.st
        inputs, output, fresh, bound = ctx.rec[0][1]
        exp = [k for k in names if k not in ("i", "xi")] + [rv]
        return [("well_typed_when_returns", not self.bad(ctx.st)), ("inputs_without_the_binders_then_the_new_real_input", list(inputs) == exp and inputs[rv] == ("Array", ("real", (5, 2, 3)))),
                ("output_fresh_bound", output == ctx.fn.output and fresh == frozenset([rv]) and bound == {"i": ctx.doms["i"], "xi": ctx.doms["xi"]})]
