"""C02 / C08: the normal-form and unfolding rewrite rules of funsor/cnf.py and funsor/optimizer.py, pinned branch by branch to
the semiring law that justifies them (lemmas/semiring.py; table entries C15).  Terms are opaque; Contraction(r, b, V, ts)
denotes r-reduction over V of the b-product of ts (`null` = no reduction / single term).  For every enumerated structure the
real rule body is executed and its result compared with the RIGHT-HAND SIDE OF THE LAW stated in the contract docstring;
`None` (rule declines) is required exactly where no law applies."""
import itertools
from collections import OrderedDict

from pyvc import core
from pyvc.contract import Contract, Ctx, register
from pyvc.core import Declined, Unsupported


class Op:
    def __init__(self, name):
        self.name = name

    def __repr__(self):
        return self.name


NULL, ADD, MUL, MAX, LSE = Op("null"), Op("add"), Op("mul"), Op("max"), Op("logaddexp")
DIST = {(ADD, MUL), (MAX, MUL), (MAX, ADD), (LSE, ADD)}
UNITS = {ADD: 0.0, MUL: 1.0}


class OpsNS:
    null = NULL
    UNITS = UNITS


class T:
    """opaque leaf term"""

    def __init__(self, label):
        self.label = label
        self.input_vars = frozenset()  # the opaque leaves mention none of the reduced variables
        self.inputs = OrderedDict()
        self.bound = {}

    def reduce(self, op, vs):
        return ("reduce", self, op, frozenset(vs))

    def __repr__(self):
        return self.label


class Num(T):
    def __init__(self, data):
        T.__init__(self, "Number(%r)" % (data,))
        self.data = data


class Con(T):
    """model of Contraction (constructor contract: fields as given)"""

    def __init__(self, red_op, bin_op, reduced_vars, *terms):
        T.__init__(self, "Contraction")
        if len(terms) == 1 and isinstance(terms[0], tuple):
            terms = terms[0]
        self.input_vars = frozenset()
        self.red_op, self.bin_op, self.reduced_vars, self.terms = red_op, bin_op, frozenset(reduced_vars), tuple(terms)
        # bound names of the enumerated cases are pairwise distinct (the binder-clash cases are contract UnfoldSharedBinders)
        self.bound = {str(v): None for v in self.reduced_vars}

    def key(self):
        return ("Con", self.red_op, self.bin_op, self.reduced_vars, tuple(k(t) for t in self.terms))

    def _alpha_convert(self, alpha_subs):
        # the opaque leaves mention no bound variable: renaming changes the names of the reduced variables only
        return self.red_op, self.bin_op, frozenset(alpha_subs.get(v, v) for v in self.reduced_vars), self.terms

    def reduce(self, op, vs):
        return ("reduce", self.key(), op, frozenset(vs))


def k(t):
    if isinstance(t, Con):
        return t.key()
    return t


class NumberCls:
    @staticmethod
    def __sym_instancecheck__(x):
        return isinstance(x, Num)


class ConCls:
    @staticmethod
    def __sym_instancecheck__(x):
        return isinstance(x, Con)

    def __call__(self, *a):
        return Con(*a)


CON = ConCls()
class _Interp:
    """gensym model for the opaque cases: the 'fresh' name is the old one (freshness itself is contract UnfoldSharedBinders)"""

    @staticmethod
    def gensym(prefix):
        return prefix.replace("__BOUND", "")


class _Reflect:
    @staticmethod
    def interpret(cls, *args):
        return cls(*args)


NS = dict(interpreter=_Interp, reflect=_Reflect, len=len, ops=OpsNS, Contraction=CON, Number=NumberCls, isinstance=core.sisinstance, enumerate=enumerate, tuple=tuple, frozenset=frozenset, any=core.sany, DISTRIBUTIVE_OPS=DIST)

V1, V2 = frozenset(["i"]), frozenset(["j"])


def leaf_pool():
    a, b = T("a"), T("b")
    return a, b


def inner_contractions(a, b):
    c, d = T("c"), T("d")
    out = []
    for r, bop, V in [(NULL, ADD, frozenset()), (NULL, MUL, frozenset()), (ADD, NULL, V2), (ADD, MUL, V2), (MAX, ADD, V2), (LSE, ADD, V2), (NULL, NULL, frozenset())]:
        ts = (c,) if bop is NULL else (c, d)
        out.append(Con(r, bop, V, *ts))
    return out


def cases():
    """(red_op, bin_op, reduced_vars, terms) covering every branch and the non-applicable neighbours"""
    a, b = leaf_pool()
    out = []
    for r, bo in itertools.product([NULL, ADD, MUL, MAX, LSE], [NULL, ADD, MUL]):
        for V in (frozenset(), V1):
            if r is NULL and V:
                continue
            term_sets = [(a,), (a, b), (a, Num(0.0)), (Num(1.0), a, Num(1.0)), (Num(0.0), Num(0.0)), (a, Num(2.0))]
            for inner in inner_contractions(a, b):
                term_sets.append((a, inner))
                term_sets.append((inner,))
            for ts in term_sets:
                if bo is NULL and len(ts) != 1:
                    continue
                out.append((r, bo, V, ts))
    return out


def label(case):
    r, bo, V, ts = case
    return "red=%s,bin=%s,vars=%s,terms=%s" % (r, bo, sorted(V), [t.label if not isinstance(t, Con) else "Con(%s,%s,%s,%d)" % (t.red_op, t.bin_op, sorted(t.reduced_vars), len(t.terms)) for t in ts])


def spec_normalize(r, bo, V, ts):
    """expected result, each case justified by a law:
    (A) no variables to reduce: the reduction is the identity            -> Contraction(null, b, {}, ts)
    (B) a single term: the product of one term is the term              -> Contraction(r, null, V, ts)
    (C) both null: the term itself
    (D) r is b: L4  sum_V (t1 (+) t2) = sum_V t1 (+) sum_V t2            -> Contraction(r, b, {}, t.reduce(r, V)...)
    (E) unit removal (C15 unit entries): u (x) t = t, keeping one term if all are units
    (F) fusion without distributing: flattening a nested product (associativity) or a nested reduction with the same op
    otherwise None (reflect)."""
    if not V and r is not NULL:
        return Con(NULL, bo, V, *ts).key()
    if len(ts) == 1 and bo is not NULL:
        return Con(r, NULL, V, *ts).key()
    if r is NULL and bo is NULL:
        return k(ts[0])
    if r is bo:
        return Con(r, bo, frozenset(), *[t.reduce(r, V) for t in ts]).key()
    if bo in UNITS and any(isinstance(t, Num) and t.data == UNITS[bo] for t in ts):
        new = tuple(t for t in ts if not (isinstance(t, Num) and t.data == UNITS[bo])) or (ts[0],)
        return Con(r, bo, V, *new).key()
    for i, v in enumerate(ts):
        if not isinstance(v, Con):
            continue
        same_product = v.red_op is NULL and bo is v.bin_op
        same_reduction = bo is NULL and v.red_op in (r, NULL)
        if same_product or same_reduction:
            return Con(v.red_op if r is NULL else r, v.bin_op if bo is NULL else bo, V | v.reduced_vars, *(ts[:i] + v.terms + ts[i + 1:])).key()
    return None


@register
class NormalizeContractionGenericTuple(Contract):
    """cnf.normalize_contraction_generic_tuple(red_op, bin_op, reduced_vars, terms): each branch returns the right-hand side
    of the law named in spec_normalize (A: empty reduction, B: single-term product, C: trivial, D: L4, E: unit removal,
    F: flattening / same-op reduction fusion) and declines (None) otherwise -- in particular it never fuses a nested
    reduction with a DIFFERENT reduction op, never removes a Number that is not the product's unit, and keeps operand
    order. structure bound: the enumerated op patterns x term shapes (<= 3 terms, one nested Contraction)."""

    props = ("C02", "C08", "C03")
    file = "funsor/cnf.py"
    qualname = "normalize_contraction_generic_tuple"
    total = True
    mutants = (
        ("any Number treated as a unit", "isinstance(t, Number) and t.data == ops.UNITS[bin_op] for t in terms\n    ):", "isinstance(t, Number) for t in terms\n    ):"),
        ("fuses reductions of different ops", "bin_op is ops.null and v.red_op in (red_op, ops.null)", "bin_op is ops.null"),
        ("inner reduced vars dropped on fusion", "red_op, bin_op, reduced_vars | v.reduced_vars, *new_terms", "red_op, bin_op, reduced_vars, *new_terms"),
        ("operand order changed on flattening", "new_terms = terms[:i] + v.terms + terms[i + 1 :]", "new_terms = v.terms + terms[:i] + terms[i + 1 :]"),
    )

    def structures(self, tier):
        # only the index travels to the worker process: op identity (`is ops.null`) must not go through pickling
        for i, c in enumerate(cases()):
            yield label(c), i

    def build(self, p, i):
        c = cases()[i]
        r, bo, V, ts = c
        return Ctx(args=(r, bo, V, ts), namespace=NS, c=c)

    def ensures(self, ctx, result):
        exp = spec_normalize(*ctx.c)
        got = None if result is None else k(result)
        return [("branch_returns_the_law_rhs_or_declines", got == exp)]


def spec_unfold(r, bo, V, ts):
    """(1) distribute a product over a nested sum (DISTRIBUTIVE_OPS entry (v.bin, bin)):
           a (x) (b (+) c) = (a (x) b) (+) (a (x) c), outer reduction kept;
       (2) pull a nested reduction out of a product it distributes over (entry (v.red, bin), L2), valid because bound names
           are fresh: t (x) sum_W u = sum_W (t (x) u); then reduce by the outer op;
       (3) fuse same-op nesting; else None."""
    for i, v in enumerate(ts):
        if not isinstance(v, Con):
            continue
        if v.red_op is NULL and (v.bin_op, bo) in DIST:
            new = tuple(Con(v.red_op, bo, v.reduced_vars, *(ts[:i] + (vt,) + ts[i + 1:])) for vt in v.terms)
            return Con(r, v.bin_op, V, *new).key()
        if r in (v.red_op, NULL) and (v.red_op, bo) in DIST:
            new = ts[:i] + (Con(v.red_op, v.bin_op, frozenset(), *v.terms),) + ts[i + 1:]
            return Con(v.red_op, bo, v.reduced_vars, *new).reduce(r, V)
        if v.red_op in (r, NULL) and bo in (v.bin_op, NULL):
            return Con(v.red_op if r is NULL else r, v.bin_op if bo is NULL else bo, V | v.reduced_vars, *(ts[:i] + v.terms + ts[i + 1:])).key()
    return None


@register
class UnfoldContractionGenericTuple(Contract):
    """optimizer.unfold_contraction_generic_tuple: distributes only over pairs DECLARED distributive (C15), pulls a nested
    reduction out only when its op distributes with the product (L2) and the outer reduction is the same op or absent, fuses
    only same-op nesting; declines otherwise. structure bound as above."""

    props = ("C08", "C02")
    file = "funsor/optimizer.py"
    qualname = "unfold_contraction_generic_tuple"
    total = True
    mutants = (
        ("distributes without consulting the table", "if v.red_op is ops.null and (v.bin_op, bin_op) in DISTRIBUTIVE_OPS:", "if v.red_op is ops.null and v.bin_op is not bin_op and v.bin_op is not ops.null:"),
        ("pulls a reduction through a different outer reduction", "if red_op in (v.red_op, ops.null) and (v.red_op, bin_op) in DISTRIBUTIVE_OPS:", "if (v.red_op, bin_op) in DISTRIBUTIVE_OPS:"),
        ("distributed copies lose the other factors", "*(terms[:i] + (vt,) + terms[i + 1 :]),", "*((vt,) + terms[i + 1 :]),"),
    )

    def structures(self, tier):
        # only the index travels to the worker process: op identity (`is ops.null`) must not go through pickling
        for i, c in enumerate(cases()):
            yield label(c), i

    def build(self, p, i):
        c = cases()[i]
        r, bo, V, ts = c
        return Ctx(args=(r, bo, V, ts), namespace=NS, c=c)

    def ensures(self, ctx, result):
        exp = spec_unfold(*ctx.c)
        got = None if result is None else k(result)
        return [("branch_returns_the_law_rhs_or_declines", got == exp)]


@register
class SmallNormalizeRules(Contract):
    """binary_to_contract, reduce_funsor, normalize_trivial, binary_subtract, binary_divide, unary_log_exp: each returns the
    definitional right-hand side: a (op) b = Contraction(null, op, {}, a, b); reduce_V a = Contraction(op, null, V, a);
    Contraction(null, null, {}, t) = t; a - b = a + (-b); a / b = a * reciprocal(b); f(f^-1(x)) = x."""

    props = ("C02", "C08", "C03")
    file = "funsor/cnf.py"
    qualname = "binary_to_contract"
    total = True

    RULES = ["binary_to_contract", "reduce_funsor", "normalize_trivial", "binary_subtract", "binary_divide", "unary_log_exp"]

    def structures(self, tier):
        for r in self.RULES:
            yield r, r

    def locate(self, mutant=None):
        import hashlib

        locs = {r: core.locate("funsor/cnf.py", r) for r in self.RULES}

        class L:
            sha = hashlib.sha256("".join(l.source for l in locs.values()).encode()).hexdigest()[:16]
            lineno = locs["binary_to_contract"].lineno

        L.locs = locs
        return L

    def build(self, p, rule):
        return Ctx(namespace=None, rule=rule)

    def entry(self, loc, ctx):
        class A(T):
            def __add__(self, o):
                return ("add", self, o)

            def __mul__(self, o):
                return ("mul", self, o)

            def __neg__(self):
                return ("neg", self)

        a, b = A("a"), A("b")
        inner = T("inner")
        wrapped = T("f(inner)")
        wrapped.arg = inner
        ctx.a, ctx.b, ctx.inner = a, b, inner
        ns = dict(NS, Unary=lambda op, x: ("Unary", op, x))
        ns["ops"] = type("O", (), {"null": NULL, "reciprocal": "reciprocal"})
        args = {
            "binary_to_contract": (ADD, a, b),
            "reduce_funsor": (ADD, a, V1),
            "normalize_trivial": (NULL, NULL, frozenset(), a),
            "binary_subtract": ("sub", a, b),
            "binary_divide": ("truediv", a, b),
            "unary_log_exp": ("exp", wrapped),
        }[ctx.rule]
        f, interp = core.make_callable(loc.locs[ctx.rule], ns)
        return (lambda: f(*args)), interp

    def ensures(self, ctx, result):
        a, b = ctx.a, ctx.b
        exp = {
            "binary_to_contract": Con(NULL, ADD, frozenset(), a, b).key(),
            "reduce_funsor": Con(ADD, NULL, V1, a).key(),
            "normalize_trivial": a,
            "binary_subtract": ("add", a, ("neg", b)),
            "binary_divide": ("mul", a, ("Unary", "reciprocal", b)),
            "unary_log_exp": ctx.inner,
        }[ctx.rule]
        return [("definitional_rhs", k(result) == exp)]


# ==================================================================================================
# eager n-ary contraction: a variable is summed out only where every operand mentioning it has been combined
# ==================================================================================================
class VTok:
    def __init__(self, n):
        self.name = n

    def __repr__(self):
        return self.name


VTOKS = {n: VTok(n) for n in "uvw"}


class Opnd(T):
    """operand with a known set of variables; reduce / Contraction nondeterministically make progress (eager value) or
    stay lazy (the object normalize would build), as in the real dispatch"""

    def __init__(self, label, vs, origin=None):
        T.__init__(self, label)
        self.input_vars = frozenset(VTOKS[v] for v in vs)
        self.origin = origin or frozenset([label])  # which original operands were combined into this one
        self.summed = frozenset()


@register
class EagerContractionRecursive(Contract):
    """cnf.eager_contraction_generic_recursive(red_op, bin_op, reduced_vars, terms): whenever it rewrites to a new Contraction,
    (a) every variable REMOVED from reduced_vars was summed inside a replacement operand that combines EVERY original operand
        mentioning that variable (law L2's side condition: the other operands do not depend on it) -- so no bound variable
        leaks into the remaining operands' inputs and the value is preserved;
    (b) the untouched operands keep their order, the combined pair is replaced in the position of its first member;
    (c) variables still in reduced_vars were not summed anywhere.
    Otherwise it returns None; in particular for a (reduce, binary) pair that is not declared distributive it ALWAYS returns None
    (pushing sum_i into x + T[i] would lose the multiplicity of x).  reduce / pairwise Contraction nondeterministically
    evaluate or stay lazy.
    structure bound: <= 3 operands, <= 2 reduced variables, every incidence pattern."""

    props = ("C02", "C08", "C01")
    file = "funsor/cnf.py"
    qualname = "eager_contraction_generic_recursive"
    total = True
    max_paths = 3000
    mutants = (("reductions pushed down for any pair of ops (the pinned-tree defect)", "and (red_op, bin_op) not in DISTRIBUTIVE_OPS", "and False"), ("pairs may sum a variable shared with a third operand", "if count == 2)", "if count >= 2)"), ("leaf push-down for variables in two operands", "if count == 1)", "if count <= 2)"))

    def structures(self, tier):
        subsets = ["", "u", "v", "uv"]
        for n in (2, 3):
            for inc in itertools.product(subsets, repeat=n):
                yield "operands=%s" % ([i or "-" for i in inc],), inc
        for pair in ("add/add", "mul/add"):  # pairs that are NOT declared distributive: reductions must not be pushed down
            for inc in (("u", ""), ("u", "u"), ("", "u", "uv")):
                yield "non-distributive %s,operands=%s" % (pair, [i or "-" for i in inc]), inc + (pair,)

    def build(self, p, inc):
        pair = None
        if inc and "/" in inc[-1]:
            pair, inc = inc[-1], inc[:-1]
        terms = tuple(Opnd("t%d" % i, vs) for i, vs in enumerate(inc))
        rv = frozenset(VTOKS[v] for v in "uv")
        stays_lazy = {}
        ctx = Ctx(namespace=None, terms=terms, rv=rv, p=p, inc=inc)

        class LazyMarker:
            def __init__(self, key):
                self.key = key

        class ConRec(Opnd):
            """the object a Contraction / reduce call returns: whether it is an evaluated value or just the lazy term
            normalize would build is decided (nondeterministically, once per key) when the code compares identities"""

            def __init__(self, red, bo, vs, ts):
                vs = frozenset(vs)
                T.__init__(self, "con")
                self.red, self.bo, self.vs, self.parts = red, bo, vs, tuple(ts)
                self.origin = frozenset().union(*[t.origin for t in ts])
                self.input_vars = frozenset().union(*[t.input_vars for t in ts]) - vs
                self.summed = frozenset().union(*[t.summed for t in ts]) | vs
                self.key = (red, bo, vs, tuple(id(t) for t in ts))

            def __sym_is__(self, other):
                if isinstance(other, LazyMarker) and other.key == self.key:
                    if self.key not in stays_lazy:
                        stays_lazy[self.key] = p.fresh_bool("stays_lazy")
                    return stays_lazy[self.key]
                return self is other

        class Normalize:
            @staticmethod
            def interpret(cls, red, bo, vs, ts):
                return LazyMarker((red, bo, frozenset(vs), tuple(id(t) for t in ts)))

        def Contraction(red, bo, vs, *ts):
            return ConRec(red, bo, vs, ts)

        Opnd.reduce = lambda self, op, vs: ConRec(op, NULL, vs, (self,))
        from collections import Counter

        ctx.ConRec = ConRec
        ctx.namespace = dict(Counter=Counter, frozenset=frozenset, list=list, tuple=tuple, enumerate=enumerate, normalize=Normalize, Contraction=Contraction, ops=OpsNS, DISTRIBUTIVE_OPS=DIST)
        ctx.pair = pair
        ctx.args = {None: (ADD, MUL, rv, terms), "add/add": (ADD, ADD, rv, terms), "mul/add": (MUL, ADD, rv, terms)}[pair]
        return ctx

    def ensures(self, ctx, result):
        if ctx.pair is not None:
            return [("non_distributive_pair_is_left_to_the_normal_form_rules", result is None)]
        if result is None:
            return [("declines_or_rewrites", True)]
        ok = isinstance(result, ctx.ConRec) and result.red is ADD and result.bo is MUL
        if not ok:
            return [("declines_or_rewrites", False)]
        new_rv, new_terms = result.vs, result.parts
        removed = ctx.rv - new_rv
        mentions = {v: frozenset(t.label for t in ctx.terms if v in t.input_vars) for v in ctx.rv}
        safe = True
        for v in removed:
            holders = [t for t in new_terms if v in t.summed]
            if len(holders) != 1 or not mentions[v] <= holders[0].origin:
                safe = False
            if any(v in t.input_vars for t in new_terms):
                safe = False
        kept_ok = all(not any(v in t.summed for t in new_terms) for v in new_rv)
        # order: operands' origins appear in increasing order of their first member
        firsts = [min(int(l[1:]) for l in t.origin) for t in new_terms]
        covers = sorted(l for t in new_terms for l in t.origin) == sorted(t.label for t in ctx.terms)
        return [
            ("declines_or_rewrites", True),
            ("summed_variables_are_private_to_the_combined_operands", safe),
            ("remaining_reduced_variables_untouched", kept_ok),
            ("operand_order_and_coverage", firsts == sorted(firsts) and covers),
        ]


def registrations(path, funcname):
    """decorator argument lists `@<interp>.register(...)` of a rule, read from the AST (registration = the rule's precondition)"""
    import ast

    src, tree = core.parse_file(path)
    out = []
    for n in ast.walk(tree):
        if isinstance(n, ast.FunctionDef) and n.name == funcname:
            for d in n.decorator_list:
                if isinstance(d, ast.Call) and isinstance(d.func, ast.Attribute) and d.func.attr == "register":
                    out.append((ast.unparse(d.func.value), [ast.unparse(a) for a in d.args]))
    return out


@register
class UnaryContractRule(Contract):
    """cnf.unary_contract(op, arg): pushes a unary op inside a Contraction: f(b-product of ts) -> b-product of f(t).
    This is an identity only for the pairs (neg over add-products) and (reciprocal over mul-products) WITHOUT a reduction in
    between (neg also commutes with an add-reduction, but not with logaddexp / max / min).  The rule's REGISTRATION PATTERNS
    are its precondition: every registered pattern (read from the decorators) must lie inside that law table, and on such
    arguments the body returns Contraction(red_op, bin_op, reduced_vars, f(t)...) with the terms in order."""

    props = ("C02", "C03", "C08")
    file = "funsor/cnf.py"
    qualname = "unary_contract"
    total = True
    LAWS = {("ops.NegOp", "NullOp", "ops.AddOp"), ("ops.ReciprocalOp", "NullOp", "ops.MulOp"), ("ops.NegOp", "ops.AddOp", "ops.AddOp")}
    mutants = (("terms reversed", "*(op(t) for t in arg.terms)", "*(op(t) for t in reversed(arg.terms))"),)

    def structures(self, tier):
        for interp, args in registrations(self.file, self.qualname):
            yield "registered: %s(%s)" % (interp, ", ".join(args)), (interp, tuple(args))
        yield "body", "body"

    def build(self, p, st):
        a, b = T("a"), T("b")
        arg = Con(NULL, ADD, frozenset(), a, b)
        op = lambda t: ("f", t)
        return Ctx(args=(op, arg), namespace=NS, st=st, a=a, b=b)

    def ensures(self, ctx, result):
        st = ctx.st
        body_ok = k(result) == Con(NULL, ADD, frozenset(), ("f", ctx.a), ("f", ctx.b)).key()
        if st == "body":
            return [("pushes_the_op_into_every_term_in_order", body_ok)]
        interp, args = st
        import re

        m = re.match(r"Contraction\[(.+)\]$", args[2]) if len(args) == 3 else None
        pat = None
        if m:
            parts = [x.strip() for x in m.group(1).split(",")]
            pat = (args[1], parts[0], parts[1])
        return [("registered_pattern_is_covered_by_a_law", interp == "normalize" and args[0] == "Unary" and pat in self.LAWS)]
