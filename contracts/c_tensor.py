"""Layout contracts on funsor/tensor.py (C19, C01, C06): conversions and re-alignment never move data to the wrong name.
Arrays are symbolic (contracts/arrays.py): ALL sizes (>= 1) and ALL contents are symbolic; the structure bound is the
number of names / dimensions, enumerated per contract."""
import itertools
from collections import OrderedDict

import z3

from pyvc import core
from pyvc.contract import Contract, Ctx, mval, register
from pyvc.core import SV, And, Declined, If, Implies, Not, Or, Unsupported, deep_eq, truth

from . import models as M
from .arrays import OpsArrayNS, SArr, fresh_array, fresh_index, in_range
from .c_terms import MTerm, NumberM, make_super
from .models import MDom, make_domain

NAMES = "abcd"


class TensorM(MTerm):
    """contract of TensorMeta.__call__ + Tensor.__init__ (TensorInit below): raises unless len(inputs) <= data.ndim and every
    input's size equals the size of its dimension; output = Array[dtype, data.shape[len(inputs):]]"""

    def __init__(self, data, inputs=None, dtype="real"):
        if inputs is None:
            inputs = ()
        elif isinstance(inputs, dict):
            inputs = tuple(inputs.items())
        if not isinstance(data, SArr):
            raise Declined("AssertionError")
        if len(inputs) > len(data.shape):
            raise Declined("AssertionError")
        for (k, d), size in zip(inputs, data.shape):
            if not truth(deep_eq(d.dtype, size)):
                raise Declined("AssertionError")
        self.inputs = OrderedDict(inputs)
        self.output = make_domain(dtype, data.shape[len(inputs):])
        self.dtype = dtype
        self.data = data


TensorM.__model_class__ = TensorM


def sizes(p, n, name="n"):
    out = []
    for i in range(n):
        s = p.fresh_int(name + str(i))
        p.assume(s >= 1)
        out.append(s)
    return out


def mk_tensor(p, names, erank, label="x"):
    bs = sizes(p, len(names), label + "_b")
    es = sizes(p, erank, label + "_e")
    data = fresh_array(p, label, tuple(bs) + tuple(es))
    t = TensorM.__new__(TensorM)
    t.inputs = OrderedDict((n, MDom(s, ())) for n, s in zip(names, bs))
    t.output = MDom("real", tuple(es))
    t.dtype = "real"
    t.data = data
    return t, dict(zip(names, bs)), tuple(es)


TENSOR_NS = dict(M.DOMAIN_NS, OrderedDict=OrderedDict, ops=OpsArrayNS, Tensor=TensorM, Number=NumberM, get_tracing_state=lambda: False)


@register
class TensorInit(Contract):
    """Tensor.__init__(data, inputs, dtype): establishes the representation invariant
    data.shape == sizes(inputs) ++ output.shape, len(inputs) <= data.ndim, fresh == names; raises iff an input's size
    differs from its dimension or there are more inputs than dimensions."""

    props = ("C06", "C01", "C19")
    file = "funsor/tensor.py"
    qualname = "Tensor.__init__"
    mutants = (("output keeps batch dims", "data.shape[len(inputs) :]", "data.shape[:]"), ("size check dropped", "                assert d.dtype == size\n", "                pass\n"))

    def structures(self, tier):
        for rank in range(0, 4):
            for ninp in range(0, 4):
                yield "rank=%d,inputs=%d" % (rank, ninp), (rank, ninp)

    def build(self, p, st):
        rank, ninp = st
        shape = tuple(sizes(p, rank, "s"))
        data = fresh_array(p, "x", shape)
        isz = sizes(p, ninp, "d")
        inputs = tuple((NAMES[i], MDom(isz[i], ())) for i in range(ninp))
        rec = []

        class Self:
            pass

        return Ctx(args=(Self(), data, inputs, "real"), namespace=TENSOR_NS, rec=rec, shape=shape, isz=isz, st=st, data=data)

    def hooks(self, ctx):
        return {"super": lambda sc, *a: make_super(ctx.rec)}

    def ok(self, ctx):
        rank, ninp = ctx.st
        if ninp > rank:
            return False
        return And(*[deep_eq(a, b) for a, b in zip(ctx.isz, ctx.shape)])

    def may_raise(self, ctx, etype):
        return Not(self.ok(ctx))

    def allow_vacuous(self, st):
        return st[1] > st[0]

    def ensures(self, ctx, result):
        rank, ninp = ctx.st
        if len(ctx.rec) != 1:
            return [("delegates_once", False)]
        inputs, output, fresh, bound = ctx.rec[0][1]
        return [
            ("invariant_established", self.ok(ctx)),
            ("inputs_in_order", deep_eq(inputs, OrderedDict((NAMES[i], MDom(ctx.isz[i], ())) for i in range(ninp)))),
            ("output_is_event_shape", deep_eq(output, MDom("real", ctx.shape[ninp:]))),
            ("fresh_is_names", fresh == frozenset(NAMES[:ninp])),
            ("data_is_the_argument", ctx.args[0].data is ctx.data),
        ]


def arrangements(names, maxlen):
    for k in range(0, maxlen + 1):
        for sub in itertools.permutations(names, k):
            yield sub


@register
class AlignTensor(Contract):
    """align_tensor(new_inputs, x, expand): for x a Tensor whose inputs are a subset of new_inputs (any order):
    shape(result) == [size_x(n) if n in x.inputs else (size_new(n) if expand else 1) for n in new_inputs] ++ event shape and
    for every index:  result[idx] == x.data[(idx[pos_new(o)] for o in x.inputs) ++ event idx]
    -- every value stays with its name. Number operands return their data. structure bound: <= 3 names in new_inputs
    (thorough: 4), event rank <= 1 (2)."""

    props = ("C19", "C01")
    file = "funsor/tensor.py"
    qualname = "align_tensor"
    total = True
    mutants = (
        ("axes taken in old order", "tuple(x_keys.index(k) for k in new_inputs if k in old_inputs)", "tuple(x_keys.index(k) for k in old_inputs if k in new_inputs)"),
        ("event dims not kept last", "+ tuple(range(len(old_inputs), len(data.shape))),", "+ tuple(reversed(range(len(old_inputs), len(data.shape)))),"),
        ("unit and size swapped", "old_inputs[k].dtype if k in old_inputs else 1 for k in new_inputs", "1 if k in old_inputs else old_inputs[k].dtype for k in new_inputs"),
        ("expand to old sizes", "data, tuple(d.dtype for d in new_inputs.values()) + x.output.shape", "data, tuple(old_inputs[k].dtype if k in old_inputs else 1 for k in new_inputs) + x.output.shape"),
    )

    def structures(self, tier):
        q = 3 if tier == "quick" else 4
        er = 2
        for nn in range(0, q + 1):
            new = tuple(NAMES[:nn])
            for old in arrangements(new, nn):
                for e in range(er + 1):
                    for ex in (False, True):
                        yield "new=%s,old=%s,event=%d,expand=%s" % ("".join(new) or "-", "".join(old) or "-", e, ex), (new, old, e, ex)
        yield "number", "number"

    def build(self, p, st):
        if st == "number":
            v = p.fresh_int("v")
            x = NumberM(v, "real")
            return Ctx(args=(OrderedDict(a=MDom(3, ())), x), namespace=TENSOR_NS, st=st, v=v)
        new, old, e, ex = st
        x, bs, es = mk_tensor(p, old, e)
        new_sizes = {}
        for n in new:
            if n in bs:
                new_sizes[n] = bs[n]
            else:
                s = p.fresh_int("new_" + n)
                p.assume(s >= 1)
                new_sizes[n] = s
        new_inputs = OrderedDict((n, MDom(new_sizes[n], ())) for n in new)
        return Ctx(args=(new_inputs, x), kwargs={"expand": ex}, namespace=TENSOR_NS, st=st, x=x, bs=bs, es=es, new_sizes=new_sizes, p=p)

    def ensures(self, ctx, result):
        if ctx.st == "number":
            return [("number_returns_its_data", result is ctx.v)]
        new, old, e, ex = ctx.st
        if not isinstance(result, SArr):
            return [("returns_array", False)]
        exp_shape = tuple(ctx.bs[n] if n in ctx.bs else (ctx.new_sizes[n] if ex else 1) for n in new) + ctx.es
        cl = [("shape", deep_eq(tuple(result.shape), exp_shape))]
        if len(result.shape) == len(exp_shape):
            idx = fresh_index(ctx.p, exp_shape)
            src = tuple(idx[new.index(o)] for o in old) + tuple(idx[len(new):])
            cl.append(("every_value_stays_with_its_name", Implies(in_range(idx, exp_shape), result.get(idx) == ctx.x.data.get(src))))
        return cl


@register
class TensorAlign(Contract):
    """Tensor.align(names): result.inputs == names first, then the remaining inputs in their old order; for every index the
    value at a named point is unchanged: result.data[idx] == self.data[idx permuted back]. Returns self when nothing moves.
    structure bound: <= 3 inputs (4), event rank <= 1 (2)."""

    props = ("C19",)
    file = "funsor/tensor.py"
    qualname = "Tensor.align"
    total = True
    mutants = (("inverse permutation", "permutation = tuple(old_dims.index(d) for d in new_dims)", "permutation = tuple(new_dims.index(d) for d in old_dims)"),)

    def structures(self, tier):
        q = 3 if tier == "quick" else 4
        er = 1 if tier == "quick" else 2
        for n in range(0, q + 1):
            old = tuple(NAMES[:n])
            for names in arrangements(old, n):
                for e in range(er + 1):
                    yield "inputs=%s,names=%s,event=%d" % ("".join(old) or "-", "".join(names) or "-", e), (old, names, e)

    def build(self, p, st):
        old, names, e = st
        x, bs, es = mk_tensor(p, old, e)
        return Ctx(args=(x, tuple(names)), namespace=TENSOR_NS, x=x, bs=bs, es=es, st=st, p=p)

    def ensures(self, ctx, result):
        old, names, e = ctx.st
        order = tuple(names) + tuple(n for n in old if n not in names)
        if not isinstance(result, TensorM):
            return [("returns_tensor", False)]
        cl = [("inputs_reordered", deep_eq(result.inputs, OrderedDict((n, ctx.x.inputs[n]) for n in order))), ("output_kept", deep_eq(result.output, ctx.x.output))]
        shape = tuple(ctx.bs[n] for n in order) + ctx.es
        if len(result.data.shape) == len(shape):
            idx = fresh_index(ctx.p, shape)
            src = tuple(idx[order.index(o)] for o in old) + tuple(idx[len(old):])
            cl.append(("value_at_every_named_point_unchanged", Implies(in_range(idx, shape), result.data.get(idx) == ctx.x.data.get(src))))
        else:
            cl.append(("value_at_every_named_point_unchanged", False))
        return cl


def namings(rank_b):
    """every assignment of a subset of the batch dims (positions 0..rank_b-1) to distinct names"""
    for k in range(0, rank_b + 1):
        for dims in itertools.combinations(range(rank_b), k):
            yield dims


@register
class TensorToFunsor(Contract):
    """tensor_to_funsor(x, output, dim_to_name) with a non-empty dim_to_name: named batch dims of size != 1 become inputs in
    left-to-right order, every other batch dim must have size 1 (otherwise the reshape fails: ValueError, never a silent
    shift), and for every index  result.data[named idx ++ event idx] == x[idx with 0 at unit/unnamed batch dims].
    structure bound: batch rank <= 3 (4), event rank <= 1 (2), every naming of a subset of batch dims."""

    props = ("C19",)
    file = "funsor/tensor.py"
    qualname = "tensor_to_funsor"
    max_paths = 4000
    mutants = (
        ("names looked up from the left", "name = dim_to_name.get(dim + len(output.shape) - len(x.shape), None)", "name = dim_to_name.get(dim - len(x.shape), None)"),
        ("unit named dims kept", "if name is not None and size != 1:", "if name is not None:"),
    )

    def structures(self, tier):
        rb = 3 if tier == "quick" else 4
        er = 1 if tier == "quick" else 2
        for b in range(0, rb + 1):
            for e in range(er + 1):
                for dims in namings(b):
                    if not dims:
                        continue
                    yield "batch=%d,event=%d,named=%s" % (b, e, dims), (b, e, dims)

    def build(self, p, st):
        b, e, dims = st
        bs = sizes(p, b, "b")
        es = sizes(p, e, "e")
        x = fresh_array(p, "x", tuple(bs) + tuple(es))
        d2n = OrderedDict((d - b, NAMES[i]) for i, d in enumerate(dims))  # negative dims counted from the event boundary
        out = MDom("real", tuple(es))
        return Ctx(args=(x, out, d2n), namespace=TENSOR_NS, x=x, bs=bs, es=es, st=st, p=p, d2n=d2n)

    def may_raise(self, ctx, etype):
        b, e, dims = ctx.st
        # allowed to raise only if some unnamed batch dim is not of size 1
        return Or(*[ctx.bs[d] != 1 for d in range(b) if d not in dims])

    def ensures(self, ctx, result):
        b, e, dims = ctx.st
        if not isinstance(result, TensorM):
            return [("returns_tensor", False)]
        cl = [("unnamed_batch_dims_are_units", And(*[ctx.bs[d] == 1 for d in range(b) if d not in dims]))]
        names = list(result.inputs)
        named = {NAMES[i]: d for i, d in enumerate(dims)}
        # inputs: named dims with size != 1 in left-to-right order (on this path the executor has decided which sizes are 1)
        exp_names = [NAMES[i] for i, d in enumerate(dims)]
        is_sub = [n for n in exp_names if n in names] == names
        cl.append(("inputs_are_exactly_the_non_unit_named_dims_in_order", is_sub and And(*[(ctx.bs[named[n]] != 1) if n in names else (ctx.bs[named[n]] == 1) for n in exp_names])))
        cl.append(("input_sizes", And(*[deep_eq(result.inputs[n].dtype, ctx.bs[named[n]]) for n in names])))
        cl.append(("output", deep_eq(result.output, MDom("real", tuple(ctx.es)))))
        shape = tuple(ctx.bs[named[n]] for n in names) + tuple(ctx.es)
        if len(result.data.shape) == len(shape):
            idx = fresh_index(ctx.p, shape)
            full = [0] * b
            for k, n in enumerate(names):
                full[named[n]] = idx[k]
            src = tuple(full) + tuple(idx[len(names):])
            cl.append(("every_value_stays_with_its_name", Implies(in_range(idx, shape), result.data.get(idx) == ctx.x.get(src))))
        else:
            cl.append(("every_value_stays_with_its_name", False))
        return cl


@register
class TensorToData(Contract):
    """tensor_to_data(x, name_to_dim): each input lands at its name_to_dim position (negative, counted from the event
    boundary), size 1 elsewhere, batch rank == -min(dims); for every index  result[..] == x.data[named idx ++ event idx].
    structure bound: <= 3 inputs, target batch rank <= 3 (4), event rank <= 1 (2), every injective placement."""

    props = ("C19",)
    file = "funsor/tensor.py"
    qualname = "tensor_to_data"
    total = True
    mutants = (("permutation inverted", "permutation = [unsorted_dims.index(dim) for dim in dims]", "permutation = [dims.index(dim) for dim in unsorted_dims]"), ("batch rank from max", "batch_shape = [1] * -min(dims)", "batch_shape = [1] * (-min(dims) + 1)"))

    def structures(self, tier):
        rb = 3 if tier == "quick" else 4
        er = 1 if tier == "quick" else 2
        for n in range(1, 4):
            for places in itertools.permutations(range(-rb, 0), n):
                for e in range(er + 1):
                    yield "inputs=%d,dims=%s,event=%d" % (n, places, e), (n, places, e)

    def build(self, p, st):
        n, places, e = st
        names = tuple(NAMES[:n])
        x, bs, es = mk_tensor(p, names, e)
        n2d = OrderedDict(zip(names, places))
        return Ctx(args=(x, n2d), namespace=TENSOR_NS, x=x, bs=bs, es=es, st=st, p=p, names=names)

    def ensures(self, ctx, result):
        n, places, e = ctx.st
        if not isinstance(result, SArr):
            return [("returns_array", False)]
        rb = -min(places)
        shape = [1] * rb
        for nm, d in zip(ctx.names, places):
            shape[d] = ctx.bs[nm]
        shape = tuple(shape) + ctx.es
        cl = [("shape", deep_eq(tuple(result.shape), shape))]
        if len(result.shape) == len(shape):
            idx = fresh_index(ctx.p, shape)
            src = tuple(idx[rb + d] for d in places) + tuple(idx[rb:])
            cl.append(("every_value_lands_at_its_dimension", Implies(in_range(idx, shape), result.get(idx) == ctx.x.data.get(src))))
        return cl


@register
class ToFunsorToDataRoundTrip(Contract):
    """Lemma over the two contracts, checked by executing both real bodies in sequence:
    to_data(to_funsor(x, output, dim_to_name), {name: dim}) == x up to size-1 batch dimensions -- for every index of x
    (leading unit dims that no name refers to may be dropped): same element. structure bound as TensorToFunsor."""

    props = ("C19",)
    file = "funsor/tensor.py"
    qualname = "tensor_to_funsor"
    max_paths = 4000
    mutants = (("names looked up from the left", "name = dim_to_name.get(dim + len(output.shape) - len(x.shape), None)", "name = dim_to_name.get(dim - len(x.shape) + 1, None)"),)

    structures = TensorToFunsor.structures
    build = TensorToFunsor.build

    def ensures(self, ctx, result):
        b, e, dims = ctx.st
        if not isinstance(result, TensorM):
            return [("returns_tensor", False)]
        loc = core.locate("funsor/tensor.py", "tensor_to_data")
        f, _ = core.make_callable(loc, TENSOR_NS)
        n2d = OrderedDict((n, d) for d, n in ctx.d2n.items())
        if not result.inputs:
            n2d = None  # nothing named survived: to_data of a ground tensor returns the data unchanged
        try:
            back = f(result, n2d)
        except Declined as d:
            return [("to_data_accepts_the_result", False)]
        if not isinstance(back, SArr):
            return [("round_trip_returns_array", False)]
        # compare with x up to unit batch dims: align from the right
        xs = ctx.x.shape
        k = len(back.shape)
        cl = []
        if k > len(xs):
            return [("round_trip_rank", False)]
        lead = xs[: len(xs) - k]
        cl.append(("dropped_leading_dims_are_units", And(*[s == 1 for s in lead])))
        cl.append(("shape_up_to_unit_dims", deep_eq(tuple(back.shape), tuple(xs[len(xs) - k:]))))
        idx = fresh_index(ctx.p, xs)
        cl.append(("round_trip_is_identity", Implies(in_range(idx, xs), back.get(tuple(idx[len(xs) - k:])) == ctx.x.get(idx))))
        return cl
