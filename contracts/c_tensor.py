"""Layout contracts on funsor/tensor.py (C19, C01, C06): conversions and re-alignment never move data to the wrong name.
Arrays are symbolic (contracts/arrays.py): ALL sizes (>= 1) and ALL contents are symbolic; the structure bound is the
number of names / dimensions, enumerated per contract."""
import itertools
from collections import OrderedDict

import z3

from pyvc import core
from pyvc.contract import Contract, Ctx, mval, register
from pyvc.core import SV, And, Declined, If, Implies, Not, Or, Unsupported, deep_eq, truth

from . import models as M
from .arrays import OpsArrayNS, SArr, fresh_array, fresh_index, in_range, permute
from .arrays import cat as arr_cat
from .arrays import stack as arr_stack
from .c_terms import MTerm, NumberM, make_super
from .models import MDom, make_domain

NAMES = "abcd"


class TensorM(MTerm):
    """contract of TensorMeta.__call__ + Tensor.__init__ (TensorInit below): raises unless len(inputs) <= data.ndim and every
    input's size equals the size of its dimension; output = Array[dtype, data.shape[len(inputs):]]"""

    def __init__(self, data, inputs=None, dtype="real"):
        if inputs is None:
            inputs = ()
        elif isinstance(inputs, dict):
            inputs = tuple(inputs.items())
        if not isinstance(data, SArr):
            raise Declined("AssertionError")
        if len(inputs) > len(data.shape):
            raise Declined("AssertionError")
        for (k, d), size in zip(inputs, data.shape):
            if not truth(deep_eq(d.dtype, size)):
                raise Declined("AssertionError")
        self.inputs = OrderedDict(inputs)
        self.output = make_domain(dtype, data.shape[len(inputs):])
        self.dtype = dtype
        self.data = data


TensorM.__model_class__ = TensorM
# Funsor.input_vars: the set of Variable(name, domain); operands are well-typed (a shared name has one domain), so the set of
# names represents it
TensorM.input_vars = property(lambda self: frozenset(("Variable", k) for k in self.inputs))


def sizes(p, n, name="n"):
    out = []
    for i in range(n):
        s = p.fresh_int(name + str(i))
        p.assume(s >= 1)
        out.append(s)
    return out


def mk_tensor(p, names, erank, label="x"):
    bs = sizes(p, len(names), label + "_b")
    es = sizes(p, erank, label + "_e")
    data = fresh_array(p, label, tuple(bs) + tuple(es))
    t = TensorM.__new__(TensorM)
    t.inputs = OrderedDict((n, MDom(s, ())) for n, s in zip(names, bs))
    t.output = MDom("real", tuple(es))
    t.dtype = "real"
    t.data = data
    return t, dict(zip(names, bs)), tuple(es)


TENSOR_NS = dict(M.DOMAIN_NS, OrderedDict=OrderedDict, ops=OpsArrayNS, Tensor=TensorM, Number=NumberM, get_tracing_state=lambda: False)


@register
class TensorInit(Contract):
    """Tensor.__init__(data, inputs, dtype): establishes the representation invariant
    data.shape == sizes(inputs) ++ output.shape, len(inputs) <= data.ndim, fresh == names; raises iff an input's size
    differs from its dimension or there are more inputs than dimensions."""

    props = ("C06", "C01", "C19")
    file = "funsor/tensor.py"
    qualname = "Tensor.__init__"
    mutants = (("output keeps batch dims", "data.shape[len(inputs) :]", "data.shape[:]"), ("size check dropped", "                assert d.dtype == size\n", "                pass\n"))

    def structures(self, tier):
        for rank in range(0, 4):
            for ninp in range(0, 4):
                yield "rank=%d,inputs=%d" % (rank, ninp), (rank, ninp)

    def build(self, p, st):
        rank, ninp = st
        shape = tuple(sizes(p, rank, "s"))
        data = fresh_array(p, "x", shape)
        isz = sizes(p, ninp, "d")
        inputs = tuple((NAMES[i], MDom(isz[i], ())) for i in range(ninp))
        rec = []

        class Self:
            pass

        return Ctx(args=(Self(), data, inputs, "real"), namespace=TENSOR_NS, rec=rec, shape=shape, isz=isz, st=st, data=data)

    def hooks(self, ctx):
        return {"super": lambda sc, *a: make_super(ctx.rec)}

    def ok(self, ctx):
        rank, ninp = ctx.st
        if ninp > rank:
            return False
        return And(*[deep_eq(a, b) for a, b in zip(ctx.isz, ctx.shape)])

    def may_raise(self, ctx, etype):
        return Not(self.ok(ctx))

    def allow_vacuous(self, st):
        return st[1] > st[0]

    def ensures(self, ctx, result):
        rank, ninp = ctx.st
        if len(ctx.rec) != 1:
            return [("delegates_once", False)]
        inputs, output, fresh, bound = ctx.rec[0][1]
        return [
            ("invariant_established", self.ok(ctx)),
            ("inputs_in_order", deep_eq(inputs, OrderedDict((NAMES[i], MDom(ctx.isz[i], ())) for i in range(ninp)))),
            ("output_is_event_shape", deep_eq(output, MDom("real", ctx.shape[ninp:]))),
            ("fresh_is_names", fresh == frozenset(NAMES[:ninp])),
            ("data_is_the_argument", ctx.args[0].data is ctx.data),
        ]


def arrangements(names, maxlen):
    for k in range(0, maxlen + 1):
        for sub in itertools.permutations(names, k):
            yield sub


@register
class AlignTensor(Contract):
    """align_tensor(new_inputs, x, expand): for x a Tensor whose inputs are a subset of new_inputs (any order):
    shape(result) == [size_x(n) if n in x.inputs else (size_new(n) if expand else 1) for n in new_inputs] ++ event shape and
    for every index:  result[idx] == x.data[(idx[pos_new(o)] for o in x.inputs) ++ event idx]
    -- every value stays with its name. Number operands return their data. structure bound: <= 3 names in new_inputs
    (thorough: 4), event rank <= 1 (2)."""

    props = ("C19", "C01")
    file = "funsor/tensor.py"
    qualname = "align_tensor"
    total = True
    mutants = (
        ("axes taken in old order", "tuple(x_keys.index(k) for k in new_inputs if k in old_inputs)", "tuple(x_keys.index(k) for k in old_inputs if k in new_inputs)"),
        ("event dims not kept last", "+ tuple(range(len(old_inputs), len(data.shape))),", "+ tuple(reversed(range(len(old_inputs), len(data.shape)))),"),
        ("unit and size swapped", "old_inputs[k].dtype if k in old_inputs else 1 for k in new_inputs", "1 if k in old_inputs else old_inputs[k].dtype for k in new_inputs"),
        ("expand to old sizes", "data, tuple(d.dtype for d in new_inputs.values()) + x.output.shape", "data, tuple(old_inputs[k].dtype if k in old_inputs else 1 for k in new_inputs) + x.output.shape"),
    )

    def structures(self, tier):
        q = 3 if tier == "quick" else 4
        er = 2
        for nn in range(0, q + 1):
            new = tuple(NAMES[:nn])
            for old in arrangements(new, nn):
                for e in range(er + 1):
                    for ex in (False, True):
                        yield "new=%s,old=%s,event=%d,expand=%s" % ("".join(new) or "-", "".join(old) or "-", e, ex), (new, old, e, ex)
        yield "number", "number"

    def build(self, p, st):
        if st == "number":
            v = p.fresh_int("v")
            x = NumberM(v, "real")
            return Ctx(args=(OrderedDict(a=MDom(3, ())), x), namespace=TENSOR_NS, st=st, v=v)
        new, old, e, ex = st
        x, bs, es = mk_tensor(p, old, e)
        new_sizes = {}
        for n in new:
            if n in bs:
                new_sizes[n] = bs[n]
            else:
                s = p.fresh_int("new_" + n)
                p.assume(s >= 1)
                new_sizes[n] = s
        new_inputs = OrderedDict((n, MDom(new_sizes[n], ())) for n in new)
        return Ctx(args=(new_inputs, x), kwargs={"expand": ex}, namespace=TENSOR_NS, st=st, x=x, bs=bs, es=es, new_sizes=new_sizes, p=p)

    def ensures(self, ctx, result):
        if ctx.st == "number":
            return [("number_returns_its_data", result is ctx.v)]
        new, old, e, ex = ctx.st
        if not isinstance(result, SArr):
            return [("returns_array", False)]
        exp_shape = tuple(ctx.bs[n] if n in ctx.bs else (ctx.new_sizes[n] if ex else 1) for n in new) + ctx.es
        cl = [("shape", deep_eq(tuple(result.shape), exp_shape))]
        if len(result.shape) == len(exp_shape):
            idx = fresh_index(ctx.p, exp_shape)
            src = tuple(idx[new.index(o)] for o in old) + tuple(idx[len(new):])
            cl.append(("every_value_stays_with_its_name", Implies(in_range(idx, exp_shape), result.get(idx) == ctx.x.data.get(src))))
        return cl


@register
class TensorAlign(Contract):
    """Tensor.align(names): result.inputs == names first, then the remaining inputs in their old order; for every index the
    value at a named point is unchanged: result.data[idx] == self.data[idx permuted back]. Returns self when nothing moves.
    structure bound: <= 3 inputs (4), event rank <= 1 (2)."""

    props = ("C19",)
    file = "funsor/tensor.py"
    qualname = "Tensor.align"
    total = True
    mutants = (("inverse permutation", "permutation = tuple(old_dims.index(d) for d in new_dims)", "permutation = tuple(new_dims.index(d) for d in old_dims)"),)

    def structures(self, tier):
        q = 3 if tier == "quick" else 4
        er = 1 if tier == "quick" else 2
        for n in range(0, q + 1):
            old = tuple(NAMES[:n])
            for names in arrangements(old, n):
                for e in range(er + 1):
                    yield "inputs=%s,names=%s,event=%d" % ("".join(old) or "-", "".join(names) or "-", e), (old, names, e)

    def build(self, p, st):
        old, names, e = st
        x, bs, es = mk_tensor(p, old, e)
        return Ctx(args=(x, tuple(names)), namespace=TENSOR_NS, x=x, bs=bs, es=es, st=st, p=p)

    def ensures(self, ctx, result):
        old, names, e = ctx.st
        order = tuple(names) + tuple(n for n in old if n not in names)
        if not isinstance(result, TensorM):
            return [("returns_tensor", False)]
        cl = [("inputs_reordered", deep_eq(result.inputs, OrderedDict((n, ctx.x.inputs[n]) for n in order))), ("output_kept", deep_eq(result.output, ctx.x.output))]
        shape = tuple(ctx.bs[n] for n in order) + ctx.es
        if len(result.data.shape) == len(shape):
            idx = fresh_index(ctx.p, shape)
            src = tuple(idx[order.index(o)] for o in old) + tuple(idx[len(old):])
            cl.append(("value_at_every_named_point_unchanged", Implies(in_range(idx, shape), result.data.get(idx) == ctx.x.data.get(src))))
        else:
            cl.append(("value_at_every_named_point_unchanged", False))
        return cl


def namings(rank_b):
    """every assignment of a subset of the batch dims (positions 0..rank_b-1) to distinct names"""
    for k in range(0, rank_b + 1):
        for dims in itertools.combinations(range(rank_b), k):
            yield dims


@register
class TensorToFunsor(Contract):
    """tensor_to_funsor(x, output, dim_to_name) with a non-empty dim_to_name: named batch dims of size != 1 become inputs in
    left-to-right order, every other batch dim must have size 1 (otherwise the reshape fails: ValueError, never a silent
    shift), and for every index  result.data[named idx ++ event idx] == x[idx with 0 at unit/unnamed batch dims].
    structure bound: batch rank <= 3 (4), event rank <= 1 (2), every naming of a subset of batch dims."""

    props = ("C19",)
    file = "funsor/tensor.py"
    qualname = "tensor_to_funsor"
    max_paths = 4000
    mutants = (
        ("names looked up from the left", "name = dim_to_name.get(dim + len(output.shape) - len(x.shape), None)", "name = dim_to_name.get(dim - len(x.shape), None)"),
        ("unit named dims kept", "if name is not None and size != 1:", "if name is not None:"),
    )

    def structures(self, tier):
        rb = 3 if tier == "quick" else 4
        er = 1 if tier == "quick" else 2
        for b in range(0, rb + 1):
            for e in range(er + 1):
                for dims in namings(b):
                    if not dims:
                        continue
                    yield "batch=%d,event=%d,named=%s" % (b, e, dims), (b, e, dims)
                    if len(dims) >= 2:
                        # the same naming with the dim_to_name dict LISTED in descending / rotated dim order
                        yield "batch=%d,event=%d,named=%s,listed-descending" % (b, e, dims), (b, e, dims, "desc")
                        if len(dims) >= 3:
                            yield "batch=%d,event=%d,named=%s,listed-rotated" % (b, e, dims), (b, e, dims, "rot")

    def build(self, p, st):
        order = st[3] if len(st) > 3 else "asc"
        b, e, dims = st[:3]
        st = (b, e, dims)
        bs = sizes(p, b, "b")
        es = sizes(p, e, "e")
        x = fresh_array(p, "x", tuple(bs) + tuple(es))
        items = [(d - b, NAMES[i]) for i, d in enumerate(dims)]  # negative dims counted from the event boundary
        if order == "desc":
            items = items[::-1]
        elif order == "rot":
            items = items[1:] + items[:1]
        d2n = OrderedDict(items)
        out = MDom("real", tuple(es))
        return Ctx(args=(x, out, d2n), namespace=TENSOR_NS, x=x, bs=bs, es=es, st=st, p=p, d2n=d2n)

    def may_raise(self, ctx, etype):
        b, e, dims = ctx.st
        # allowed to raise only if some unnamed batch dim is not of size 1
        return Or(*[ctx.bs[d] != 1 for d in range(b) if d not in dims])

    def ensures(self, ctx, result):
        b, e, dims = ctx.st
        if not isinstance(result, TensorM):
            return [("returns_tensor", False)]
        cl = [("unnamed_batch_dims_are_units", And(*[ctx.bs[d] == 1 for d in range(b) if d not in dims]))]
        names = list(result.inputs)
        named = {NAMES[i]: d for i, d in enumerate(dims)}
        # inputs: named dims with size != 1 in left-to-right order (on this path the executor has decided which sizes are 1)
        exp_names = [NAMES[i] for i, d in enumerate(dims)]
        is_sub = [n for n in exp_names if n in names] == names
        cl.append(("inputs_are_exactly_the_non_unit_named_dims_in_order", is_sub and And(*[(ctx.bs[named[n]] != 1) if n in names else (ctx.bs[named[n]] == 1) for n in exp_names])))
        cl.append(("input_sizes", And(*[deep_eq(result.inputs[n].dtype, ctx.bs[named[n]]) for n in names])))
        cl.append(("output", deep_eq(result.output, MDom("real", tuple(ctx.es)))))
        shape = tuple(ctx.bs[named[n]] for n in names) + tuple(ctx.es)
        if len(result.data.shape) == len(shape):
            idx = fresh_index(ctx.p, shape)
            full = [0] * b
            for k, n in enumerate(names):
                full[named[n]] = idx[k]
            src = tuple(full) + tuple(idx[len(names):])
            cl.append(("every_value_stays_with_its_name", Implies(in_range(idx, shape), result.data.get(idx) == ctx.x.get(src))))
        else:
            cl.append(("every_value_stays_with_its_name", False))
        return cl


@register
class TensorToFunsorInferredOutput(Contract):
    """tensor_to_funsor(x, None, dim_to_name) with a non-empty dim_to_name -- the event shape is inferred: the LEFTMOST (most
    negative) key refers to the leftmost dim of x, i.e. the batch rank is B = min(-min(keys), x.ndim), key k names dim B + k,
    the output is Reals[x.shape[B:]] -- and then as with an explicit output: named dims of size != 1 become inputs in
    left-to-right order, unnamed dims left of the event shape must have size 1 (else the reshape raises), keys below -B are
    never consulted, and result.data[named idx ++ event idx] == x[that index].  structure bound: x.ndim <= 3, keys among
    -1..-3 (thorough: ndim <= 4, keys -1..-4), dict listed ascending and descending."""

    props = ("C19",)
    file = "funsor/tensor.py"
    qualname = "tensor_to_funsor"
    max_paths = 4000
    mutants = (
        ("batch rank taken from the rightmost key (seeded C19_to_funsor_event_shape_max)", "batch_ndims = min(-min(dim_to_name.keys()), len(x.shape))", "batch_ndims = min(-max(dim_to_name.keys()), len(x.shape))"),
        ("event shape starts one dim early", "output = Reals[x.shape[batch_ndims:]]", "output = Reals[x.shape[max(batch_ndims - 1, 0):]]"),
    )

    def structures(self, tier):
        nmax = 3 if tier == "quick" else 4
        for n in range(1, nmax + 1):
            for r in range(1, nmax + 1):
                for keys in itertools.combinations(range(-nmax, 0), r):
                    yield "ndim=%d,keys=%s" % (n, list(keys)), (n, keys, "asc")
                    if r >= 2:
                        yield "ndim=%d,keys=%s,listed-descending" % (n, list(keys)), (n, keys, "desc")

    def build(self, p, st):
        n, keys, order = st
        shape = tuple(sizes(p, n, "s"))
        x = fresh_array(p, "x", shape)
        ks = list(keys) if order == "asc" else list(reversed(keys))
        d2n = OrderedDict((k, "n%d" % (-k)) for k in ks)
        return Ctx(args=(x, None, d2n), namespace=dict(TENSOR_NS, min=min, max=max, len=len, all=core.sall, isinstance=core.sisinstance, int=int, str=str), x=x, shape=shape, st=st, p=p)

    def layout(self, ctx):
        n, keys, order = ctx.st
        B = min(-min(keys), n)
        named = {B + k: "n%d" % (-k) for k in keys if B + k >= 0}
        return B, named

    def may_raise(self, ctx, etype):
        B, named = self.layout(ctx)
        return Or(*[ctx.shape[d] != 1 for d in range(B) if d not in named])

    def ensures(self, ctx, result):
        n, keys, order = ctx.st
        B, named = self.layout(ctx)
        if not isinstance(result, TensorM):
            return [("returns_tensor", False)]
        cl = [("unnamed_batch_dims_are_units", And(*[ctx.shape[d] == 1 for d in range(B) if d not in named]))]
        names = list(result.inputs)
        exp_order = [named[d] for d in sorted(named)]
        pos = {v: d for d, v in named.items()}
        is_sub = [m for m in exp_order if m in names] == names
        cl.append(("inputs_are_exactly_the_non_unit_named_dims_in_order", is_sub and And(*[(ctx.shape[pos[m]] != 1) if m in names else (ctx.shape[pos[m]] == 1) for m in exp_order])))
        cl.append(("input_sizes", And(*[deep_eq(result.inputs[m].dtype, ctx.shape[pos[m]]) for m in names])))
        cl.append(("output_is_the_shape_right_of_the_leftmost_key", deep_eq(result.output, MDom("real", tuple(ctx.shape[B:])))))
        shape = tuple(ctx.shape[pos[m]] for m in names) + tuple(ctx.shape[B:])
        if len(result.data.shape) == len(shape):
            idx = fresh_index(ctx.p, shape)
            full = [0] * B
            for k, m in enumerate(names):
                full[pos[m]] = idx[k]
            src = tuple(full) + tuple(idx[len(names):])
            cl.append(("every_value_stays_with_its_name", Implies(in_range(idx, shape), result.data.get(idx) == ctx.x.get(src))))
        else:
            cl.append(("every_value_stays_with_its_name", False))
        return cl


@register
class TensorToData(Contract):
    """tensor_to_data(x, name_to_dim): each input lands at its name_to_dim position (negative, counted from the event
    boundary), size 1 elsewhere, batch rank == -min(dims); for every index  result[..] == x.data[named idx ++ event idx].
    structure bound: <= 3 inputs, target batch rank <= 3 (4), event rank <= 1 (2), every injective placement."""

    props = ("C19",)
    file = "funsor/tensor.py"
    qualname = "tensor_to_data"
    total = True
    mutants = (("permutation inverted", "permutation = [unsorted_dims.index(dim) for dim in dims]", "permutation = [dims.index(dim) for dim in unsorted_dims]"), ("batch rank from max", "batch_shape = [1] * -min(dims)", "batch_shape = [1] * (-min(dims) + 1)"))

    def structures(self, tier):
        rb = 3 if tier == "quick" else 4
        er = 1 if tier == "quick" else 2
        for n in range(1, 4):
            for places in itertools.permutations(range(-rb, 0), n):
                for e in range(er + 1):
                    yield "inputs=%d,dims=%s,event=%d" % (n, places, e), (n, places, e)

    def build(self, p, st):
        n, places, e = st
        names = tuple(NAMES[:n])
        x, bs, es = mk_tensor(p, names, e)
        n2d = OrderedDict(zip(names, places))
        return Ctx(args=(x, n2d), namespace=TENSOR_NS, x=x, bs=bs, es=es, st=st, p=p, names=names)

    def ensures(self, ctx, result):
        n, places, e = ctx.st
        if not isinstance(result, SArr):
            return [("returns_array", False)]
        rb = -min(places)
        shape = [1] * rb
        for nm, d in zip(ctx.names, places):
            shape[d] = ctx.bs[nm]
        shape = tuple(shape) + ctx.es
        cl = [("shape", deep_eq(tuple(result.shape), shape))]
        if len(result.shape) == len(shape):
            idx = fresh_index(ctx.p, shape)
            src = tuple(idx[rb + d] for d in places) + tuple(idx[rb:])
            cl.append(("every_value_lands_at_its_dimension", Implies(in_range(idx, shape), result.get(idx) == ctx.x.data.get(src))))
        return cl


@register
class ToFunsorToDataRoundTrip(Contract):
    """Lemma over the two contracts, checked by executing both real bodies in sequence:
    to_data(to_funsor(x, output, dim_to_name), {name: dim}) == x up to size-1 batch dimensions -- for every index of x
    (leading unit dims that no name refers to may be dropped): same element. structure bound as TensorToFunsor."""

    props = ("C19",)
    file = "funsor/tensor.py"
    qualname = "tensor_to_funsor"
    max_paths = 4000
    mutants = (("names looked up from the left", "name = dim_to_name.get(dim + len(output.shape) - len(x.shape), None)", "name = dim_to_name.get(dim - len(x.shape) + 1, None)"),)

    structures = TensorToFunsor.structures
    build = TensorToFunsor.build

    def ensures(self, ctx, result):
        b, e, dims = ctx.st
        if not isinstance(result, TensorM):
            return [("returns_tensor", False)]
        loc = core.locate("funsor/tensor.py", "tensor_to_data")
        f, _ = core.make_callable(loc, TENSOR_NS)
        n2d = OrderedDict((n, d) for d, n in ctx.d2n.items())
        if not result.inputs:
            n2d = None  # nothing named survived: to_data of a ground tensor returns the data unchanged
        try:
            back = f(result, n2d)
        except Declined as d:
            return [("to_data_accepts_the_result", False)]
        if not isinstance(back, SArr):
            return [("round_trip_returns_array", False)]
        # compare with x up to unit batch dims: align from the right
        xs = ctx.x.shape
        k = len(back.shape)
        cl = []
        if k > len(xs):
            return [("round_trip_rank", False)]
        lead = xs[: len(xs) - k]
        cl.append(("dropped_leading_dims_are_units", And(*[s == 1 for s in lead])))
        cl.append(("shape_up_to_unit_dims", deep_eq(tuple(back.shape), tuple(xs[len(xs) - k:]))))
        idx = fresh_index(ctx.p, xs)
        cl.append(("round_trip_is_identity", Implies(in_range(idx, xs), back.get(tuple(idx[len(xs) - k:])) == ctx.x.get(idx))))
        return cl


# ==================================================================================================
# C01: eager tensor rules (layout of batch vs event dimensions)
# ==================================================================================================
OPF = z3.Function("binop", z3.IntSort(), z3.IntSort(), z3.IntSort())


def bcast_pair(sa, sb):
    """numpy broadcasting of two dims; returns (size, a_is_unit, b_is_unit); raises Declined where numpy raises"""
    from .arrays import is_one, same_size

    if same_size(sa, sb):
        return sa, False, False
    if is_one(sa):
        return sb, True, False
    if is_one(sb):
        return sa, False, True
    if truth(deep_eq(sa, sb)):
        return sa, False, False
    if truth(deep_eq(sa, 1)):
        return sb, True, False
    if truth(deep_eq(sb, 1)):
        return sa, False, True
    raise Declined("ValueError", "operands could not be broadcast together")


class BinOpM:
    """an elementwise binary op on arrays with numpy broadcasting (model of a ufunc)"""

    name = "op"

    def __call__(self, a, b):
        a = a if isinstance(a, SArr) else SArr((), lambda idx, a=a: a)
        b = b if isinstance(b, SArr) else SArr((), lambda idx, b=b: b)
        n = max(len(a.shape), len(b.shape))
        shape, ua, ub = [], [], []
        for pos in range(n):
            ia, ib = pos - (n - len(a.shape)), pos - (n - len(b.shape))
            if ia < 0:
                shape.append(b.shape[ib])
            elif ib < 0:
                shape.append(a.shape[ia])
            else:
                s, x, y = bcast_pair(a.shape[ia], b.shape[ib])
                shape.append(s)
                ua.append((ia, x))
                ub.append((ib, y))
        ua, ub = dict(ua), dict(ub)

        def get(idx):
            ia = tuple(0 if ua.get(k, False) else idx[k + n - len(a.shape)] for k in range(len(a.shape)))
            ib = tuple(0 if ub.get(k, False) else idx[k + n - len(b.shape)] for k in range(len(b.shape)))
            return SV(OPF(core._lift(a.get(ia)), core._lift(b.get(ib))))

        return SArr(tuple(shape), get)


def align_tensors_model(*args, **kwargs):
    """callee contract of tensor.align_tensors / align_tensor (proved: AlignTensor): inputs = union of the operands' inputs in
    first-occurrence order; each operand's data permuted/unit-padded to those inputs, every value staying with its name"""
    if kwargs.get("expand", False):
        raise Unsupported("expand=True")
    inputs = OrderedDict()
    for x in args:
        inputs.update(x.inputs)
    names = list(inputs)
    out = []
    for x in args:
        old = list(x.inputs)
        ev = x.data.shape[len(old):]
        shape = tuple(x.inputs[n].dtype if n in x.inputs else 1 for n in names) + tuple(ev)

        def get(idx, x=x, old=old):
            return x.data.get(tuple(idx[names.index(o)] for o in old) + tuple(idx[len(names):]))

        out.append(SArr(shape, get, x.data.dtype))
    return inputs, out


def find_domain_model(op, *doms):
    """callee contract of find_domain for the opaque op: real in, real out, shape irrelevant here (dtype only is used)"""
    return MDom("real", ())


class TShape:
    pass


def with_shape(t):
    t.shape = t.output.shape
    return t


@register
class EagerBinaryTensorTensor(Contract):
    """eager_binary_tensor_tensor (generic pointwise op): result inputs = union of the operands' inputs (lhs order, then new rhs
    names); for EVERY index, result.data[batch idx ++ event idx] == op(lhs at its own batch names and right-aligned event
    index, rhs likewise) -- i.e. the unit padding for event-rank broadcasting is inserted BETWEEN batch and event dims, so a
    batch dimension is never matched against an event dimension; event shapes broadcast as in numpy.
    structure bound: <= 2 names per operand out of 3, event ranks <= 2; all sizes and contents symbolic."""

    props = ("C01", "C06")
    file = "funsor/tensor.py"
    qualname = "eager_binary_tensor_tensor"
    ordinal = 0
    max_paths = 6000
    mutants = (
        ("padding on the far left", "shape = shape[:cut] + (1,) * (rhs_dim - lhs_dim) + shape[cut:]\n            lhs_data", "shape = (1,) * (rhs_dim - lhs_dim) + shape\n            lhs_data"),
        ("cut computed from the other operand", "cut = len(rhs_data.shape) - rhs_dim", "cut = len(rhs_data.shape) - lhs_dim"),
        ("operands swapped", "data = op(lhs_data, rhs_data)", "data = op(rhs_data, lhs_data)"),
    )

    def structures(self, tier):
        pool = ["", "a", "b", "ab", "ba"] if tier == "quick" else ["", "a", "b", "c", "ab", "ba", "bc", "ca"]
        er = 2
        for ln in pool:
            for rn in pool:
                for le in range(er + 1):
                    for re_ in range(er + 1):
                        yield "lhs=%s/%d,rhs=%s/%d" % (ln or "-", le, rn or "-", re_), (ln, rn, le, re_)

    def build(self, p, st):
        ln, rn, le, re_ = st
        lb = sizes(p, len(ln), "lb")
        common = {}
        lhs, lbs, les = mk_tensor(p, tuple(ln), le, "L")
        # shared names must have equal sizes (well-typed operands)
        rhs, rbs, res_ = mk_tensor(p, tuple(rn), re_, "R")
        for n in rn:
            if n in lbs:
                p.assume(rbs[n] == lbs[n])
        with_shape(lhs)
        with_shape(rhs)
        ns = dict(TENSOR_NS, find_domain=find_domain_model, align_tensors=align_tensors_model, len=len)
        return Ctx(args=(BinOpM(), lhs, rhs), namespace=ns, lhs=lhs, rhs=rhs, lbs=lbs, rbs=rbs, les=les, res=res_, st=st, p=p)

    def may_raise(self, ctx, etype):
        return etype == "ValueError"  # event shapes not broadcastable: numpy raises, evaluation declines

    def ensures(self, ctx, result):
        ln, rn, le, re_ = ctx.st
        if not isinstance(result, TensorM):
            return [("returns_tensor", False)]
        names = list(ln) + [n for n in rn if n not in ln]
        bsz = [ctx.lbs[n] if n in ctx.lbs else ctx.rbs[n] for n in names]
        cl = [("inputs_are_the_union_in_order", list(result.inputs) == names and And(*[deep_eq(result.inputs[n].dtype, s) for n, s in zip(names, bsz)]))]
        ev = result.data.shape[len(names):]
        ne = max(le, re_)
        if len(result.data.shape) != len(names) + ne:
            return cl + [("event_rank_is_max_of_operands", False)]
        cl.append(("event_rank_is_max_of_operands", True))
        idx = fresh_index(ctx.p, result.data.shape)
        bidx, eidx = idx[: len(names)], idx[len(names):]

        def operand(t, tn, te, esz):
            b = tuple(bidx[names.index(n)] for n in tn)
            e = []
            for k in range(te):
                pos = k + ne - te
                # right-aligned event index; an operand dim of size 1 is read at 0 (numpy broadcasting)
                e.append(If(deep_eq(esz[k], 1), 0, eidx[pos]))
            return t.data.get(b + tuple(e))

        exp = SV(OPF(core._lift(operand(ctx.lhs, ln, le, ctx.les)), core._lift(operand(ctx.rhs, rn, re_, ctx.res))))
        cl.append(("each_element_is_op_of_the_operands_at_the_same_named_point", Implies(in_range(idx, result.data.shape), result.data.get(idx) == exp)))
        # event shape = numpy broadcast of the event shapes
        from .models import spec_broadcast

        ok, bshape = spec_broadcast([ctx.les, ctx.res])
        cl.append(("event_shape_is_numpy_broadcast", And(ok, deep_eq(tuple(ev), bshape))))
        return cl


MMF = z3.Function("matmul_summand", z3.IntSort(), z3.IntSort(), z3.IntSort())


class SqArr(SArr):
    """array with numpy's squeeze(axis) (axis must be a unit dimension)"""

    def squeeze(self, axis):
        from .arrays import is_one

        ax = axis % len(self.shape)
        if not (is_one(self.shape[ax]) or truth(deep_eq(self.shape[ax], 1))):
            raise Declined("ValueError", "cannot select an axis to squeeze out which has size not equal to one")
        g = self.get
        return SqArr(self.shape[:ax] + self.shape[ax + 1:], lambda idx: g(tuple(idx[:ax]) + (0,) + tuple(idx[ax:])), self.dtype)


class MatmulM:
    """numpy matmul on operands of rank >= 2: leading dims broadcast, (.., n, m) @ (.., m, p) -> (.., n, p).  An element of the
    result is a sum over the contraction index; two such sums are equal when their summands are equal for EVERY index, so the
    model returns the summand at one generic index J (a fresh symbolic constant fixed per obligation)."""

    name = "matmul"

    def __init__(self, J):
        self.J = J

    def __call__(self, a, b):
        from .arrays import same_size

        if len(a.shape) < 2 or len(b.shape) < 2:
            raise Unsupported("matmul model needs rank >= 2 operands")
        if not (same_size(a.shape[-1], b.shape[-2]) or core.cur().entails(core._lift(deep_eq(a.shape[-1], b.shape[-2])))):
            raise Declined("ValueError", "matmul: inner dimensions differ")
        la, lb = a.shape[:-2], b.shape[:-2]
        n = max(len(la), len(lb))
        shape, ua, ub = [], {}, {}
        for pos in range(n):
            ia, ib = pos - (n - len(la)), pos - (n - len(lb))
            if ia < 0:
                shape.append(lb[ib])
            elif ib < 0:
                shape.append(la[ia])
            else:
                sz, x, y = bcast_pair(la[ia], lb[ib])
                shape.append(sz)
                ua[ia], ub[ib] = x, y
        J = self.J

        def get(idx):
            lead, i, k = idx[:n], idx[n], idx[n + 1]
            ia = tuple(0 if ua.get(q, False) else lead[q + n - len(la)] for q in range(len(la)))
            ib = tuple(0 if ub.get(q, False) else lead[q + n - len(lb)] for q in range(len(lb)))
            return SV(MMF(core._lift(a.get(ia + (i, J))), core._lift(b.get(ib + (J, k)))))

        return SqArr(tuple(shape) + (a.shape[-2], b.shape[-1]), get)


@register
class EagerMatmulTensorTensor(Contract):
    """eager_binary_tensor_tensor for matmul (second rule of that name): result inputs = union of the operands' inputs (lhs
    order, then new rhs names); the operands are combined BY NAME -- operands listing the same inputs in a different order
    are aligned, never matched positionally --; a vector operand is a row (lhs) / column (rhs) and the unit dimension it
    gets is squeezed out of the result; for every index and every contraction index j
        summand(result[batch idx, i, k], j) == lhs[its own batch names, i, j] * rhs[its own batch names, j, k].
    structure bound: <= 2 names per operand, event ranks 1..2 (quick) / 1..3 with broadcasting leading event dims (thorough)."""

    props = ("C01", "C02")
    file = "funsor/tensor.py"
    qualname = "eager_binary_tensor_tensor"
    ordinal = 1
    max_paths = 6000
    mutants = (
        ("operands with the same names in another order used positionally", "    if lhs.inputs == rhs.inputs:\n        inputs = lhs.inputs\n        lhs_data, rhs_data = lhs.data, rhs.data\n    else:\n        inputs, (lhs_data, rhs_data) = align_tensors(lhs, rhs)\n    if len(lhs.shape) == 1:", "    if set(lhs.inputs) == set(rhs.inputs):\n        inputs = lhs.inputs\n        lhs_data, rhs_data = lhs.data, rhs.data\n    else:\n        inputs, (lhs_data, rhs_data) = align_tensors(lhs, rhs)\n    if len(lhs.shape) == 1:"),
        ("vector lhs treated as a column", "        lhs_data = ops.unsqueeze(lhs_data, -2)", "        lhs_data = ops.unsqueeze(lhs_data, -1)"),
    )

    def structures(self, tier):
        pool = ["", "a", "ab", "ba", "b"]
        ranks = (1, 2) if tier == "quick" else (1, 2, 3)
        for ln in pool:
            for rn in pool:
                for le in ranks:
                    for re_ in ranks:
                        yield "lhs=%s/%d,rhs=%s/%d" % (ln or "-", le, rn or "-", re_), (ln, rn, le, re_)

    def build(self, p, st):
        ln, rn, le, re_ = st
        lhs, lbs, les = mk_tensor(p, tuple(ln), le, "L")
        rhs, rbs, res_ = mk_tensor(p, tuple(rn), re_, "R")
        for n in rn:
            if n in lbs:
                p.assume(rbs[n] == lbs[n])
        # well-typed matmul: the contracted sizes agree
        p.assume(les[-1] == (res_[-2] if re_ >= 2 else res_[-1]))
        with_shape(lhs)
        with_shape(rhs)
        J = p.fresh_int("J")
        p.assume(And(0 <= J, J < les[-1]))

        class OpsNS(OpsArrayNS):
            @staticmethod
            def unsqueeze(d, dim):
                sh = list(d.shape)
                pos = dim % (len(sh) + 1)
                sh.insert(pos, 1)
                return d.reshape(tuple(sh))

        ns = dict(TENSOR_NS, ops=OpsNS, find_domain=find_domain_model, align_tensors=align_tensors_model, len=len, max=max)
        return Ctx(args=(MatmulM(J), lhs, rhs), namespace=ns, lhs=lhs, rhs=rhs, lbs=lbs, rbs=rbs, les=les, res=res_, st=st, p=p, J=J)

    def may_raise(self, ctx, etype):
        return etype == "ValueError" and max(ctx.st[2], ctx.st[3]) >= 3  # leading event dims that do not broadcast

    def ensures(self, ctx, result):
        ln, rn, le, re_ = ctx.st
        if not isinstance(result, TensorM):
            return [("returns_tensor", False)]
        names = list(ln) + [n for n in rn if n not in ln]
        bsz = [ctx.lbs[n] if n in ctx.lbs else ctx.rbs[n] for n in names]
        cl = [("inputs_are_the_union_in_order", list(result.inputs) == names and And(*[deep_eq(result.inputs[n].dtype, s) for n, s in zip(names, bsz)]))]
        lead_l, lead_r = max(le - 2, 0), max(re_ - 2, 0)
        nlead = max(lead_l, lead_r)
        erank = nlead + (1 if le >= 2 else 0) + (1 if re_ >= 2 else 0)
        if len(result.data.shape) != len(names) + erank:
            return cl + [("event_rank", False)]
        cl.append(("event_rank", True))
        idx = fresh_index(ctx.p, result.data.shape)
        bidx, eidx = idx[: len(names)], list(idx[len(names):])
        lead = eidx[:nlead]
        rest = eidx[nlead:]
        i = rest.pop(0) if le >= 2 else None
        k = rest.pop(0) if re_ >= 2 else None
        J = ctx.J

        def lead_of(esz, nl):
            out = []
            for q in range(nl):
                pos = q + nlead - nl
                out.append(If(deep_eq(esz[q], 1), 0, lead[pos]))
            return tuple(out)

        lb = tuple(bidx[names.index(n)] for n in ln)
        rb = tuple(bidx[names.index(n)] for n in rn)
        l_el = ctx.lhs.data.get(lb + lead_of(ctx.les, lead_l) + ((i, J) if le >= 2 else (J,)))
        r_el = ctx.rhs.data.get(rb + lead_of(ctx.res, lead_r) + ((J, k) if re_ >= 2 else (J,)))
        exp = SV(MMF(core._lift(l_el), core._lift(r_el)))
        cl.append(("every_summand_pairs_the_operands_at_the_same_named_point", Implies(in_range(idx, result.data.shape), result.data.get(idx) == exp)))
        return cl


REDF = "reduced"


class NumericReduce:
    """model of a numeric reduction op(data, dims): records which absolute dimensions were reduced"""

    def __init__(self, name):
        self.name = name

    def __call__(self, data, dims=None, axis=None, keepdims=False):
        if dims is None:
            dims = axis
        if isinstance(dims, int):
            dims = (dims,)
        if dims is None:
            dims = tuple(range(len(data.shape)))
        nd = len(data.shape)
        absd = sorted(set(d % nd for d in dims)) if nd else []
        if keepdims:
            shape = tuple(1 if i in absd else s for i, s in enumerate(data.shape))
        else:
            shape = tuple(s for i, s in enumerate(data.shape) if i not in absd)
        r = SArr(shape, lambda idx: (_ for _ in ()).throw(Unsupported("element of a reduction")))
        r.reduced_from = (data, tuple(absd), keepdims, self.name)
        return r


@register
class TensorEagerReduce(Contract):
    """Tensor.eager_reduce(op, reduced_vars) for a numeric reduction op: the array is reduced over EXACTLY the dimensions
    that carry the reduced names that are inputs of the tensor (names that are not inputs are ignored); the remaining inputs
    keep their order; nothing to reduce returns self.  structure bound: <= 3 inputs (4), event rank <= 1."""

    props = ("C01",)
    file = "funsor/tensor.py"
    qualname = "Tensor.eager_reduce"
    total = True
    mutants = (("positions of the kept names", "d for d, var in enumerate(self.inputs) if var in reduced_vars", "d for d, var in enumerate(self.inputs) if var not in reduced_vars"),)

    def structures(self, tier):
        q = 3 if tier == "quick" else 4
        for n in range(0, q + 1):
            names = NAMES[:n]
            for r in range(0, n + 1):
                for red in itertools.combinations(names, r):
                    for foreign in (False, True):
                        for e in (0, 1):
                            yield "inputs=%s,reduced=%s%s,event=%d" % (names or "-", "".join(red) or "-", "+z" if foreign else "", e), (names, red, foreign, e)

    def build(self, p, st):
        names, red, foreign, e = st
        x, bs, es = mk_tensor(p, tuple(names), e)
        op = NumericReduce("sum")

        class OpKey:
            pass

        opkey = OpKey()
        ns = dict(TENSOR_NS, REDUCE_OP_TO_NUMERIC={opkey: op}, find_domain=find_domain_model, enumerate=enumerate)
        rv = frozenset(red) | (frozenset(["z"]) if foreign else frozenset())
        return Ctx(args=(x, opkey, rv), namespace=ns, x=x, st=st)

    def ensures(self, ctx, result):
        names, red, foreign, e = ctx.st
        if not red:
            return [("nothing_to_reduce_returns_self", result is ctx.x)]
        if not isinstance(result, TensorM) or not hasattr(result.data, "reduced_from"):
            return [("reduces_with_the_numeric_op", False)]
        data, absd, keep, opn = result.data.reduced_from
        exp_dims = tuple(i for i, n in enumerate(names) if n in red)
        kept = [n for n in names if n not in red]
        return [
            ("reduces_exactly_the_dims_of_the_reduced_names", data is ctx.x.data and absd == exp_dims and not keep),
            ("remaining_inputs_in_order", list(result.inputs) == kept and And(*[deep_eq(result.inputs[n], ctx.x.inputs[n]) for n in kept])),
        ]


@register
class EagerReductionTensor(Contract):
    """eager_reduction_tensor(op, arg) (output-shape reductions x.sum(axis, keepdims) ...): for every axis in
    [-ndims, ndims) (or tuple / None) the reduction addresses the intended EVENT dimension -- absolute dimension
    batch_rank + (axis mod ndims) -- never a batch dimension; inputs unchanged.
    structure bound: batch rank <= 2, event rank <= 3, all axis values / pairs."""

    props = ("C01", "C06")
    file = "funsor/tensor.py"
    qualname = "eager_reduction_tensor"
    total = True
    mutants = (("axis not shifted to the event block", "axis = axis % ndims - ndims", "axis = axis % ndims"), ("None reduces everything", "axis = tuple(range(-ndims, 0))", "axis = None"))

    def structures(self, tier):
        for b in (0, 1, 2):
            for e in (0, 1, 2, 3):
                axes = [None] + list(range(-e, e)) + [t for t in itertools.permutations(range(-e, e), 2) if t[0] % max(e, 1) != t[1] % max(e, 1)]
                for ax in axes:
                    for kd in (False, True):
                        yield "batch=%d,event=%d,axis=%s,keepdims=%s" % (b, e, ax, kd), (b, e, ax, kd)

    def build(self, p, st):
        b, e, ax, kd = st
        x, bs, es = mk_tensor(p, tuple(NAMES[:b]), e)
        rec = []

        class Op(NumericReduce):
            defaults = {"axis": ax, "keepdims": kd}

            def __call__(self, data, *a, **k):
                if not a and not k:
                    a = (ax,)
                    k = {"keepdims": kd}  # op(data) applies the op's own defaults
                r = NumericReduce.__call__(self, data, *a, **k)
                rec.append(r)
                return r

        class OpsNS(OpsArrayNS):
            @staticmethod
            def unsqueeze(d, dim):
                assert dim == -1
                return SArr(tuple(d.shape) + (1,), lambda idx: d.get(idx[:-1]))

        ns = dict(TENSOR_NS, ops=OpsNS, find_domain=find_domain_model, isinstance=core.sisinstance, range=range)
        return Ctx(args=(Op("sum"), x), namespace=ns, x=x, st=st, rec=rec)

    def ensures(self, ctx, result):
        b, e, ax, kd = ctx.st
        if not isinstance(result, TensorM) or len(ctx.rec) != 1:
            return [("one_numeric_reduction", False)]
        data, absd, keep, _ = ctx.rec[0].reduced_from
        cl = [("inputs_unchanged", deep_eq(result.inputs, ctx.x.inputs))]
        if e == 0:
            # scalar output: reduces a freshly appended unit dim, leaving every value in place
            return cl + [("scalar_output_reduces_only_an_appended_unit_dim", len(data.shape) == b + 1 and absd == (b,) and data.shape[-1] == 1)]
        want = tuple(range(b, b + e)) if ax is None else tuple(sorted({b + (a % e) for a in ((ax,) if isinstance(ax, int) else ax)}))
        if b == 0 and ax is None:
            want = tuple(range(e))
        cl.append(("reduces_exactly_the_intended_event_dims", data is ctx.x.data and absd == want))
        cl.append(("keepdims_passed_through", keep == kd))
        return cl


# ==================================================================================================
# C04 / C01: Tensor.eager_subs, renaming / slicing branch
# ==================================================================================================
class RecTensorM(TensorM):
    """Tensor constructed inside eager_subs: its recursive eager_subs call is recorded (callee = the same contract)"""

    def eager_subs(self, subs):
        return ("recursive-eager_subs", self, tuple(subs))


RecTensorM.__model_class__ = TensorM


@register
class TensorEagerSubsRename(Contract):
    """Tensor.eager_subs up to and including the renaming / slicing branch.  A Variable or Slice value is either applied
    IN PLACE (the input keeps its position and data; it is renamed to the value's name; a Slice also gives it the slice's
    size and strides the data along exactly that dimension: result.data[idx] == self.data[idx with start + step*i at
    sliced dims]) or it is materialized (to an index tensor) and handed, with the Number pairs, to the recursive call /
    the advanced-indexing path.  Simultaneous-substitution soundness of the in-place route is stated semantically, not by
    copying the code's rule: the intermediate tensor's input names must be pairwise distinct, and no in-place target name
    may coincide with an input that is still to be substituted or that stays -- so f(i='j'), f(i=0, j='i'),
    f(j=Slice('i', ..)) and repeated targets cannot be in-place renames (they are diagonals).  No pair is lost.
    structure bound: <= 3 inputs, event rank <= 1."""

    props = ("C04", "C01", "C05")
    file = "funsor/tensor.py"
    qualname = "Tensor.eager_subs"
    max_paths = 6000
    mutants = (
        ("slice applied to the wrong dimension", "slices[i] = v.slice", "slices[0] = v.slice"),
        ("sliced input keeps its old size", "                        d = v.inputs[v.name]\n", ""),
        ("renaming onto another input's name done in place", "or (v.name != k and v.name in self.inputs)", "or False"),
        ("repeated target names renamed in place", "name_counts[v.name] > 1", "False"),
    )

    KINDS = ["-", "var:x", "var:y", "var:a", "var:b", "slice:x", "slice:a", "num"]

    def structures(self, tier):
        for n in (1, 2, 3):
            names = NAMES[:n]
            for ks in itertools.product(self.KINDS, repeat=n):
                if not any(k.startswith(("var", "slice")) for k in ks):
                    continue
                if any(k in ("var:" + nm,) for k, nm in zip(ks, names)):
                    continue  # renaming a name to itself
                if tier == "quick" and n == 3 and sum(1 for k in ks if k != "-") > 2:
                    continue
                for e in (0, 1):
                    yield "inputs=%s,subs=%s,event=%d" % (names, ",".join(ks), e), (names, ks, e)

    def build(self, p, st):
        names, ks, e = st
        x, bs, es = mk_tensor(p, tuple(names), e)
        subs = []
        ctx = Ctx(namespace=None, x=x, bs=bs, es=es, st=st, p=p, slices={}, ods=[])
        from .c_terms import VariableM, mk_slice_self

        for nm, k in zip(names, ks):
            if k == "-":
                continue
            if k.startswith("var:"):
                subs.append((nm, VariableM(k[4:], x.inputs[nm])))
            elif k.startswith("slice:"):
                s = mk_slice_self(p, k[6:], tag=nm)
                p.assume(s.dtype == bs[nm])
                ctx.slices[nm] = s
                subs.append((nm, s))
            else:
                v = p.fresh_int("num_" + nm)
                p.assume(And(0 <= v, v < bs[nm]))
                subs.append((nm, NumberM(v, bs[nm])))
        ctx.subs = subs
        from .c_terms import SliceM, VariableM
        from collections import Counter

        def to_funsor(v, dom=None):
            return v

        class RecOD(OrderedDict):
            def __init__(self, *a, **k):
                super().__init__(*a, **k)
                ctx.ods.append(self)

        def materialize(v):
            if isinstance(v, (VariableM, SliceM)):
                return ("materialized", v)
            # only the advanced-indexing path materializes other values: the renaming branch was not taken
            raise core._Return(("advanced-indexing-path",))

        ctx.namespace = dict(TENSOR_NS, Tensor=RecTensorM, Variable=VariableM, Slice=SliceM, Counter=Counter, to_funsor=to_funsor, enumerate=enumerate, any=core.sany, slice=slice, list=list, OrderedDict=RecOD)
        x.materialize = materialize
        ctx.args = (x, tuple(subs))
        return ctx

    @staticmethod
    def same_pair(got, orig):
        return got is orig or (isinstance(got, tuple) and len(got) == 2 and got[0] == "materialized" and got[1] is orig)

    def ensures(self, ctx, result):
        names, ks, e = ctx.st
        orig = dict(ctx.subs)
        if isinstance(result, tuple) and result and result[0] == "advanced-indexing-path":
            # the mapping handed on (the 2nd OrderedDict built) must hold every pair, every Variable / Slice materialized
            m = ctx.ods[1] if len(ctx.ods) > 1 else None
            ok = m is not None and list(m) == [k for k, v in ctx.subs] and all(isinstance(m[k], tuple) and m[k][1] is orig[k] if not isinstance(orig[k], NumberM) else m[k] is orig[k] for k in m)
            return [("no_pair_lost_every_rename_materialized", ok)]
        ok = isinstance(result, tuple) and result[0] == "recursive-eager_subs" and isinstance(result[1], TensorM)
        if not ok:
            return [("renames_then_recurses", False)]
        t, rest = result[1], result[2]
        rest_keys = [k for k, v in rest]
        inplace = [nm for nm, k in zip(names, ks) if ":" in k and nm not in rest_keys]
        cl = [("no_pair_lost", rest_keys == [nm for nm, k in zip(names, ks) if k != "-" and nm not in inplace] and all(self.same_pair(v, orig[k]) and (isinstance(v, tuple) or isinstance(orig[k], NumberM)) for k, v in rest))]
        exp_names = [k.split(":")[1] if nm in inplace else nm for nm, k in zip(names, ks)]
        exp_sizes = [ctx.slices[nm].size if nm in ctx.slices and nm in inplace else ctx.bs[nm] for nm in names]
        cl.append(("in_place_targets_distinct_from_every_other_input", len(set(exp_names)) == len(exp_names)))
        cl.append(("inputs_renamed_in_place", list(t.inputs) == exp_names and And(*[deep_eq(t.inputs[n].dtype, s) for n, s in zip(exp_names, exp_sizes)])))
        shape = tuple(exp_sizes) + ctx.es
        if len(t.data.shape) == len(shape):
            idx = fresh_index(ctx.p, shape)
            src = tuple(ctx.slices[nm].slice.start + ctx.slices[nm].slice.step * i if nm in ctx.slices and nm in inplace else i for nm, i in zip(names, idx)) + tuple(idx[len(names):])
            cl.append(("every_value_stays_with_its_renamed_input", Implies(in_range(idx, shape), t.data.get(idx) == ctx.x.data.get(src))))
        else:
            cl.append(("every_value_stays_with_its_renamed_input", False))
        return cl

    def may_raise(self, ctx, etype):
        return False  # well-typed substitutions of this shape always go through (C04 after the repair)

    def allow_vacuous(self, st):
        return False


@register
class TensorEagerSubsAdvanced(Contract):
    """Tensor.eager_subs, advanced-indexing path (every value a Number or an integer Tensor; Variables and Slices are the
    other contract's): the result is the SIMULTANEOUS substitution in the caller's environment --
      inputs: walking self's inputs in order, a substituted input is replaced by the inputs of its value (none for a
        Number), an unsubstituted one stays; a name met twice keeps its first position;
      for EVERY index  result.data[idx] == self.data[c_1, .., c_n, event idx]  where c_k is the Number, or the value tensor read
        at ITS OWN named coordinates of idx, or idx's coordinate of the unsubstituted input k.
    A value may mention any caller-side name: a new one, an unsubstituted input of self (diagonal), another value's input
    (shared), even the very name it is substituted for (x(a=T(a)): T's a is the caller's, of any size).
    structure bound: self has <= 2 inputs, event rank <= 1; value tensors have <= 2 inputs."""

    props = ("C01", "C04", "C05")
    file = "funsor/tensor.py"
    qualname = "Tensor.eager_subs"
    total = True
    max_paths = 4000
    timeout_ms = 30000
    mutants = (
        ("value dims laid out in the value's own order", "                        v_shape[new_dims[k2]] = size", "                        v_shape[list(v.inputs).index(k2) - len(v.inputs) - len(self.output.shape)] = size"),
        ("preserved input placed one dim off", "                offset_from_right = -1 - new_dims[k]", "                offset_from_right = -new_dims[k]"),
        ("values aligned by position instead of by name", "                    v = v.align(tuple(k2 for k2 in inputs if k2 in v.inputs))", "                    v = v"),
        ("boolean value data used as a mask (pinned-tree behaviour)", "index.append(_as_index(v.data).reshape(tuple(v_shape)))", "index.append(v.data.reshape(tuple(v_shape)))"),
    )

    VALS = ["", "a", "b", "c", "ca", "ac", "cd"]

    def structures(self, tier):
        for names in ("a", "ab"):
            kinds = ["-", "num"] + ["ten:" + v for v in self.VALS] + ["bool:c", "bool:"]
            for ks in itertools.product(kinds, repeat=len(names)):
                if all(k == "-" for k in ks):
                    continue
                if tier == "quick" and len(names) == 2 and sum(len(k) for k in ks if k.startswith(("ten:", "bool:"))) > 10:
                    continue
                for e in (0, 1):
                    yield "inputs=%s,subs=%s,event=%d" % (names, ",".join(ks), e), (names, ks, e)

    def build(self, p, st):
        names, ks, e = st
        cs = {}  # sizes of caller-side names

        def csize(n):
            if n not in cs:
                v = p.fresh_int("size_" + n)
                p.assume(v >= 1)
                cs[n] = v
            return cs[n]

        bsz = []
        for nm, k in zip(names, ks):
            if k == "-":
                bsz.append(csize(nm))
            else:
                v = p.fresh_int("keysize_" + nm)
                p.assume(v >= 1)
                bsz.append(v)
        es = sizes(p, e, "x_e")
        x = TensorM.__new__(TensorM)
        x.inputs = OrderedDict((n, MDom(sz, ())) for n, sz in zip(names, bsz))
        x.output = MDom("real", tuple(es))
        x.dtype = "real"
        x.data = fresh_array(p, "x", tuple(bsz) + tuple(es))
        x.materialize = lambda v: v

        class ValT(TensorM):
            def align(self, order):
                order = tuple(order)
                if order == tuple(self.inputs):
                    return self
                perm = tuple(list(self.inputs).index(n) for n in order)
                r = ValT.__new__(ValT)
                r.inputs = OrderedDict((n, self.inputs[n]) for n in order)
                r.output, r.dtype = self.output, self.dtype
                r.data = permute(self.data, perm)
                return r

        ValT.__model_class__ = TensorM
        subs, vals = [], {}
        for nm, k, ksz in zip(names, ks, bsz):
            if k == "-":
                continue
            if k == "num":
                v = p.fresh_int("num_" + nm)
                p.assume(And(0 <= v, v < ksz))
                val = NumberM(v, ksz)
            else:
                vn = k.split(":")[1]
                if k.startswith("bool:"):
                    p.assume(ksz == 2)  # a boolean array is the data of a Bint[2]-valued tensor
                F = z3.Function("V_%s!%d" % (nm, next(p.counter)), *([z3.IntSort()] * len(vn) + [z3.IntSort()]))

                def vget(idx, F=F, ksz=ksz, vn=vn):
                    r = SV(F(*[core._lift(i) for i in idx])) if vn else SV(F())
                    p.assume(And(0 <= r, r < ksz))  # typed: the value's output is Bint[size of the substituted input]
                    return r

                val = ValT.__new__(ValT)
                val.inputs = OrderedDict((n, MDom(csize(n), ())) for n in vn)
                val.output = MDom(ksz, ())
                val.dtype = ksz
                val.data = SArr(tuple(csize(n) for n in vn), vget, "bool" if k.startswith("bool:") else "int")
            subs.append((nm, val))
            vals[nm] = val
        from collections import Counter
        from .c_terms import SliceM, VariableM

        as_index, _ = core.make_callable(core.locate("funsor/tensor.py", "_as_index"), dict(ops=OpsArrayNS, str=str))
        ns = dict(TENSOR_NS, Tensor=TensorM, Variable=VariableM, Slice=SliceM, Counter=Counter, to_funsor=lambda v, d=None: v, enumerate=enumerate, any=core.sany, slice=slice, list=list, tuple=tuple, zip=zip, len=len, int=lambda v: v, _as_index=as_index)
        return Ctx(args=(x, tuple(subs)), namespace=ns, x=x, vals=vals, cs=cs, bsz=bsz, es=tuple(es), st=st, p=p)

    def ensures(self, ctx, result):
        names, ks, e = ctx.st
        if not isinstance(result, TensorM):
            return [("returns_tensor", False)]
        exp = []
        for nm, k in zip(names, ks):
            for n in ([nm] if k == "-" else ([] if k == "num" else list(k.split(":")[1]))):
                if n not in exp:
                    exp.append(n)
        shape = tuple(ctx.cs[n] for n in exp) + ctx.es
        cl = [("inputs_are_unsubstituted_inputs_and_value_inputs", list(result.inputs) == exp and And(*[deep_eq(result.inputs[n].dtype, ctx.cs[n]) for n in exp])), ("shape", len(result.data.shape) == len(shape) and deep_eq(tuple(result.data.shape), shape))]
        if len(result.data.shape) == len(shape):
            idx = fresh_index(ctx.p, shape)
            b = {n: idx[i] for i, n in enumerate(exp)}
            coords = []
            for nm, k in zip(names, ks):
                if k == "-":
                    coords.append(b[nm])
                elif k == "num":
                    coords.append(ctx.vals[nm].data)
                else:
                    coords.append(ctx.vals[nm].data.get(tuple(b[n] for n in k.split(":")[1])))
            cl.append(("simultaneous_substitution_at_every_index", Implies(in_range(idx, shape), result.data.get(idx) == ctx.x.data.get(tuple(coords) + tuple(idx[len(exp):])))))
        return cl


# ==================================================================================================
# C01: indexing, stacking, concatenation, Lambda on Tensors
# ==================================================================================================
class GetOp:
    def __init__(self, **d):
        self.defaults = d


@register
class EagerGetitemTensorNumber(Contract):
    """eager_getitem_tensor_number: x[..., n] at event position `offset` (n a Number in range): result.data[idx] ==
    x.data[batch idx, event idx with n inserted at `offset`]; inputs unchanged -- the integer addresses the EVENT dimension
    `offset`, after all batch dimensions. structure bound: batch rank <= 2, event rank 1..3, every offset."""

    props = ("C01",)
    file = "funsor/tensor.py"
    qualname = "eager_getitem_tensor_number"
    total = True
    mutants = (("offset counted from the batch start", "index = [slice(None)] * (len(lhs.inputs) + offset)", "index = [slice(None)] * offset"),)

    def structures(self, tier):
        for b in (0, 1, 2):
            for e in (1, 2, 3):
                for off in range(e):
                    yield "batch=%d,event=%d,offset=%d" % (b, e, off), (b, e, off)

    def build(self, p, st):
        b, e, off = st
        x, bs, es = mk_tensor(p, tuple(NAMES[:b]), e)
        n = p.fresh_int("n")
        p.assume(And(0 <= n, n < es[off]))
        return Ctx(args=(GetOp(offset=off), x, NumberM(n, es[off])), namespace=dict(TENSOR_NS, slice=slice, tuple=tuple), x=x, n=n, st=st, es=es, bs=bs, p=p)

    def ensures(self, ctx, result):
        b, e, off = ctx.st
        if not isinstance(result, TensorM):
            return [("returns_tensor", False)]
        shape = tuple(ctx.x.data.shape[:b]) + tuple(s for k, s in enumerate(ctx.es) if k != off)
        cl = [("inputs_unchanged", deep_eq(result.inputs, ctx.x.inputs)), ("shape", deep_eq(tuple(result.data.shape), shape))]
        if len(result.data.shape) == len(shape):
            idx = fresh_index(ctx.p, shape)
            src = tuple(idx[:b]) + tuple(idx[b:b + off]) + (ctx.n,) + tuple(idx[b + off:])
            cl.append(("reads_the_intended_event_dimension", Implies(in_range(idx, shape), result.data.get(idx) == ctx.x.data.get(src))))
        return cl


@register
class EagerGetitemTensorVariable(Contract):
    """eager_getitem_tensor_variable: x[..., v] with v a Variable at event position `offset`.
    v fresh: that event dimension becomes a new LAST input named v: result.data[batch idx, i, remaining event idx] ==
    x.data[batch idx, event idx with i at `offset`].
    v named like a batch input of x (the diagonal x(i)[..., i]): the call is handed to eager_getitem_tensor_tensor with v
    materialized by x.materialize (callee contract: EagerGetitemTensorTensor, which reads each operand at its own named
    coordinates) -- it must not be renamed in place and must not raise.
    structure bound: batch rank <= 2, event rank 1..3, every offset."""

    props = ("C01",)
    file = "funsor/tensor.py"
    qualname = "eager_getitem_tensor_variable"
    total = True
    mutants = (
        ("source and target swapped", "        del perm[source_dim]\n        perm.insert(target_dim, source_dim)", "        del perm[target_dim]\n        perm.insert(source_dim, target_dim)"),
        ("index variable named like an input renamed in place", "    if rhs.name in lhs.inputs:", "    if False:"),
    )

    def structures(self, tier):
        for b in (0, 1, 2):
            for e in (1, 2, 3):
                for off in range(e):
                    yield "batch=%d,event=%d,offset=%d" % (b, e, off), (b, e, off, None)
                    for c in range(b):
                        yield "batch=%d,event=%d,offset=%d,index-named-like-input-%d" % (b, e, off, c), (b, e, off, c)

    def build(self, p, st):
        b, e, off, c = st
        x, bs, es = mk_tensor(p, tuple(NAMES[:b]), e)
        from .c_terms import VariableM

        v = VariableM("v" if c is None else NAMES[c], MDom(es[off], ()))
        if c is not None:
            p.assume(bs[NAMES[c]] == es[off])  # typed: one name, one domain
        calls = []
        x.materialize = lambda t: ("materialized", t)

        def callee(op, lhs, rhs):
            calls.append((op, lhs, rhs))
            return ("eager_getitem_tensor_tensor", len(calls) - 1)

        return Ctx(args=(GetOp(offset=off), x, v), namespace=dict(TENSOR_NS, list=list, range=range, eager_getitem_tensor_tensor=callee), x=x, v=v, st=st, es=es, bs=bs, p=p, calls=calls)

    def ensures(self, ctx, result):
        b, e, off, c = ctx.st
        if c is not None:
            ok = result == ("eager_getitem_tensor_tensor", 0) and len(ctx.calls) == 1 and ctx.calls[0][0] is ctx.args[0] and ctx.calls[0][1] is ctx.x and isinstance(ctx.calls[0][2], tuple) and ctx.calls[0][2][1] is ctx.v
            return [("diagonal_delegated_to_tensor_indexing", bool(ok))]
        if not isinstance(result, TensorM):
            return [("returns_tensor", False)]
        names = list(NAMES[:b]) + ["v"]
        shape = tuple(ctx.x.data.shape[:b]) + (ctx.es[off],) + tuple(s for k, s in enumerate(ctx.es) if k != off)
        cl = [("new_input_appended_last", list(result.inputs) == names and deep_eq(result.inputs["v"].dtype, ctx.es[off])), ("shape", deep_eq(tuple(result.data.shape), shape))]
        if len(result.data.shape) == len(shape):
            idx = fresh_index(ctx.p, shape)
            ev = list(idx[b + 1:])
            ev.insert(off, idx[b])
            cl.append(("event_dimension_becomes_the_named_input", Implies(in_range(idx, shape), result.data.get(idx) == ctx.x.data.get(tuple(idx[:b]) + tuple(ev)))))
        return cl


@register
class EagerLambda(Contract):
    """eager_lambda(var, expr): Lambda binds var and makes it the new LEADING event dimension:
    result.data[batch idx (without var), i, event idx] == expr.data at var=i (or expr.data itself, broadcast, when expr does
    not mention var); inputs = expr's inputs without var, order kept. structure bound: <= 3 inputs, event rank <= 1."""

    props = ("C01",)
    file = "funsor/tensor.py"
    qualname = "eager_lambda"
    total = True
    mutants = (("new dim placed first", "data = data.reshape(shape[:dim] + (1,) + shape[dim:])\n        data = ops.expand(data, shape[:dim] + (var.dtype,) + shape[dim:])", "data = data.reshape((1,) + shape)\n        data = ops.expand(data, (var.dtype,) + shape)"),)

    def structures(self, tier):
        for n in (0, 1, 2, 3):
            names = NAMES[:n]
            for vpos in [None] + list(range(n)):
                for e in (0, 1):
                    yield "inputs=%s,var=%s,event=%d" % (names or "-", "absent" if vpos is None else names[vpos], e), (names, vpos, e)

    def build(self, p, st):
        names, vpos, e = st
        x, bs, es = mk_tensor(p, tuple(names), e)
        from .c_terms import VariableM

        if vpos is None:
            n = p.fresh_int("vs")
            p.assume(n >= 1)
            v = VariableM("v", MDom(n, ()))
        else:
            v = VariableM(names[vpos], x.inputs[names[vpos]])
        v.dtype = v.output.dtype
        x.dtype = "real"

        def align_tensor_model(new_inputs, t, expand=False):
            _, (arr,) = align_tensors_model(_Wrap(new_inputs), t)[0], [None]
            return None

        from . import c_tensor as me

        loc = core.locate("funsor/tensor.py", "align_tensor")
        at, _ = core.make_callable(loc, TENSOR_NS)  # align_tensor through its own (proved) body: same file, under contract
        return Ctx(args=(v, x), namespace=dict(TENSOR_NS, align_tensor=at), x=x, v=v, st=st, bs=bs, es=es, p=p)

    def ensures(self, ctx, result):
        names, vpos, e = ctx.st
        if not isinstance(result, TensorM):
            return [("returns_tensor", False)]
        kept = [n for k, n in enumerate(names) if k != vpos]
        vsize = ctx.v.output.dtype
        shape = tuple(ctx.bs[n] for n in kept) + (vsize,) + ctx.es
        cl = [("inputs_without_the_bound_variable", list(result.inputs) == kept), ("shape", deep_eq(tuple(result.data.shape), shape))]
        if len(result.data.shape) == len(shape):
            idx = fresh_index(ctx.p, shape)
            val = {n: idx[k] for k, n in enumerate(kept)}
            if vpos is not None:
                val[names[vpos]] = idx[len(kept)]
            src = tuple(val[n] for n in names) + tuple(idx[len(kept) + 1:])
            cl.append(("bound_variable_becomes_leading_event_dim", Implies(in_range(idx, shape), result.data.get(idx) == ctx.x.data.get(src))))
        return cl


class _Wrap:
    def __init__(self, inputs):
        self.inputs = inputs


@register
class EagerStackHomogeneous(Contract):
    """eager_stack_homogeneous(name, *parts): result.inputs = name (size = number of parts) followed by the union of the
    parts' inputs; result.data[k, batch idx, event idx] == part k at the same named point (parts lacking an input are
    broadcast along it). structure bound: <= 3 parts over <= 2 names, event rank <= 1."""

    props = ("C01",)
    file = "funsor/tensor.py"
    qualname = "eager_stack_homogeneous"
    max_paths = 6000
    mutants = (("parts stacked in reverse", "for part in parts]\n    )", "for part in reversed(parts)]\n    )"),)

    def structures(self, tier):
        pool = ["", "a", "b", "ab", "ba"]
        for n in (1, 2, 3):
            for ins in itertools.product(pool, repeat=n):
                if tier == "quick" and n == 3 and len(set(ins)) > 2:
                    continue
                for e in (0, 1):
                    yield "parts=%s,event=%d" % ([i or "-" for i in ins], e), (ins, e)

    def build(self, p, st):
        ins, e = st
        es = tuple(sizes(p, e, "e"))
        gs = {}
        parts = []
        for k, names in enumerate(ins):
            bs = []
            for nm in names:
                if nm not in gs:
                    s = p.fresh_int("g_" + nm)
                    p.assume(s >= 1)
                    gs[nm] = s
                bs.append(gs[nm])
            t = TensorM.__new__(TensorM)
            t.inputs = OrderedDict((nm, MDom(gs[nm], ())) for nm in names)
            t.output = MDom("real", es)
            t.dtype = "real"
            t.data = fresh_array(p, "part%d" % k, tuple(bs) + es)
            parts.append(t)
        loc = core.locate("funsor/tensor.py", "align_tensor")
        at, _ = core.make_callable(loc, TENSOR_NS)
        return Ctx(args=("s",) + tuple(parts), namespace=dict(TENSOR_NS, align_tensor=at, len=len), parts=parts, gs=gs, es=es, st=st, p=p)

    def may_raise(self, ctx, etype):
        return False

    total = True

    def ensures(self, ctx, result):
        ins, e = ctx.st
        if not isinstance(result, TensorM):
            return [("returns_tensor", False)]
        union = []
        for names in ins:
            for nm in names:
                if nm not in union:
                    union.append(nm)
        shape = (len(ins),) + tuple(ctx.gs[n] for n in union) + ctx.es
        cl = [("inputs_name_then_union", list(result.inputs) == ["s"] + union and deep_eq(result.inputs["s"].dtype, len(ins))), ("shape", deep_eq(tuple(result.data.shape), shape))]
        if len(result.data.shape) == len(shape):
            idx = fresh_index(ctx.p, shape)
            vals = []
            for t, names in zip(ctx.parts, ins):
                vals.append(t.data.get(tuple(idx[1 + union.index(nm)] for nm in names) + tuple(idx[1 + len(union):])))
            from .arrays import select

            cl.append(("element_k_is_part_k_at_the_same_point", Implies(in_range(idx, shape), result.data.get(idx) == select(idx[0], vals))))
        return cl


@register
class EagerCatHomogeneous(Contract):
    """eager_cat_homogeneous(name, part_name, *parts) for Tensors: result.inputs = name (size = sum of the parts' sizes along
    part_name) followed by the union of the parts' OTHER inputs (first-appearance order); for EVERY index
      result.data[t, other idx, event idx] == part_j.data at the same named point with part_name = t - (sizes of parts before j)
    where j is the part whose segment contains t (parts lacking an input are broadcast along it).
    structure bound: <= 3 parts, each over part_name and <= 2 other names in any order, event rank <= 1; sizes symbolic."""

    props = ("C01",)
    file = "funsor/tensor.py"
    qualname = "eager_cat_homogeneous"
    max_paths = 6000
    total = True
    mutants = (
        ("parts concatenated in reverse", "    tensor = ops.cat(tensors, dim)", "    tensor = ops.cat(tensors[::-1], dim)"),
        ("every part expanded to the last part's length", "        inputs[part_name] = part.inputs[part_name]\n        shape", "        inputs[part_name] = parts[-1].inputs[part_name]\n        shape"),
    )

    def structures(self, tier):
        pool = ["t", "ta", "at", "tab", "bta", "tb"]
        for n in (1, 2, 3):
            for ins in itertools.product(pool, repeat=n):
                if tier == "quick" and n == 3 and (len(set(ins)) > 2 or any(len(i) > 2 for i in ins)):
                    continue
                for nm in ("t", "s"):
                    for e in (0, 1):
                        yield "parts=%s,name=%s,event=%d" % (list(ins), nm, e), (ins, nm, e)

    def build(self, p, st):
        ins, nm, e = st
        es = tuple(sizes(p, e, "e"))
        gs = {}
        parts, tsz = [], []
        for k, names in enumerate(ins):
            bs = []
            for n_ in names:
                if n_ == "t":
                    s = p.fresh_int("t_%d" % k)
                    p.assume(s >= 1)
                    tsz.append(s)
                    bs.append(s)
                    continue
                if n_ not in gs:
                    s = p.fresh_int("g_" + n_)
                    p.assume(s >= 1)
                    gs[n_] = s
                bs.append(gs[n_])
            t = TensorM.__new__(TensorM)
            t.inputs = OrderedDict((n_, MDom(b, ())) for n_, b in zip(names, bs))
            t.output = MDom("real", es)
            t.dtype = "real"
            t.data = fresh_array(p, "part%d" % k, tuple(bs) + es)
            parts.append(t)
        loc = core.locate("funsor/tensor.py", "align_tensor")
        at, _ = core.make_callable(loc, TENSOR_NS)
        return Ctx(args=(nm, "t") + tuple(parts), namespace=dict(TENSOR_NS, align_tensor=at, len=len, list=list, tuple=tuple), parts=parts, gs=gs, tsz=tsz, es=es, st=st, p=p)

    def ensures(self, ctx, result):
        ins, nm, e = ctx.st
        if not isinstance(result, TensorM):
            return [("returns_tensor", False)]
        union = []
        for names in ins:
            for n_ in names:
                if n_ != "t" and n_ not in union:
                    union.append(n_)
        total = ctx.tsz[0]
        for s in ctx.tsz[1:]:
            total = total + s
        shape = (total,) + tuple(ctx.gs[n_] for n_ in union) + ctx.es
        cl = [("inputs_name_then_union_of_other_inputs", list(result.inputs) == [nm] + union and deep_eq(result.inputs[nm].dtype, total)), ("shape", len(result.data.shape) == len(shape) and deep_eq(tuple(result.data.shape), shape))]
        if len(result.data.shape) == len(shape):
            idx = fresh_index(ctx.p, shape)
            t = idx[0]
            expected = None
            off = 0
            segs = []
            for part, names, sz in zip(ctx.parts, ins, ctx.tsz):
                val = part.data.get(tuple((t - off) if n_ == "t" else idx[1 + union.index(n_)] for n_ in names) + tuple(idx[1 + len(union):]))
                segs.append((off, off + sz, val))
                off = off + sz
            conds = [Implies(And(in_range(idx, shape), lo <= t, t < hi), result.data.get(idx) == val) for lo, hi, val in segs]
            cl.append(("each_position_reads_its_own_part_at_the_same_named_point", And(*conds)))
        return cl


# ==================================================================================================
# C14: Tensor._sample -- input partition and mixed-radix decoding of the flat categorical sample
# ==================================================================================================
def _sarr_elementwise(self, other, f):
    g = self.get
    return SArr(self.shape, lambda idx: f(g(idx), other), self.dtype)


SArr.__mod__ = lambda self, o: _sarr_elementwise(self, o, lambda a, b: core.mod(a, b))
SArr.__floordiv__ = lambda self, o: _sarr_elementwise(self, o, lambda a, b: core.floordiv(a, b))


@register
class TensorSample(Contract):
    """Tensor._sample(sampled_vars, sample_inputs, rng_key) (numpy backend; the categorical draw itself is opaque: ANY flat
    sample with 0 <= flat < product of the sampled sizes, per sample/batch element):
      partition: the result mentions sample inputs (those not already inputs) ++ batch inputs (not sampled) as the inputs of
        every sampled point; logits are aligned as batch ++ sampled and flattened over the sampled dims;
      mixed radix: with sampled inputs e_1..e_m of sizes n_1..n_m (in the tensor's order) the points p_j decoded from the
        flat index satisfy 0 <= p_j < n_j (they lie in the support, typed Bint[n_j]) and
        flat == sum_j p_j * prod_{l>j} n_l -- i.e. they are the row-major coordinates of the drawn cell, so each Delta points
        at the cell whose probability was used;
      one Delta per sampled variable plus the log-normaliser Tensor over the batch inputs, summed.
    structure bound: <= 3 inputs, <= 3 sampled, <= 1 extra sample input."""

    props = ("C14",)
    file = "funsor/tensor.py"
    qualname = "Tensor._sample"
    timeout_ms = 30000
    total = True
    mutants = (
        ("decoded in forward order", "for name, domain in reversed(list(event_inputs.items())):", "for name, domain in list(event_inputs.items()):"),
        ("quotient and remainder swapped", "            point = Tensor(mod_sample % size, sb_inputs, size)\n            mod_sample = mod_sample // size", "            point = Tensor(mod_sample // size, sb_inputs, size)\n            mod_sample = mod_sample % size"),
        ("normaliser over all inputs", "results.append(Tensor(ops.logsumexp(flat_logits, -1), batch_inputs))", "results.append(Tensor(ops.logsumexp(flat_logits, -1), sb_inputs))"),
    )

    def structures(self, tier):
        ms = 3
        for n in (1, 2, 3):
            names = NAMES[:n]
            for r in range(1, min(n, ms) + 1):
                for sampled in itertools.combinations(names, r):
                    for extra in (False, True):
                        yield "inputs=%s,sampled=%s,sample_input=%s" % (names, "".join(sampled), extra), (names, sampled, extra)

    def build(self, p, st):
        names, sampled, extra = st
        x, bs, es = mk_tensor(p, tuple(names), 0)
        x.output = M.Real
        ctx = Ctx(namespace=None, x=x, bs=bs, st=st, p=p, deltas=[], flat=None)
        sample_inputs = OrderedDict()
        if extra:
            s = p.fresh_int("particles")
            p.assume(s >= 1)
            sample_inputs["particle"] = MDom(s, ())
            ctx.particles = s
        sample_inputs[names[0]] = MDom(7, ())  # a sample input that is already an input must be ignored

        class Flat(SArr):
            pass

        def reshape_flatten(arr, shape):
            # logits.reshape(batch_shape + (-1,)): row-major flattening of the trailing (sampled) dims
            nb = len(shape) - 1
            tail = arr.shape[nb:]
            total = 1
            for s in tail:
                total = total * s
            f = Flat(tuple(arr.shape[:nb]) + (total,), lambda idx: (_ for _ in ()).throw(Unsupported("element of flattened logits")))
            f.tail, f.src, f.nb = tail, arr, nb
            return f

        orig_reshape = SArr.reshape

        class Logits(SArr):
            def reshape(self, *shape):
                if len(shape) == 1 and isinstance(shape[0], tuple):
                    shape = shape[0]
                if shape and shape[-1] == -1:
                    return reshape_flatten(self, shape)
                return orig_reshape(self, *shape)

        loc = core.locate("funsor/tensor.py", "align_tensor")
        at_real, _ = core.make_callable(loc, TENSOR_NS)

        def at(inputs, t, expand=False):
            r = at_real(inputs, t, expand=expand)
            l = Logits(r.shape, r.get)
            ctx.logits = (l, list(inputs))
            return l

        class NP:
            @staticmethod
            def amax(a, axis, keepdims=False):
                return ("amax", a)

            @staticmethod
            def exp(a):
                return ("exp", a)

            @staticmethod
            def sum(a, axis=None, keepdims=False):
                if isinstance(a, tuple) and a[0] == "lt":
                    # flat_sample = np.sum(s < r[..., None], -1): the categorical draw: any flat index in range
                    shape = a[1]
                    N = ctx.flat_logits.shape[-1]
                    F = z3.Function("flat!%d" % next(p.counter), *([z3.IntSort()] * len(shape) + [z3.IntSort()]))

                    def get(idx):
                        v = SV(F(*[core._lift(i) for i in idx])) if shape else SV(F())
                        p.assume(And(0 <= v, v < N))
                        return v

                    ctx.flat = SArr(tuple(shape), get)
                    return ctx.flat
                return ("sum", a)

            @staticmethod
            def cumsum(a, axis):
                return ("cumsum", a)

            class random:
                @staticmethod
                def rand(*shape):
                    return ("rand", shape)

            @staticmethod
            def expand_dims(a, axis):
                return a

        class Tup(tuple):
            """opaque numeric intermediates: support the arithmetic the code applies to them"""

        def opaque_arith(name):
            return lambda a, b=None: ("arith", name)

        class Opq(tuple):
            def __sub__(self, o):
                return Opq(("sub",))

            def __truediv__(self, o):
                return Opq(("div",))

            def __lt__(self, o):
                return ("lt", o[1]) if isinstance(o, tuple) and o[0] == "rand" else Opq(("lt",))

            def __sym_compare__(self, opname, o):
                return self.__lt__(o)

            def __add__(self, o):
                return Opq(("add",))

            __radd__ = __add__

            def __sym_getitem__(self, idx):
                return Opq(("getitem",))

        NP.amax = staticmethod(lambda a, axis, keepdims=False: Opq(("amax",)))
        NP.exp = staticmethod(lambda a: Opq(("exp",)))
        NP.cumsum = staticmethod(lambda a, axis: Opq(("cumsum",)))
        NP.log = staticmethod(lambda a: Opq(("log",)))
        _sum = NP.sum

        def np_sum(a, axis=None, keepdims=False):
            if isinstance(a, tuple) and len(a) == 2 and a[0] == "lt":
                return _sum(a, axis, keepdims)
            return Opq(("sum",))

        NP.sum = staticmethod(np_sum)

        class FlatLogits:
            pass

        # flat_logits - logit_max etc. operate on the Flat array: give it opaque arithmetic
        Flat.__sub__ = lambda self, o: Opq(("sub",))

        def Delta(name, point):
            ctx.deltas.append((name, point))
            return ("Delta", name)

        class OpsNS(OpsArrayNS):
            add = "add"

            @staticmethod
            def logsumexp(a, axis):
                return ("logsumexp", a)

        def TensorRec(data, inputs=None, dtype="real"):
            if isinstance(data, tuple) and data and data[0] == "logsumexp":
                ctx.normalizer = (data[1], list(inputs))
                return ("Normalizer",)
            return TensorM(data, inputs, dtype)

        def reduce_(f, xs):
            return ("sum-of", list(xs))

        def set_flat(v):
            ctx.flat_logits = v
            return v

        ns = dict(TENSOR_NS, align_tensor=at, get_backend=lambda: "numpy", np=NP, Delta=Delta, Tensor=TensorRec, ops=OpsNS, reduce=reduce_, Real=M.Real, reversed=reversed, list=list, int=core.sint)
        ctx.namespace = ns
        ctx.args = (x, frozenset(sampled) | frozenset(["zzz"]), sample_inputs, None)
        ctx.set_flat = set_flat
        return ctx

    def hooks(self, ctx):
        # remember flat_logits when it is assigned (needed by the model of the categorical draw)
        def setattr_hook(obj, attr, v):
            return False

        return {}

    def entry(self, loc, ctx):
        f, interp = core.make_callable(loc, ctx.namespace, self.hooks(ctx))
        orig_assign = interp.assign

        def assign(t, v, sc):
            import ast as _ast

            if isinstance(t, _ast.Name) and t.id == "flat_logits":
                ctx.flat_logits = v
            return orig_assign(t, v, sc)

        interp.assign = assign
        return f, interp

    def ensures(self, ctx, result):
        names, sampled, extra = ctx.st
        batch = [n for n in names if n not in sampled]
        sb = (["particle"] if extra else []) + batch
        cl = []
        l, lin = ctx.logits
        cl.append(("logits_aligned_batch_then_sampled", lin == batch + list(sampled)))
        fl = ctx.flat_logits
        cl.append(("flattened_over_exactly_the_sampled_dims", getattr(fl, "nb", None) == len(batch) and fl.src is l))
        cl.append(("one_delta_per_sampled_variable", sorted(n for n, _ in ctx.deltas) == sorted(sampled)))
        norm = getattr(ctx, "normalizer", None)
        cl.append(("normaliser_over_the_batch_inputs", norm is not None and norm[0] is fl and norm[1] == batch))
        if ctx.flat is None or len(ctx.deltas) != len(sampled):
            return cl + [("decoding_checked", False)]
        pts = dict(ctx.deltas)
        ok_inputs = all(isinstance(pt, TensorM) and list(pt.inputs) == sb for pt in pts.values())
        cl.append(("points_indexed_by_sample_then_batch_inputs", ok_inputs))
        if not ok_inputs:
            return cl
        shape = ctx.flat.shape
        idx = fresh_index(ctx.p, shape)
        flat = ctx.flat.get(idx)
        total = 0
        rng = []
        for j, n in enumerate(sampled):
            pj = pts[n].data.get(idx)
            w = 1
            for m in sampled[j + 1:]:
                w = w * ctx.bs[m]
            total = total + pj * w
            rng.append(And(0 <= pj, pj < ctx.bs[n], deep_eq(pts[n].output.dtype, ctx.bs[n])))
        cl.append(("points_lie_in_the_support", Implies(in_range(idx, shape), And(*rng))))
        cl.append(("points_are_the_row_major_coordinates_of_the_drawn_cell", Implies(in_range(idx, shape), flat == total)))
        return cl

    def hints(self, ctx, path):
        from .c_domains import div_hints
        from .c_terms import mul_hints

        return div_hints(path) + mul_hints(path)


@register
class EagerEinsum(Contract):
    """eager_einsum(op, operands): every named input gets a FRESH einsum symbol -- pairwise distinct and different from
    every symbol of the user's equation, whatever letters the equation uses -- each operand's subscripts are its input
    symbols (in its own input order) followed by its event subscripts, and the output subscripts are all input symbols (in
    union order) followed by the equation's output; so named dims are batched, never contracted or diagonalised with an
    event index. opt_einsum.get_symbol is modelled as the injective enumeration a, b, c, ...
    structure bound: <= 2 operands, <= 3 named inputs, equations over letters anywhere in the alphabet."""

    props = ("C01",)
    file = "funsor/tensor.py"
    qualname = "eager_einsum"
    total = True
    mutants = (("fresh symbols assumed to follow the equation's", "        symbol = next(get_symbol)\n        while symbol in symbols:\n            symbol = next(get_symbol)\n", "        symbol = next(get_symbol)\n"),)

    EQS = ["ab,bc->ac", "bi,io->bo", "ij,jk->ik", "a,a->", "ca,ab->cb", "zy,yx->zx", "ab->ba", "ba->a"]

    def structures(self, tier):
        for eq in self.EQS:
            nops = eq.split("->")[0].count(",") + 1
            pools = ["", "u", "uv", "vu", "uvw"]
            for ins in itertools.product(pools, repeat=nops):
                if tier == "quick" and sum(map(len, ins)) > 4:
                    continue
                yield "eq=%s,inputs=%s" % (eq, [i or "-" for i in ins]), (eq, ins)

    def build(self, p, st):
        eq, ins = st
        rec = []

        class X:
            def __init__(self, names, k):
                self.inputs = OrderedDict((n, "dom_" + n) for n in names)
                self.data = "data%d" % k

        operands = tuple(X(names, k) for k, names in enumerate(ins))

        class OE:
            @staticmethod
            def get_symbol(i):
                return "abcdefghijklmnopqrstuvwxyz"[i] if i < 26 else chr(192 + i)

        class OpsNS:
            @staticmethod
            def einsum(datas, equation):
                rec.append((list(datas), equation))
                return ("einsum", equation)

        import itertools as it

        ns = dict(OrderedDict=OrderedDict, opt_einsum=OE, itertools=it, ops=OpsNS, Tensor=lambda d, i: ("Tensor", d, list(i)), set=set, iter=iter, map=map, next=next, zip=zip)
        return Ctx(args=(GetOp(equation=eq), operands), namespace=ns, rec=rec, st=st)

    def ensures(self, ctx, result):
        eq, ins = ctx.st
        if len(ctx.rec) != 1:
            return [("one_einsum_call", False)]
        datas, new_eq = ctx.rec[0]
        union = []
        for names in ins:
            for n in names:
                if n not in union:
                    union.append(n)
        lhs, out = new_eq.split("->")
        parts = lhs.split(",")
        uins, uout = eq.split("->")
        uparts = uins.split(",")
        ok_shape = len(parts) == len(ins) and all(pt.endswith(u) and len(pt) == len(names) + len(u) for pt, u, names in zip(parts, uparts, ins)) and out.endswith(uout) and len(out) == len(union) + len(uout)
        if not ok_shape:
            return [("subscripts_are_input_symbols_then_event_subscripts", False)]
        sym = {}
        consistent = True
        for pt, names in zip(parts, ins):
            for n, s in zip(names, pt[: len(names)]):
                if sym.setdefault(n, s) != s:
                    consistent = False
        osyms = out[: len(union)]
        fresh = set(sym.values())
        return [
            ("subscripts_are_input_symbols_then_event_subscripts", True),
            ("same_symbol_for_the_same_input_everywhere", consistent and [sym.get(n) for n in union] == list(osyms)),
            ("input_symbols_pairwise_distinct", len(fresh) == len(sym)),
            ("input_symbols_disjoint_from_the_equation", not (fresh & set(eq))),
            ("operands_in_order_and_result_over_the_union", datas == ["data%d" % k for k in range(len(ins))] and result == ("Tensor", ("einsum", new_eq), union)),
        ]


# ==================================================================================================
# replays: turn a counter-model of a layout obligation into a native run of the real function
# ==================================================================================================
_REPLAY_HEAD = '''import sys, itertools, numpy as np
from collections import OrderedDict
import funsor
from funsor import Tensor, Bint, Reals
from funsor.tensor import align_tensor, tensor_to_funsor
from funsor.terms import to_data
funsor.set_backend("numpy")
def bad(msg):
    print("REPRODUCED:", msg); sys.exit(1)
'''


def _sz(m, v, cap=4):
    x = mval(m, v, 2)
    return max(1, min(int(x), cap)) if isinstance(x, int) else 2


def _replay_align_tensor(self, ctx, m, st, clause):
    if st == "number":
        return None
    new, old, e, ex = st
    bs = {n: _sz(m, s) for n, s in ctx.bs.items()}
    ns = {n: (bs[n] if n in bs else _sz(m, s)) for n, s in ctx.new_sizes.items()}
    es = tuple(_sz(m, s) for s in ctx.es)
    return _REPLAY_HEAD + '''
new=%r; old=%r; bs=%r; ns=%r; es=%r; expand=%r
shape=tuple(bs[n] for n in old)+es
x=Tensor(np.arange(int(np.prod(shape)) if shape else 1, dtype=float).reshape(shape), OrderedDict((n,Bint[bs[n]]) for n in old))
r=np.asarray(align_tensor(OrderedDict((n,Bint[ns[n]]) for n in new), x, expand=expand))
exp_shape=tuple(bs[n] if n in old else (ns[n] if expand else 1) for n in new)+es
if r.shape!=exp_shape: bad("shape %%s expected %%s" %% (r.shape, exp_shape))
for idx in itertools.product(*[range(k) for k in exp_shape]):
    src=tuple(idx[new.index(o)] for o in old)+tuple(idx[len(new):])
    if r[idx]!=x.data[src]: bad("result%%s=%%s but x%%s=%%s" %% (idx, r[idx], src, x.data[src]))
print("not reproduced"); sys.exit(0)
''' % (tuple(new), tuple(old), bs, ns, es, ex)


AlignTensor.replay = _replay_align_tensor


def _replay_to_data(self, ctx, m, st, clause):
    n, places, e = st
    bs = {nm: _sz(m, s) for nm, s in ctx.bs.items()}
    es = tuple(_sz(m, s) for s in ctx.es)
    return _REPLAY_HEAD + '''
names=%r; places=%r; bs=%r; es=%r
shape=tuple(bs[n] for n in names)+es
x=Tensor(np.arange(int(np.prod(shape)), dtype=float).reshape(shape), OrderedDict((n,Bint[bs[n]]) for n in names))
r=np.asarray(to_data(x, OrderedDict(zip(names, places))))
rb=-min(places); exp=[1]*rb
for nm,d in zip(names,places): exp[d]=bs[nm]
exp=tuple(exp)+es
if r.shape!=exp: bad("shape %%s expected %%s" %% (r.shape, exp))
for idx in itertools.product(*[range(k) for k in exp]):
    src=tuple(idx[rb+d] for d in places)+tuple(idx[rb:])
    if r[idx]!=x.data[src]: bad("result%%s=%%s but x%%s=%%s" %% (idx, r[idx], src, x.data[src]))
print("not reproduced"); sys.exit(0)
''' % (tuple(ctx.names), tuple(places), bs, es)


TensorToData.replay = _replay_to_data


def _replay_to_funsor(self, ctx, m, st, clause):
    b, e, dims = st[:3]
    bs = [_sz(m, s) if d in dims else 1 for d, s in enumerate(ctx.bs)]
    if clause.startswith(("unnamed", "raises")):
        bs = [_sz(m, s) for s in ctx.bs]
    es = tuple(_sz(m, s) for s in ctx.es)
    return _REPLAY_HEAD + '''
bs=%r; es=%r; d2n=OrderedDict(%r)
shape=tuple(bs)+es
x=np.arange(int(np.prod(shape)) if shape else 1, dtype=float).reshape(shape)
try:
    f=tensor_to_funsor(x, Reals[es], d2n)
except ValueError as err:
    print("declined:", err); sys.exit(0)
n2d=OrderedDict((n,d) for d,n in d2n.items() if n in f.inputs)
back=np.asarray(to_data(f, n2d) if f.inputs else f.data)
if back.size!=x.size or not np.array_equal(back.reshape(x.shape) if back.size==x.size else back, x): bad("round trip differs: %%s vs %%s" %% (back.tolist(), x.tolist()))
for pt in itertools.product(*[range(f.inputs[n].size) for n in f.inputs]):
    full=[0]*len(bs)
    for n,v in zip(f.inputs, pt): full[[d for d,nn in d2n.items() if nn==n][0]+len(bs)]=v
    if not np.array_equal(np.asarray(f(**dict(zip(f.inputs, pt))).data), x[tuple(full)]): bad("value at %%s is not x%%s" %% (dict(zip(f.inputs,pt)), tuple(full)))
print("not reproduced"); sys.exit(0)
''' % (bs, es, list(ctx.d2n.items()))


TensorToFunsor.replay = _replay_to_funsor
ToFunsorToDataRoundTrip.replay = _replay_to_funsor


@register
class EagerGetitemTensorTensor(Contract):
    """eager_getitem_tensor_tensor: x[..., y] at event position `offset` with y an integer Tensor: result inputs = union of
    both operands' inputs (lhs order first) and for EVERY index
        result.data[batch idx, remaining event idx] == x.data[x's batch idx, event idx with y.data[y's batch idx] at offset]
    -- each operand is read at ITS OWN named coordinates (operands whose inputs are the same names in a different order are
    aligned, not used positionally). structure bound: <= 2 names per operand, x event rank 1..2, every offset."""

    props = ("C01", "C02")
    file = "funsor/tensor.py"
    qualname = "eager_getitem_tensor_tensor"
    max_paths = 4000
    mutants = (("operands with the same names in another order used positionally", "    if lhs.inputs == rhs.inputs:\n        inputs, lhs_data, rhs_data = lhs.inputs, lhs.data, rhs.data", "    if lhs.inputs.keys() == rhs.inputs.keys():\n        inputs, lhs_data, rhs_data = lhs.inputs, lhs.data, rhs.data"), ("index placed at the batch offset", "target_dim = lhs_data_dim - len(lhs.output.shape) + offset", "target_dim = offset"), ("boolean index data used as a mask (pinned-tree behaviour)", "    rhs_data = _as_index(rhs_data)\n", ""))

    def structures(self, tier):
        pool = ["", "a", "ab", "ba", "b"]
        for ln in pool:
            for rn in pool:
                for e in (1, 2):
                    for off in range(e):
                        yield "x=%s/%d,y=%s,offset=%d" % (ln or "-", e, rn or "-", off), (ln, rn, e, off, "int")
        for ln, rn in [("a", "a"), ("a", ""), ("", "b"), ("ab", "ba")]:
            yield "x=%s/1,y=%s,offset=0,boolean index data" % (ln or "-", rn or "-"), (ln, rn, 1, 0, "bool")

    def build(self, p, st):
        ln, rn, e, off, ydt = st
        x, xbs, xes = mk_tensor(p, tuple(ln), e, "X")
        if ydt == "bool":
            p.assume(xes[off] == 2)  # a boolean array is the data of a Bint[2]-valued index
        ysz = []
        y = TensorM.__new__(TensorM)
        ybs = {}
        for n in rn:
            if n in xbs:
                ybs[n] = xbs[n]
            else:
                s = p.fresh_int("yb_" + n)
                p.assume(s >= 1)
                ybs[n] = s
        Y = z3.Function("Y!%d" % next(p.counter), *([z3.IntSort()] * len(rn) + [z3.IntSort()]))

        def yget(idx):
            v = SV(Y(*[core._lift(i) for i in idx])) if rn else SV(Y())
            p.assume(And(0 <= v, v < xes[off]))  # typed: y's output is Bint[size of the indexed dimension]
            return v

        y.inputs = OrderedDict((n, MDom(ybs[n], ())) for n in rn)
        y.output = MDom(xes[off], ())
        y.dtype = xes[off]
        y.data = SArr(tuple(ybs[n] for n in rn), yget, ydt)
        as_index, _ = core.make_callable(core.locate("funsor/tensor.py", "_as_index"), dict(ops=OpsArrayNS, str=str))
        ns = dict(TENSOR_NS, align_tensors=align_tensors_model, Bint=M.Bint, range=range, len=len, list=list, tuple=tuple, _as_index=as_index)
        return Ctx(args=(GetOp(offset=off), x, y), namespace=ns, x=x, y=y, xbs=xbs, ybs=ybs, xes=xes, st=st, p=p)

    def may_raise(self, ctx, etype):
        return False

    total = True

    def ensures(self, ctx, result):
        ln, rn, e, off, ydt = ctx.st
        if not isinstance(result, TensorM):
            return [("returns_tensor", False)]
        names = list(ln) + [n for n in rn if n not in ln]
        sz = [ctx.xbs[n] if n in ctx.xbs else ctx.ybs[n] for n in names]
        ev = tuple(s for k, s in enumerate(ctx.xes) if k != off)
        shape = tuple(sz) + ev
        cl = [("inputs_are_the_union", list(result.inputs) == names), ("shape", deep_eq(tuple(result.data.shape), shape))]
        if len(result.data.shape) == len(shape):
            idx = fresh_index(ctx.p, shape)
            b = {n: idx[k] for k, n in enumerate(names)}
            yv = ctx.y.data.get(tuple(b[n] for n in rn))
            evi = list(idx[len(names):])
            evi.insert(off, yv)
            cl.append(("each_operand_read_at_its_own_named_coordinates", Implies(in_range(idx, shape), result.data.get(idx) == ctx.x.data.get(tuple(b[n] for n in ln) + tuple(evi)))))
        return cl


# ==================================================================================================
# ops.stack / ops.cat of Tensors (Finitary rules): the dim argument counts OUTPUT dims, batch dims are on the left
# ==================================================================================================
class _FinOp:
    def __init__(self, **defaults):
        self.defaults = defaults


def align_tensors_expand_model(*args, **kwargs):
    """align_tensors(*parts, expand=True): as align_tensors_model, with inputs an operand lacks broadcast to their full size"""
    inputs = OrderedDict()
    for x in args:
        inputs.update(x.inputs)
    names = list(inputs)
    out = []
    for x in args:
        old = list(x.inputs)
        ev = x.data.shape[len(old):]
        shape = tuple(inputs[n].dtype for n in names) + tuple(ev)

        def get(idx, x=x, old=old):
            return x.data.get(tuple(idx[names.index(o)] for o in old) + tuple(idx[len(names):]))

        out.append(SArr(shape, get, x.data.dtype))
    return inputs, out


class _StackCatBase(Contract):
    props = ("C01",)
    file = "funsor/tensor.py"
    total = True
    max_paths = 3000

    def mk_parts(self, p, ins, e, cat_pos=None):
        es = tuple(sizes(p, e, "e"))
        gs = {}
        parts = []
        for k, names in enumerate(ins):
            for nm in names:
                if nm not in gs:
                    s = p.fresh_int("g_" + nm)
                    p.assume(s >= 1)
                    gs[nm] = s
            ev = list(es)
            if cat_pos is not None:
                c = p.fresh_int("c%d" % k)
                p.assume(c >= 1)
                ev[cat_pos] = c
            t = TensorM.__new__(TensorM)
            t.inputs = OrderedDict((nm, MDom(gs[nm], ())) for nm in names)
            t.output = MDom("real", tuple(ev))
            t.dtype = "real"
            t.data = fresh_array(p, "part%d" % k, tuple(gs[nm] for nm in names) + tuple(ev))
            parts.append(t)
        return parts, gs, es


@register
class EagerFinitaryStack(_StackCatBase):
    """eager_finitary_stack(op, parts) -- ops.stack of Tensors --: with `dim` counting the dims of the OUTPUT (dim >= 0 from the
    left of the output shape, dim < 0 from its right; the named batch dims are never counted), the result has inputs = the
    union of the parts' inputs, output shape = the parts' output shape with a new dim of size len(parts) at `dim`, and
      result[named point][event idx with k inserted at dim] == part_k[named point][event idx]     for every point and index.
    Parts whose aligned shapes differ (an input missing from one part) are rejected by the backend stack.
    structure bound: 2..3 parts over <= 2 names in equal / permuted order, event rank 0..2, every dim in range."""

    qualname = "eager_finitary_stack"
    mutants = (
        ("nonnegative dim handed to the backend as is (seeded C01_stack_dim_batch)", "    if dim >= 0:\n        event_dim = max(len(part.output.shape) for part in parts)\n        dim = dim - event_dim - 1\n    assert dim < 0\n", ""),
        ("nonnegative dim converted without the new dim", "        dim = dim - event_dim - 1", "        dim = dim - event_dim if event_dim else -1"),
    )

    def structures(self, tier):
        for ins in (("", ""), ("a", "a"), ("ab", "ab"), ("ab", "ba"), ("a", "a", "a"), ("ab", "ba", "ab")):
            for e in (0, 1, 2):
                if tier == "quick" and e == 2 and len(ins) == 3:
                    continue
                for dim in range(-(e + 1), e + 1):
                    yield "parts=%s,event=%d,dim=%d" % ([i or "-" for i in ins], e, dim), (ins, e, dim)

    def build(self, p, st):
        ins, e, dim = st
        parts, gs, es = self.mk_parts(p, ins, e)

        class Ops:
            stack = staticmethod(arr_stack)

        ns = dict(TENSOR_NS, ops=Ops, align_tensors=align_tensors_model, max=max, len=len)
        return Ctx(args=(_FinOp(dim=dim), tuple(parts)), namespace=ns, parts=parts, gs=gs, es=es, st=st, p=p)

    def ensures(self, ctx, result):
        ins, e, dim = ctx.st
        if not isinstance(result, TensorM):
            return [("returns_tensor", False)]
        union = []
        for names in ins:
            for nm in names:
                if nm not in union:
                    union.append(nm)
        pos = dim if dim >= 0 else e + 1 + dim
        ev = tuple(ctx.es[:pos]) + (len(ins),) + tuple(ctx.es[pos:])
        shape = tuple(ctx.gs[n] for n in union) + ev
        cl = [("inputs_are_the_union", list(result.inputs) == union), ("output_shape_has_the_new_dim_at_dim", deep_eq(tuple(result.data.shape), shape))]
        if len(result.data.shape) == len(shape):
            idx = fresh_index(ctx.p, shape)
            nb = len(union)
            vals = []
            for t, names in zip(ctx.parts, ins):
                eidx = tuple(idx[nb:nb + pos]) + tuple(idx[nb + pos + 1:])
                vals.append(t.data.get(tuple(idx[union.index(nm)] for nm in names) + eidx))
            from .arrays import select

            cl.append(("element_k_along_dim_is_part_k_at_the_same_point", Implies(in_range(idx, shape), result.data.get(idx) == select(idx[nb + pos], vals))))
        return cl


@register
class EagerFinitaryCat(_StackCatBase):
    """eager_finitary_cat(op, parts) -- ops.cat of Tensors --: with `axis` counting the dims of the OUTPUT (never the named
    batch dims), the result has inputs = the union of the parts' inputs (a part lacking an input is broadcast along it),
    output shape = the parts' output shape with the sizes along `axis` added, and result[named point][.. i ..] == the part
    that position i falls into, at the same named point and i minus the sizes of the parts before it.
    structure bound: 2..3 parts over <= 2 names (equal, permuted, one part lacking a name), event rank 1..2, every axis."""

    qualname = "eager_finitary_cat"
    mutants = (
        ("nonnegative axis handed to the backend as is", "    if dim >= 0:\n        event_dims = {len(part.output.shape) for part in parts}\n        assert len(event_dims) == 1, \"undefined\"\n        dim = dim - next(iter(event_dims))\n    assert dim < 0\n", ""),
        ("parts not broadcast to the joint inputs", "    inputs, raw_parts = align_tensors(*parts, expand=True)", "    inputs, raw_parts = align_tensors(*parts)"),
    )

    def structures(self, tier):
        for ins in (("", ""), ("a", "a"), ("ab", "ba"), ("a", ""), ("a", "ab"), ("a", "a", "a"), ("ab", "b", "ba")):
            for e in (1, 2):
                if tier == "quick" and e == 2 and len(ins) == 3:
                    continue
                for dim in range(-e, e):
                    yield "parts=%s,event=%d,axis=%d" % ([i or "-" for i in ins], e, dim), (ins, e, dim)

    def build(self, p, st):
        ins, e, dim = st
        pos = dim if dim >= 0 else e + dim
        parts, gs, es = self.mk_parts(p, ins, e, cat_pos=pos)

        class Ops:
            cat = staticmethod(arr_cat)

        def align_tensors(*args, **kwargs):
            return align_tensors_expand_model(*args) if kwargs.get("expand", False) else align_tensors_model(*args)

        ns = dict(TENSOR_NS, ops=Ops, align_tensors=align_tensors, len=len, next=next, iter=iter)
        return Ctx(args=(_FinOp(axis=dim), tuple(parts)), namespace=ns, parts=parts, gs=gs, es=es, st=st, p=p, pos=pos)

    def ensures(self, ctx, result):
        ins, e, dim = ctx.st
        if not isinstance(result, TensorM):
            return [("returns_tensor", False)]
        union = []
        for names in ins:
            for nm in names:
                if nm not in union:
                    union.append(nm)
        pos = ctx.pos
        lens = [t.output.shape[pos] for t in ctx.parts]
        total_len = lens[0]
        for l in lens[1:]:
            total_len = total_len + l
        ev = tuple(ctx.es[:pos]) + (total_len,) + tuple(ctx.es[pos + 1:])
        shape = tuple(ctx.gs[n] for n in union) + ev
        cl = [("inputs_are_the_union", list(result.inputs) == union), ("output_shape_adds_the_sizes_along_axis", deep_eq(tuple(result.data.shape), shape))]
        if len(result.data.shape) == len(shape):
            idx = fresh_index(ctx.p, shape)
            nb = len(union)
            i = idx[nb + pos]
            off = 0
            expect = None
            conds = []
            for t, names, l in zip(ctx.parts, ins, lens):
                eidx = tuple(idx[nb:nb + pos]) + (i - off,) + tuple(idx[nb + pos + 1:])
                v = t.data.get(tuple(idx[union.index(nm)] for nm in names) + eidx)
                conds.append((And(off <= i, i < off + l), v))
                off = off + l
            f = And(*[Implies(c, result.data.get(idx) == v) for c, v in conds])
            cl.append(("position_i_comes_from_the_part_it_falls_into", Implies(in_range(idx, shape), f)))
        return cl
