"""Free commutative semiring N[symbols]: polynomials with natural-number coefficients in normal form.
Two expressions built from + and x only are equal in EVERY commutative semiring iff their normal forms coincide (an equality
of N[x] polynomials is a consequence of the commutative-semiring axioms alone), so a check of this kind holds for all factor
contents and for each supported semiring (add/mul, logaddexp/add, max/add, min/add, ... each a commutative semiring on its
carrier -- table entries proved in C15)."""


class Poly:
    __slots__ = ("t",)

    def __init__(self, terms=None):
        self.t = terms or {}

    @staticmethod
    def sym(name):
        return Poly({(name,): 1})

    @staticmethod
    def const(n):
        return Poly({(): n}) if n else Poly()

    def __add__(self, o):
        r = dict(self.t)
        for m, c in o.t.items():
            r[m] = r.get(m, 0) + c
        return Poly(r)

    def __mul__(self, o):
        r = {}
        for m1, c1 in self.t.items():
            for m2, c2 in o.t.items():
                m = tuple(sorted(m1 + m2))
                r[m] = r.get(m, 0) + c1 * c2
        return Poly(r)

    def __eq__(self, o):
        return isinstance(o, Poly) and {m: c for m, c in self.t.items() if c} == {m: c for m, c in o.t.items() if c}

    def __hash__(self):
        return hash(frozenset(self.t.items()))

    def __repr__(self):
        return " + ".join(("%d*" % c if c != 1 else "") + ".".join(map(str, m)) for m, c in sorted(self.t.items())) or "0"


ONE = Poly.const(1)
ZERO = Poly()
