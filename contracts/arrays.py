"""Symbolic n-d array theory used by the layout contracts (C19, C01): an array is (shape, index -> element) with
shape a tuple of symbolic sizes and the element map a Python closure over z3 terms; base arrays are uninterpreted
functions of their index.  The numpy operations used by the verified functions are MODELS (assumed contracts of numpy,
conformance-tested against numpy on concrete arrays by `conformance()`):
  permute / transpose, reshape restricted to inserting / removing unit dimensions (anything else is outside the model and
  makes the path undecided), expand / broadcast_to, element access.
All sizes are required >= 1 by the contracts that use reshape (with a zero size numpy accepts reshapes that drop
dimensions; the properties quantify over sizes 1-4)."""
import itertools

import z3

from pyvc import core
from pyvc.core import SV, And, Declined, If, Not, Or, Unsupported, deep_eq, has_sym, truth


class SArr:
    __model_class__ = None

    def __init__(self, shape, get, dtype="float"):
        self.shape = tuple(shape)
        self.get = get
        self.dtype = dtype

    @property
    def ndim(self):
        return len(self.shape)

    def __has_sym__(self):
        return True

    def reshape(self, *shape):
        if len(shape) == 1 and isinstance(shape[0], (tuple, list)):
            shape = tuple(shape[0])
        shape = tuple(shape)
        if any((not isinstance(s, SV)) and s == -1 for s in shape):
            # only the form used by the verified code: a 1-d array reshaped to (-1, 1, ..., 1)
            if len(self.shape) == 1 and shape[0] == -1 and all(is_one(s) for s in shape[1:]):
                shape = (self.shape[0],) + shape[1:]
            else:
                raise Unsupported("reshape with -1 outside the (n,) -> (-1, 1, ..., 1) form")
        return reshape_units(self, shape)

    def __len__(self):
        raise Unsupported("len() of a symbolic array")


SArr.__model_class__ = SArr


def fresh_array(p, name, shape):
    rank = len(shape)
    f = z3.Function("%s!%d" % (name, next(p.counter)), *([z3.IntSort()] * rank + [z3.IntSort()]))
    if rank == 0:
        return SArr((), lambda idx: SV(f()))
    return SArr(shape, lambda idx: SV(f(*[core._lift(i) for i in idx])))


def same_size(a, b):
    if isinstance(a, SV) and isinstance(b, SV):
        return a.e.eq(b.e)
    if isinstance(a, SV) or isinstance(b, SV):
        return False
    return a == b


def is_one(x):
    return not isinstance(x, SV) and x == 1


def reshape_units(x, new):
    """numpy reshape restricted to inserting / dropping unit dimensions (sizes >= 1 assumed by the caller's contract).
    Dimensions are matched when they are the SAME size term (or equal constants); an unmatched old dimension is dropped,
    an unmatched new one inserted -- each must be 1, otherwise the element counts differ (all sizes >= 1) and numpy raises
    ValueError.  Anything else is outside the model."""
    old = x.shape
    i = j = 0
    src = []  # for each new dim: index of the old dim it carries, or None (inserted unit)

    def drop(k):
        if not is_one(old[k]) and not truth(deep_eq(old[k], 1)):
            raise Declined("ValueError", "cannot reshape array: a non-unit dimension would vanish")

    def insert(k):
        if not is_one(new[k]) and not truth(deep_eq(new[k], 1)):
            raise Declined("ValueError", "cannot reshape array: a non-unit dimension would appear")
        src.append(None)

    while i < len(old) or j < len(new):
        if i < len(old) and j < len(new) and same_size(old[i], new[j]):
            src.append(i)
            i += 1
            j += 1
        elif i >= len(old):
            insert(j)
            j += 1
        elif j >= len(new):
            drop(i)
            i += 1
        elif is_one(new[j]):
            insert(j)
            j += 1
        elif is_one(old[i]):
            drop(i)
            i += 1
        elif any(same_size(o, new[j]) for o in old[i + 1:]):
            drop(i)
            i += 1
        elif any(same_size(old[i], n) for n in new[j + 1:]):
            insert(j)
            j += 1
        else:
            drop(i)
            i += 1
            insert(j)
            j += 1

    def get(idx):
        full = [0] * len(old)
        for jj, s in enumerate(src):
            if s is not None:
                full[s] = idx[jj]
        return x.get(tuple(full))

    return SArr(new, get, x.dtype)


def _prefer_drop(old, new, i, j):
    return False


def permute(x, dims):
    dims = tuple(dims)
    if sorted(d % max(len(x.shape), 1) if len(x.shape) else d for d in dims) != list(range(len(x.shape))):
        raise Declined("ValueError", "axes don't match array")
    dims = tuple(d % len(x.shape) for d in dims) if x.shape else ()
    shape = tuple(x.shape[d] for d in dims)

    def get(idx):
        full = [None] * len(dims)
        for pos, d in enumerate(dims):
            full[d] = idx[pos]
        return x.get(tuple(full))

    return SArr(shape, get, x.dtype)


def expand(x, shape):
    shape = tuple(shape)
    if len(shape) < len(x.shape):
        raise Declined("ValueError", "expand to fewer dims")
    off = len(shape) - len(x.shape)
    unit = []
    for k, s in enumerate(x.shape):
        t = shape[off + k]
        if same_size(s, t):
            unit.append(False)
        elif is_one(s) or truth(deep_eq(s, 1)):
            unit.append(True)
        elif truth(deep_eq(s, t)):
            unit.append(False)
        else:
            raise Declined("ValueError", "cannot broadcast")

    def get(idx):
        return x.get(tuple(0 if u else idx[off + k] for k, u in enumerate(unit)))

    return SArr(shape, get, x.dtype)


class OpsArrayNS:
    """the subset of funsor.ops used by the layout functions, as models"""

    permute = staticmethod(permute)
    expand = staticmethod(expand)

    @staticmethod
    def is_numeric_array(x):
        return isinstance(x, SArr)

    @staticmethod
    def astype(x, dtype):
        # values unchanged (False/True -> 0/1); only the element type, which decides how numpy reads an index array
        return SArr(x.shape, x.get, "int" if str(dtype).startswith(("int", "uint")) else str(dtype))


def in_range(idx, shape):
    return And(*[And(0 <= i, i < s) for i, s in zip(idx, shape)])


def fresh_index(p, shape, name="ix"):
    idx = tuple(p.fresh_int(name) for _ in shape)
    return idx


def conformance():
    """the models agree with numpy on concrete arrays (exhaustive small scope)"""
    import numpy as np

    bad = []

    def conc(a):
        return SArr(a.shape, lambda idx: a[tuple(idx)])

    def dump(s):
        out = np.empty(s.shape)
        for idx in itertools.product(*[range(n) for n in s.shape]):
            out[idx] = s.get(idx)
        return out

    core.CUR = core.Path()
    try:
        for shape in [(), (2,), (2, 3), (1, 3), (2, 1, 3), (2, 3, 2)]:
            a = np.arange(int(np.prod(shape)) if shape else 1, dtype=float).reshape(shape)
            for perm in itertools.permutations(range(len(shape))):
                if not np.array_equal(dump(permute(conc(a), perm)), np.transpose(a, perm)):
                    bad.append(("permute", shape, perm))
            # unit insert / removal reshapes
            units = [s for s in itertools.product([0, 1], repeat=len(shape) + 1)]
            for u in units:
                new = []
                for k, s in enumerate(shape):
                    if u[k]:
                        new.append(1)
                    new.append(s)
                if u[-1]:
                    new.append(1)
                new = tuple(new)
                if not np.array_equal(dump(reshape_units(conc(a), new)), a.reshape(new)):
                    bad.append(("reshape-insert", shape, new))
                back = reshape_units(conc(a.reshape(new)), shape)
                if not np.array_equal(dump(back), a):
                    bad.append(("reshape-drop", new, shape))
            for tgt in [(2,) + shape, tuple(3 if s == 1 else s for s in shape), (2, 2) + tuple(4 if s == 1 else s for s in shape)]:
                try:
                    exp = np.broadcast_to(a, tgt)
                except ValueError:
                    continue
                if not np.array_equal(dump(expand(conc(a), tgt)), exp):
                    bad.append(("expand", shape, tgt))
            # basic indexing: ints and slices
            if shape:
                parts = [slice(None), 0, shape[0] - 1, slice(0, None, 2), slice(1, 5), slice(-1, None)]
                for k in range(1, len(shape) + 1):
                    for idx in itertools.product(parts, repeat=k):
                        try:
                            exp = a[idx]
                        except IndexError:
                            continue
                        if any(isinstance(i, int) and not 0 <= i < shape[j] for j, i in enumerate(idx)):
                            continue
                        try:
                            got = dump(_basic_index(conc(a), idx))
                        except Unsupported:
                            continue
                        if got.shape != exp.shape or not np.array_equal(got, exp):
                            bad.append(("index", shape, idx))
                for dim in range(-len(shape) - 1, len(shape) + 1):
                    b2 = a + 100
                    if not np.array_equal(dump(stack([conc(a), conc(b2)], dim)), np.stack([a, b2], dim)):
                        bad.append(("stack", shape, dim))
                for dim in range(-len(shape), len(shape)):
                    b2 = (a + 100)
                    if not np.array_equal(dump(cat([conc(a), conc(b2), conc(a)], dim)), np.concatenate([a, b2, a], dim)):
                        bad.append(("cat", shape, dim))
        # advanced indexing: one index per dimension, integer arrays (broadcast together) and plain integers
        rs = np.random.RandomState(1)
        for shape in [(3,), (2, 3), (2, 3, 2)]:
            a = np.arange(int(np.prod(shape)), dtype=float).reshape(shape)
            for ishapes in [[(2,)] * len(shape), [(2, 1), (1, 3), (2, 3)][: len(shape)], [(), (4,), (1, 4)][: len(shape)], [(3, 1, 1), (1, 2, 1), (1, 1, 2)][: len(shape)]]:
                for as_int in itertools.product([False, True], repeat=len(shape)):
                    inds, conc_inds = [], []
                    for dim, (ish, ai) in enumerate(zip(ishapes, as_int)):
                        if ai:
                            v = int(rs.randint(shape[dim]))
                            inds.append(v)
                            conc_inds.append(v)
                        else:
                            arr = rs.randint(shape[dim], size=ish)
                            inds.append(arr)
                            conc_inds.append(SArr(arr.shape, lambda idx, arr=arr: int(arr[tuple(idx)]), "int"))
                    if all(as_int):
                        continue
                    try:
                        exp = a[tuple(inds)]
                    except IndexError:
                        continue
                    got = _advanced_index(conc(a), tuple(conc_inds))
                    if tuple(got.shape) != exp.shape or not np.array_equal(dump(got), exp):
                        bad.append(("advanced_index", shape, ishapes, as_int))
    finally:
        core.CUR = None
    return bad


def _basic_index(x, index):
    """numpy basic indexing with a tuple of slices (step None or >= 1) and integers, padded with full slices on the right:
    a slice keeps len(range(*slice.indices(size))) elements, element i being start' + step*i (start' the clamped start); an
    integer v (required 0 <= v < size: numpy would wrap or raise otherwise -- the path is outside the model) removes the
    dimension and reads position v.  None / Ellipsis / arrays are outside the model."""
    from contracts.specs import spec_range_len, spec_slice_indices

    if not isinstance(index, tuple):
        index = (index,)
    if len(index) > len(x.shape) or not all(isinstance(s, (slice, int, SV)) and not isinstance(s, bool) for s in index):
        raise Unsupported("indexing form outside the model")
    index = index + (slice(None),) * (len(x.shape) - len(index))
    shape, maps = [], []
    p = core.cur()
    for s, size in zip(index, x.shape):
        if not isinstance(s, slice):
            if truth(And(0 <= s, s < size)):
                maps.append(("int", s))
            elif truth(And(-size <= s, s < 0)):
                maps.append(("int", s + size))  # numpy wraps negative indices
            else:
                raise Declined("IndexError", "index out of bounds")
        elif s.start is None and s.stop is None and s.step is None:
            shape.append(size)
            maps.append(None)
        else:
            if s.step is not None and not p.entails(core._lift(s.step >= 1)):
                raise Unsupported("slice with a step that is not known to be >= 1")
            a, b, c = spec_slice_indices(s.start, s.stop, s.step, size)  # CPython / numpy clamping rule
            shape.append(spec_range_len(a, b, c))
            maps.append((a, c))

    def get(idx):
        out, j = [], 0
        for m in maps:
            if m is not None and m[0] == "int" and isinstance(m, tuple) and len(m) == 2 and m[0] == "int":
                out.append(m[1])
                continue
            i = idx[j]
            j += 1
            out.append(i if m is None else m[0] + m[1] * i)
        return x.get(tuple(out))

    return SArr(tuple(shape), get, x.dtype)


def _advanced_index(x, index):
    """numpy advanced indexing with one integer array per dimension (all dimensions indexed): the index arrays are
    broadcast together and result[idx] = x[ind_0[idx], ..., ind_k[idx]] (numpy indexing documentation)."""
    # an integer among index arrays is a 0-d index array (numpy broadcasts it); it must be in range
    cooked = []
    for pos, i in enumerate(index):
        if isinstance(i, SArr):
            if i.dtype == "bool":
                # numpy reads a boolean array as a MASK (selects positions where it is True): not integer indexing
                raise Declined("IndexError", "boolean array used as an index acts as a mask")
            cooked.append(i)
        elif isinstance(i, (int, SV)) and not isinstance(i, bool) and pos < len(x.shape):
            if not truth(And(0 <= i, i < x.shape[pos])):
                raise Declined("IndexError", "index out of bounds")
            cooked.append(SArr((), lambda idx, v=i: v, "int"))
        else:
            raise Unsupported("advanced indexing form outside the model")
    index = tuple(cooked)
    if len(index) != len(x.shape):
        raise Unsupported("advanced indexing form outside the model")
    n = max(len(i.shape) for i in index)
    shape = [1] * n
    units = []
    for ind in index:
        u = {}
        off = n - len(ind.shape)
        for k, s in enumerate(ind.shape):
            pos = off + k
            if is_one(shape[pos]):
                shape[pos] = s
                u[k] = is_one(s)
            elif is_one(s):
                u[k] = True
            elif same_size(shape[pos], s) or core.cur().entails(core._lift(deep_eq(shape[pos], s))):
                u[k] = False
            elif truth(deep_eq(s, 1)):
                u[k] = True
            elif truth(deep_eq(shape[pos], 1)):
                # earlier index arrays were units here: numpy broadcasts them; they already read position 0
                shape[pos] = s
                u[k] = False
            else:
                raise Declined("IndexError", "shape mismatch: indexing arrays could not be broadcast together")
        units.append((off, u))

    def get(idx):
        pos = []
        for ind, (off, u) in zip(index, units):
            pos.append(ind.get(tuple(0 if u[k] else idx[off + k] for k in range(len(ind.shape)))))
        return x.get(tuple(pos))

    return SArr(tuple(shape), get, x.dtype)


def _getitem(x, index):
    if isinstance(index, tuple) and index and any(isinstance(i, SArr) for i in index) and all(isinstance(i, (SArr, int, SV)) and not isinstance(i, bool) for i in index):
        return _advanced_index(x, index)
    return _basic_index(x, index)


SArr.__sym_getitem__ = _getitem


def select(i, values):
    """values[i] for symbolic i over a concrete list of leaf values"""
    if not has_sym(i):
        return values[i]
    r = values[-1]
    for k in range(len(values) - 2, -1, -1):
        r = If(deep_eq(i, k), values[k], r)
    return r


def stack(parts, dim=0):
    """numpy.stack of equally shaped arrays along a new dimension"""
    parts = list(parts)
    shape0 = parts[0].shape
    n = len(shape0) + 1
    pos = dim % n
    for q in parts[1:]:
        if len(q.shape) != len(shape0) or not core.cur().entails(core._lift(deep_eq(tuple(q.shape), tuple(shape0)))):
            raise Declined("ValueError", "all input arrays must have the same shape")
    shape = tuple(shape0[:pos]) + (len(parts),) + tuple(shape0[pos:])

    def get(idx):
        rest = tuple(idx[:pos]) + tuple(idx[pos + 1:])
        return select(idx[pos], [q.get(rest) for q in parts])

    return SArr(shape, get)


def cat(parts, dim=0):
    """numpy.concatenate along an existing dimension (other dimensions must agree)"""
    parts = list(parts)
    n = len(parts[0].shape)
    pos = dim % n
    for q in parts[1:]:
        ok = len(q.shape) == n and core.cur().entails(core._lift(And(*[deep_eq(a, b) for k, (a, b) in enumerate(zip(q.shape, parts[0].shape)) if k != pos])))
        if not ok:
            raise Declined("ValueError", "dimensions must match except along the concatenation axis")
    offs = [0]
    for q in parts:
        offs.append(offs[-1] + q.shape[pos])
    shape = tuple(parts[0].shape[:pos]) + (offs[-1],) + tuple(parts[0].shape[pos + 1:])

    def get(idx):
        i = idx[pos]
        r = None
        if not has_sym((i, offs)):
            for k in range(len(parts)):
                if offs[k] <= i < offs[k + 1]:
                    return parts[k].get(tuple(idx[:pos]) + (i - offs[k],) + tuple(idx[pos + 1:]))
            raise IndexError(i)
        for k in range(len(parts) - 1, -1, -1):
            v = parts[k].get(tuple(idx[:pos]) + (i - offs[k],) + tuple(idx[pos + 1:]))
            r = v if r is None else If(i < offs[k + 1], v, r)
        return r

    return SArr(shape, get)


def new_arange(prototype, *args):
    if len(args) == 1:
        start, stop = 0, args[0]
    else:
        start, stop = args[:2]
    return SArr((stop - start,), lambda idx: start + idx[0], "int")


OpsArrayNS.new_arange = staticmethod(new_arange)
OpsArrayNS.stack = staticmethod(stack)
OpsArrayNS.cat = staticmethod(cat)
