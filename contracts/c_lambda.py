"""C01 / C02: two small term-level rules of funsor/terms.py that were repaired in this session, over an opaque term model.

eager_getslice_lambda(op, x): x = Lambda(k: Bint[n], body), x[index] with index normalised to (head,) + tail:
  head an int h     -> the leading dim disappears:          body(k=h)[tail]   (h < 0 counts from the end: k = n + h)
  head slice(None)  -> the leading dim stays as it is:      Lambda(k: Bint[n], body[tail])
  head a proper slice s and body does NOT mention k
                    -> only the dim's size changes:         Lambda(k: Bint[len(range(*s.indices(n)))], body[tail])
  head a proper slice and body mentions k: the substitution body(k=s) is the callee's business (it raises on the pinned
  tree: a permitted decline).
The dim is eliminated exactly when its index is an int -- NOT when the body happens not to mention k (the repaired defect).

eager_cat(name, parts, part_name): one part -> that part renamed; otherwise the homogeneous concatenation under `name`,
except that when `name` (!= part_name) is already a free input of some part the parts are concatenated under part_name and
THEN renamed (so the two occurrences are identified by substitution, i.e. the diagonal) -- never handed to the
concatenation with a name that collides."""
import itertools
from collections import OrderedDict

from pyvc import core
from pyvc.contract import Contract, Ctx, register
from pyvc.core import Declined


class BintM:
    def __init__(self, size):
        self.size = self.dtype = size

    def __eq__(self, o):
        return isinstance(o, BintM) and o.size == self.size

    def __hash__(self):
        return hash(("BintM", self.size))

    def __repr__(self):
        return "Bint[%d]" % self.size


class BintNS:
    def __getitem__(self, size):
        return BintM(size)


class VarT:
    def __init__(self, name, output):
        self.name, self.output = name, output

    def __repr__(self):
        return "Variable(%r, %r)" % (self.name, self.output)


class T:
    """opaque term: a syntactic record; calling it records a substitution (keys that are not inputs are ignored, as
    Funsor.__call__ does)"""

    def __init__(self, rec, inputs):
        self.rec, self.inputs = rec, OrderedDict((k, None) for k in inputs)

    def __call__(self, **kw):
        kw = {k: v for k, v in kw.items() if k in self.inputs}
        if not kw:
            return self
        for k, v in kw.items():
            if isinstance(v, slice):
                # to_funsor(slice, Bint[n]) of a size-changing slice raises in the callee (Output mismatch)
                raise Declined("ValueError", "substituting a python slice for a bound variable")
        ins = [k for k in self.inputs if k not in kw]
        return T(("subs", self.rec, tuple(sorted(kw.items()))), ins)

    def __eq__(self, o):
        return isinstance(o, T) and o.rec == self.rec and list(o.inputs) == list(self.inputs)

    def __hash__(self):
        return hash(repr(self.rec))

    def __repr__(self):
        return "T(%r)" % (self.rec,)


class LambdaT:
    def __init__(self, var, expr):
        self.var, self.expr = var, expr

    def __eq__(self, o):
        return isinstance(o, LambdaT) and o.var.name == self.var.name and o.var.output == self.var.output and o.expr == self.expr

    def __repr__(self):
        return "Lambda(%r, %r)" % (self.var, self.expr)


class GetOp:
    def __init__(self, index):
        self.defaults = {"index": index}


HEADS = [0, 1, -1, slice(None), slice(1, None), slice(None, None, 2), slice(0, 1), slice(None, None, -1), Ellipsis]


@register
class EagerGetsliceLambda(Contract):
    __doc__ = __doc__.split("eager_cat(")[0]

    props = ("C01", "C02")
    file = "funsor/terms.py"
    qualname = "eager_getslice_lambda"
    mutants = (
        ("dim eliminated whenever the body does not mention the variable (pre-fix behaviour)", "    if isinstance(head, int):  # dim is eliminated, e.g. x[0]", "    if x.var.name not in expr.inputs:"),
        ("size of the sliced dim not updated", "        var = Variable(var.name, Bint[size])\n", ""),
        ("negative index substituted as it is (pinned-tree behaviour)", "        head += x.var.output.size  # negative indices count from the end\n", "        pass\n"),
    )

    def structures(self, tier):
        for n in (2, 3):
            for mentions in (True, False):
                for hi, h in enumerate(HEADS):
                    for ndim, tail in ((1, ()), (2, ()), (2, (slice(0, 1),))):
                        if h is Ellipsis and tail:
                            continue
                        yield "size=%d,ndim=%d,body_mentions_var=%s,head=%r,tail=%r" % (n, ndim, mentions, h, tail), (n, mentions, hi, tail, ndim)

    def build(self, p, st):
        n, mentions, hi, tail, ndim = st
        head = HEADS[hi]
        body = T("body", ["k", "j"] if mentions else ["j"])
        x = LambdaT(VarT("k", BintM(n)), body)
        x.shape = (n, 4)[:ndim]
        index = (head,) + tail if tail else head

        class Ops:
            @staticmethod
            def getslice(expr, idx):
                return T(("getslice", expr.rec, repr(idx)), list(expr.inputs))

        loc = core.locate("funsor/ops/builtin.py", "normalize_ellipsis")
        loc2 = core.locate("funsor/ops/builtin.py", "parse_ellipsis")
        pe, _ = core.make_callable(loc2, dict(isinstance=isinstance, tuple=tuple, Ellipsis=Ellipsis, ValueError=ValueError, len=len))
        ne, _ = core.make_callable(loc, dict(parse_ellipsis=pe, len=len, slice=slice, ValueError=ValueError))
        ns = dict(normalize_ellipsis=ne, ops=Ops, Lambda=LambdaT, Variable=VarT, Bint=BintNS(), slice=slice, isinstance=isinstance, int=int, len=len, range=range)
        return Ctx(args=(GetOp(index), x), namespace=ns, x=x, body=body, st=st, head=head, tail=tail)

    def may_raise(self, ctx, etype):
        n, mentions, hi, tail, ndim = ctx.st
        h = ctx.head
        return mentions and isinstance(h, slice) and h != slice(None)

    def allow_vacuous(self, st):
        n, mentions, hi, tail, ndim = st
        h = HEADS[hi]
        return mentions and isinstance(h, slice) and h != slice(None)

    def ensures(self, ctx, result):
        n, mentions, hi, tail, ndim = ctx.st
        h = ctx.head
        body = ctx.body
        norm_tail = tuple(ctx.tail) + (slice(None),) * (ndim - 1 - len(ctx.tail))  # normalize_ellipsis pads with full slices

        def sl(t):
            return T(("getslice", t.rec, repr(norm_tail)), list(t.inputs)) if norm_tail else t

        if isinstance(h, int):
            exp = sl(body(k=h if h >= 0 else h + n))  # a negative index counts from the end, as in numpy
            return [("int_index_eliminates_the_dim", result == exp)]
        if h is Ellipsis or h == slice(None):
            exp = LambdaT(VarT("k", BintM(n)), sl(body))
            return [("full_slice_keeps_the_dim", result == exp)]
        m = len(range(*h.indices(n)))
        exp = LambdaT(VarT("k", BintM(m)), sl(body))
        return [("proper_slice_of_a_constant_body_resizes_the_dim", result == exp)]


@register
class EagerCat(Contract):
    __doc__ = "eager_cat(" + __doc__.split("eager_cat(")[1]

    props = ("C01", "C04", "C05")  # C05: the new name must not capture a free input of any part (seeded change C05_eager_cat_clash_first_part_only)
    file = "funsor/terms.py"
    qualname = "eager_cat"
    total = True
    mutants = (
        ("colliding name handed to the concatenation (pre-fix behaviour)", "    if name != part_name and any(name in part.inputs for part in parts):", "    if False:"),
        ("a deferring concatenation rule is called as if it had returned a term (the defect of the first repair)", "        if result is None:\n            return None  # defer to default implementation\n", ""),
    )

    def structures(self, tier):
        for nparts in (1, 2, 3):
            for name in ("p", "q"):
                for collide in itertools.product((False, True), repeat=nparts):
                    yield "parts=%d,name=%s,parts_mentioning_name=%s" % (nparts, name, list(collide)), (nparts, name, collide)
                    if nparts > 1:
                        # parts the homogeneous rule has no case for (lazy terms): it returns None and so must eager_cat
                        yield "parts=%d,name=%s,parts_mentioning_name=%s,rule-defers" % (nparts, name, list(collide)), (nparts, name, collide, "defers")

    def build(self, p, st):
        defers = len(st) > 3
        nparts, name, collide = st[:3]
        parts = tuple(T("part%d" % i, ["p", "i"] + (["q"] if c else [])) for i, c in enumerate(collide))
        calls = []

        def homogeneous(nm, part_name, *ps):
            calls.append((nm, part_name, ps))
            if defers:
                return None
            ins = []
            for q in ps:
                ins += [k for k in q.inputs if k not in ins and k != part_name]
            return T(("cat", nm, part_name, tuple(q.rec for q in ps)), [nm] + ins)

        return Ctx(args=(name, parts, "p"), namespace=dict(eager_cat_homogeneous=homogeneous, len=len, any=core.sany), parts=parts, calls=calls, st=st)

    def ensures(self, ctx, result):
        nparts, name, collide = ctx.st[:3]
        parts = ctx.parts
        if len(ctx.st) > 3:
            return [("defers_when_the_concatenation_rule_defers", result is None and len(ctx.calls) == 1)]
        if nparts == 1:
            return [("single_part_is_renamed", result == parts[0](p=name) and not ctx.calls)]
        if name != "p" and any(collide):
            ok = len(ctx.calls) == 1 and ctx.calls[0][0] == "p" and ctx.calls[0][1] == "p" and ctx.calls[0][2] == parts
            inner = T(("cat", "p", "p", tuple(q.rec for q in parts)), ["p"] + [k for k in ["i", "q"] if any(k in q.inputs for q in parts)])
            return [("colliding_name_concatenated_under_part_name_then_renamed", ok and result == inner(p=name))]
        ok = len(ctx.calls) == 1 and ctx.calls[0] == (name, "p", parts)
        return [("concatenated_under_the_new_name", ok)]


# ==================================================================================================
# C01 / C04: Stack.eager_subs and Stack.eager_reduce over opaque parts
# ==================================================================================================
class NumberT:
    def __init__(self, data, size):
        self.data, self.output = data, BintM(size)


class SliceT:
    def __init__(self, name, start, stop, step, dtype):
        self.name, self.slice, self.output = name, slice(start, stop, step), BintM(dtype)


class Part:
    def __init__(self, k, inputs=("a",)):
        self.k, self.inputs = k, OrderedDict((n, None) for n in inputs)
        self.reduced = None

    def reduce(self, op, rvars):
        r = Part(self.k, [n for n in self.inputs if n not in rvars])
        r.reduced = (op, frozenset(rvars), self)
        return r

    def __repr__(self):
        return "part%d%s" % (self.k, "" if self.reduced is None else "|reduced")


@register
class StackEagerSubs(Contract):
    """Stack.eager_subs(((name, index),)) for a well-typed index (output Bint[number of parts]):
      Number n        -> the n-th part itself;
      Variable v      -> the same parts stacked under v's name;
      Slice(s; a:b:c) -> the parts at positions a, a+c, a+2c, ... < b, in that order, stacked under the slice's name (so
                         position k of the result is position a + c*k of self, as Slice's own contract says);
      anything else, or an index of another size -> NotImplementedError (a decline), never a value."""

    props = ("C01", "C04")
    file = "funsor/terms.py"
    qualname = "Stack.eager_subs"
    mutants = (("slice applied to the reversed parts", "                parts = self.parts[index.slice]", "                parts = self.parts[::-1][index.slice]"), ("selected part off by one", "                return self.parts[index.data]", "                return self.parts[index.data - 1]"))

    def structures(self, tier):
        for n in (1, 2, 3, 4):
            for k in range(n):
                yield "parts=%d,index=Number(%d)" % (n, k), (n, "num", k)
            yield "parts=%d,index=Variable" % n, (n, "var", None)
            for a in range(n):
                for b in range(a, n + 1):
                    for c in (1, 2, 3):
                        yield "parts=%d,index=Slice(%d:%d:%d)" % (n, a, b, c), (n, "slice", (a, b, c))
            yield "parts=%d,index=tensor" % n, (n, "other", None)
            yield "parts=%d,index=Number of another size" % n, (n, "badsize", None)

    def build(self, p, st):
        n, kind, arg = st
        parts = tuple(Part(k) for k in range(n))

        class Self:
            pass

        s = Self()
        s.name, s.parts = "s", parts
        if kind == "num":
            index = NumberT(arg, n)
        elif kind == "var":
            index = VarT("v", BintM(n))
        elif kind == "slice":
            index = SliceT("w", arg[0], arg[1], arg[2], n)
        elif kind == "badsize":
            index = NumberT(0, n + 1)
        else:
            index = T("tensor_index", ["z"])
            index.output = BintM(n)
        made = []

        def Stack(name, ps):
            made.append((name, ps))
            return ("Stack", name, ps)

        ns = dict(Bint=BintNS(), Number=NumberT, Variable=VarT, Slice=SliceT, Stack=Stack, isinstance=isinstance, len=len, tuple=tuple, NotImplementedError=NotImplementedError)
        return Ctx(args=(s, (("s", index),)), namespace=ns, parts=parts, st=st)

    def may_raise(self, ctx, etype):
        return ctx.st[1] in ("other", "badsize") and etype == "NotImplementedError"

    def allow_vacuous(self, st):
        return st[1] in ("other", "badsize")

    def ensures(self, ctx, result):
        n, kind, arg = ctx.st
        parts = ctx.parts
        if kind == "num":
            return [("number_selects_that_part", result is parts[arg])]
        if kind == "var":
            return [("variable_renames_the_stack", result == ("Stack", "v", parts))]
        if kind == "slice":
            a, b, c = arg
            exp = tuple(parts[i] for i in range(a, b, c))
            return [("slice_keeps_positions_start_plus_step_k", result == ("Stack", "w", exp))]
        return [("unsupported_index_declines", False)]


@register
class StackEagerReduce(Contract):
    """Stack.eager_reduce(op, reduced): reducing over the stacking name folds the parts with op, left to right (each part
    first reduced over the other reduced names); otherwise every part is reduced over the reduced names and the results are
    stacked under the same name, in the same order."""

    props = ("C01",)
    file = "funsor/terms.py"
    qualname = "Stack.eager_reduce"
    total = True
    mutants = (("parts not reduced when the stacking name is kept", "        parts = tuple(x.reduce(op, reduced_vars) for x in parts)\n        return Stack(self.name, parts)", "        return Stack(self.name, parts)"),)

    def structures(self, tier):
        for n in (1, 2, 3):
            for red in [("s",), ("a",), ("s", "a"), ("a", "b")]:
                yield "parts=%d,reduced=%s" % (n, "".join(red)), (n, red)

    def build(self, p, st):
        n, red = st
        parts = tuple(Part(k, ("a", "b")) for k in range(n))

        class Self:
            pass

        s = Self()
        s.name, s.parts = "s", parts
        folds = []

        def reduce_(op, seq):
            seq = list(seq)
            folds.append((op, seq))
            return ("fold", op, tuple(seq))

        ns = dict(reduce=reduce_, Stack=lambda name, ps: ("Stack", name, tuple(ps)), frozenset=frozenset, tuple=tuple)
        return Ctx(args=(s, "OP", frozenset(red)), namespace=ns, parts=parts, st=st)

    def ensures(self, ctx, result):
        n, red = ctx.st
        others = frozenset(red) - {"s"}

        def reduced_ok(r, k):
            if not others:
                return r is ctx.parts[k]
            return isinstance(r, Part) and r.reduced is not None and r.reduced[0] == "OP" and r.reduced[1] == others and r.reduced[2] is ctx.parts[k]

        if "s" in red:
            ok = isinstance(result, tuple) and result[0] == "fold" and result[1] == "OP" and len(result[2]) == n and all(reduced_ok(r, k) for k, r in enumerate(result[2]))
            return [("stacking_name_folds_the_parts_in_order", bool(ok))]
        ok = isinstance(result, tuple) and result[0] == "Stack" and result[1] == "s" and len(result[2]) == n and all(reduced_ok(r, k) for k, r in enumerate(result[2]))
        return [("parts_reduced_and_restacked_in_order", bool(ok))]


# ==================================================================================================
# C01 / C05: Independent -- its defining equation  g(x) == f(x_i = x[i]).reduce(add, i)
# ==================================================================================================
class FnT:
    def __init__(self, rec, inputs):
        self.rec, self.inputs = rec, OrderedDict((k, None) for k in inputs)

    def reduce(self, op, names):
        return FnT(("reduce", op, names, self.rec), [k for k in self.inputs if k != names])

    def __getitem__(self, idx):
        return FnT(("getitem", self.rec, idx), list(self.inputs) + ([idx] if isinstance(idx, str) else []))

    def __eq__(self, o):
        return isinstance(o, FnT) and o.rec == self.rec

    def __hash__(self):
        return hash(repr(self.rec))

    def __repr__(self):
        return "FnT(%r)" % (self.rec,)


@register
class IndependentEagerSubs(Contract):
    """Independent.eager_subs(((reals_var, value),)): a Variable only renames the new real input; any other value v unfolds
    the defining equation: Subs(fn, diag_var := v[bint_var]) summed over bint_var -- the bound batch variable indexes the
    LEADING dimension of v, and it is the bound diag_var (not reals_var) that is substituted inside fn."""

    props = ("C01", "C05")
    file = "funsor/terms.py"
    qualname = "Independent.eager_subs"
    total = True
    mutants = (("value substituted for the outer name inside fn", "result = Subs(self.fn, ((self.diag_var, value[self.bint_var]),))", "result = Subs(self.fn, ((self.reals_var, value[self.bint_var]),))"),)

    def structures(self, tier):
        yield "value=Variable", "var"
        yield "value=term", "term"

    def build(self, p, st):
        class Self:
            pass

        s = Self()
        s.fn = FnT("fn", ["i", "xi", "a"])
        s.reals_var, s.bint_var, s.diag_var = "x", "i", "xi"
        value = VarT("y", "dom") if st == "var" else FnT("value", ["b"])

        class Ops:
            add = "ADD"

        def Subs(fn, pairs):
            return FnT(("subs", fn.rec, tuple((k, v.rec) for k, v in pairs)), [k for k in fn.inputs if k not in dict(pairs)])

        ns = dict(Variable=VarT, Independent=lambda fn, r, b, d: ("Independent", fn, r, b, d), Subs=Subs, ops=Ops, isinstance=isinstance, len=len)
        return Ctx(args=(s, (("x", value),)), namespace=ns, s=s, value=value, st=st)

    def ensures(self, ctx, result):
        s = ctx.s
        if ctx.st == "var":
            return [("variable_renames_the_real_input", result == ("Independent", s.fn, "y", "i", "xi"))]
        exp = ("reduce", "ADD", "i", ("subs", "fn", (("xi", ("getitem", "value", "i")),)))
        return [("defining_equation_unfolded", isinstance(result, FnT) and result.rec == exp)]


@register
class EagerIndependentTrivial(Contract):
    """eager_independent_trivial(fn, reals_var, bint_var, diag_var): when fn does not depend on diag_var the defining equation
    reduces to fn summed over bint_var; otherwise the rule declines (returns None) -- it never drops the sum."""

    props = ("C01", "C02")
    file = "funsor/terms.py"
    qualname = "eager_independent_trivial"
    total = True
    mutants = (("sum over the batch variable dropped", "        return fn.reduce(ops.add, bint_var)", "        return fn"),)

    def structures(self, tier):
        yield "fn mentions diag_var", True
        yield "fn does not mention diag_var", False

    def build(self, p, st):
        fn = FnT("fn", ["i", "a"] + (["xi"] if st else []))

        class Ops:
            add = "ADD"

        return Ctx(args=(fn, "x", "i", "xi"), namespace=dict(ops=Ops), fn=fn, st=st)

    def ensures(self, ctx, result):
        if ctx.st:
            return [("declines_when_fn_depends_on_diag_var", result is None)]
        return [("constant_in_diag_var_means_sum_over_the_batch_variable", isinstance(result, FnT) and result.rec == ("reduce", "ADD", "i", "fn"))]


# ==================================================================================================
# C03: Funsor.sequential_reduce -- the sequential interpretation's reduction by explicit enumeration
# ==================================================================================================
class DomS:
    def __init__(self, dtype, shape=(), size=None):
        self.dtype, self.shape, self.size = dtype, tuple(shape), size

    def __iter__(self):
        if not isinstance(self.dtype, int) or self.shape:
            raise TypeError("not iterable")
        return iter([("num", k) for k in range(self.dtype)])


@register
class SequentialReduce(Contract):
    """Funsor.sequential_reduce(op, reduced): nothing to reduce returns self; the reduced inputs that are integer scalars are
    eliminated by enumeration -- the op-fold of self evaluated at EVERY joint value of those inputs, each exactly once -- and the
    other reduced inputs (real or non-scalar) stay in a lazy Reduce around that fold; with no integer scalar among them the
    method declines (None)."""

    props = ("C03", "C01")
    file = "funsor/terms.py"
    qualname = "Funsor.sequential_reduce"
    total = True
    mutants = (("last value of each input skipped", "            for values in itertools.product(*(self.inputs[k] for k in eager_vars)):", "            for values in itertools.product(*(list(self.inputs[k])[:-1] or list(self.inputs[k]) for k in eager_vars)):"), ("non-enumerable inputs dropped", "                result = Reduce(op, result, frozenset(lazy_vars))", "                pass"))

    def structures(self, tier):
        names = ["i", "j", "x", "v"]
        for r in range(0, 4):
            for red in itertools.combinations(names, r):
                yield "reduced=%s" % ("".join(red) or "-"), red

    def build(self, p, red):
        class Self:
            def __call__(self_, **kw):
                return ("at", tuple(sorted(kw.items())))

        s = Self()
        s.inputs = OrderedDict([("i", DomS(2)), ("j", DomS(3)), ("x", DomS("real")), ("v", DomS(2, (4,))), ("k", DomS(2))])

        def op(a, b):
            return ("op", a, b)

        ns = dict(itertools=itertools, Reduce=lambda o, a, vs: ("Reduce", o, a, vs), isinstance=isinstance, int=int, dict=dict, zip=zip, frozenset=frozenset)
        return Ctx(args=(s, op, frozenset(red)), namespace=ns, s=s, red=red, op=op)

    def ensures(self, ctx, result):
        red = ctx.red
        if not red:
            return [("nothing_to_reduce_returns_self", result is ctx.s)]
        eager = [k for k in red if k in ("i", "j")]
        lazy = [k for k in red if k not in ("i", "j")]
        if not eager:
            return [("declines_without_an_integer_scalar", result is None)]
        body = result
        lazy_ok = True
        if lazy:
            lazy_ok = isinstance(result, tuple) and result[0] == "Reduce" and result[1] is ctx.op and result[3] == frozenset(lazy)
            body = result[2] if lazy_ok else None
        leaves = []

        def walk(t):
            if isinstance(t, tuple) and t and t[0] == "op":
                walk(t[1])
                walk(t[2])
            else:
                leaves.append(t)

        if body is not None:
            walk(body)
        sizes = {"i": 2, "j": 3}
        exp = sorted(("at", tuple(sorted(zip(eager, [("num", v) for v in vals])))) for vals in itertools.product(*[range(sizes[k]) for k in eager]))
        return [("other_reduced_inputs_stay_in_a_lazy_reduce", bool(lazy_ok)), ("every_joint_value_exactly_once", sorted(leaves) == exp)]
