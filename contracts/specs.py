"""Spec functions shared by contracts. Written from the language / numpy documentation, not from funsor.
Each is usable on concrete ints and on symbolic leaves (pyvc.core.SV); `conformance()` checks them against
CPython / numpy on an exhaustive small scope (a disagreement is a checker defect, exit 3)."""
from pyvc.core import If, smax, smin, And, Or, Not, is_sym, floordiv


def spec_slice_indices(start, stop, step, size):
    """CPython's slice(start, stop, step).indices(size) for step None or > 0."""
    st = 1 if step is None else step
    if start is None:
        a = 0
    else:
        a = If(start < 0, smax(start + size, 0), smin(start, size))
    if stop is None:
        b = size
    else:
        b = If(stop < 0, smax(stop + size, 0), smin(stop, size))
    return a, b, st


def ceil_div(a, b):
    """ceil(a / b) for b >= 1"""
    return floordiv(a + b - 1, b)


def spec_range_len(start, stop, step):
    """len(range(start, stop, step)) for step >= 1"""
    return smax(0, ceil_div(stop - start, step))


def conformance():
    bad = []
    vals = [None, -4, -3, -1, 0, 1, 2, 3, 5]
    for size in range(0, 4):
        for a in vals:
            for b in vals:
                for c in [None, 1, 2, 3]:
                    if spec_slice_indices(a, b, c, size) != slice(a, b, c).indices(size):
                        bad.append(("slice_indices", a, b, c, size))
    for a in range(-3, 5):
        for b in range(-3, 6):
            for c in range(1, 4):
                if spec_range_len(a, b, c) != len(range(a, b, c)):
                    bad.append(("range_len", a, b, c))
    return bad
