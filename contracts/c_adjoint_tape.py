"""C11: the reverse sweep AdjointTape.adjoint EXECUTED, with the REAL local rules adjoint_binary / adjoint_reduce /
adjoint_contract* as its callees, on tapes of abstract tensors over the free commutative semiring (contracts/poly.py, the tensor
model PT of c_markov_poly.py).  Every leaf entry is a distinct indeterminate, so the forward value of the root is a polynomial
in the leaf entries and `the semiring derivative of the root with respect to leaf L at index e` is the FORMAL partial derivative
of that polynomial with respect to the indeterminate L[e] -- computed here independently by differentiating the polynomial.
Proved, as polynomial identities (all leaf contents, every commutative semiring): for every enumerated expression DAG
  result[leaf](e)  ==  d root(e restricted to the root's inputs) / d leaf[e restricted to the leaf's inputs]
including leaves used more than once (contributions are summed), roots that keep free inputs, leaves with inputs the root has
summed out, tape entries recorded after the root (ignored) and entries unrelated to it (zero adjoint).
Assumed callee contracts: Approximate under the exact interpretation returns its model (terms.eager_approximate), the tape was
recorded by AdjointTape.interpret (children before parents; contract AdjointTapeEnter / bounded tier), cons-hashing returns the
identical term for identical arguments (C07).  Plates (product reductions, which need the safe inverse) and Subs / Cat / Scatter
nodes are outside this contract: their local rules have their own contracts (c_adjoint.py) and the bounded tier probes whole
expressions.  structure bound: DAGs of <= 4 operations over <= 3 leaves with inputs among i, j, k of size 2."""
import itertools
from collections import OrderedDict, defaultdict

from pyvc import core
from pyvc.contract import Contract, Ctx, register
from pyvc.core import Declined, Unsupported

from .c_markov_poly import PT, Dm, SemiringOp, VarP, same_pt
from .poly import ONE, ZERO, Poly

FILE = "funsor/adjoint.py"
SIZE = 2


def input_vars(self):
    return frozenset(VarP(k, d) for k, d in self.inputs.items())


PT.input_vars = property(input_vars)
PT.bound = {}


class Node(PT):
    """cons-hashed term: the same class with the same arguments is the same object"""

    _table = {}

    def __new__(cls, *args):
        key = (cls,) + tuple(id(a) if isinstance(a, PT) else a for a in args)
        if key in Node._table:
            return Node._table[key]
        self = object.__new__(cls)
        Node._table[key] = self
        self._ast_values = tuple(args)
        self._init(*args)
        return self

    def __init__(self, *args):
        pass

    def __hash__(self):
        return id(self)

    def __eq__(self, o):
        return self is o


class LeafP(Node):
    def _init(self, tag, names):
        names = tuple(names)
        PT.__init__(self, OrderedDict((n, SIZE) for n in names), lambda env: Poly.sym("%s[%s]" % (tag, ",".join("%s=%d" % (k, env[k]) for k in names))), tag)
        self.tag, self.names = tag, names

    def sym(self, env):
        return "%s[%s]" % (self.tag, ",".join("%s=%d" % (k, env[k]) for k in self.names))


class BinaryP(Node):
    def _init(self, op, lhs, rhs):
        v = op(lhs, rhs)
        PT.__init__(self, v.inputs, v.fn, "binary")


class ReduceP(Node):
    def _init(self, op, arg, reduced_vars):
        v = PT.reduce(arg, op, reduced_vars)
        PT.__init__(self, v.inputs, v.fn, "reduce")


class ContractionP(Node):
    def _init(self, sum_op, prod_op, reduced_vars, terms):
        v = terms[0]
        for t in terms[1:]:
            v = prod_op(v, t)
        if reduced_vars:
            v = PT.reduce(v, sum_op, reduced_vars)
        PT.__init__(self, v.inputs, v.fn, "contraction")


class AssocCls:
    @staticmethod
    def __sym_instancecheck__(x):
        return isinstance(x, SemiringOp)


def poly_diff(p, s):
    out = {}
    for mono, c in p.t.items():
        k = mono.count(s)
        if k:
            m = list(mono)
            m.remove(s)
            m = tuple(m)
            out[m] = out.get(m, 0) + c * k
    return Poly(out)


def const_pt(p):
    return PT(OrderedDict(), lambda env: p, "const")


SUM, PROD = SemiringOp("sum"), SemiringOp("prod")
NULL = SemiringOp("null")


def V(*names):
    return frozenset(VarP(n, Dm(SIZE)) for n in names)


def dags():
    """label -> builder returning (tape entries in recording order, root, leaves, extra entries after the root)"""
    out = OrderedDict()

    def reg(label):
        def deco(f):
            out[label] = f
            return f
        return deco

    @reg("a[i]*b[i] summed over i")
    def _():
        a, b = LeafP("a", "i"), LeafP("b", "i")
        m = BinaryP(PROD, a, b)
        r = ReduceP(SUM, m, V("i"))
        return [(m, BinaryP, (PROD, a, b)), (r, ReduceP, (SUM, m, V("i")))], r, [a, b]

    @reg("a[i]*b[i,j] summed over i, j free")
    def _():
        a, b = LeafP("a", "i"), LeafP("b", "ij")
        m = BinaryP(PROD, a, b)
        r = ReduceP(SUM, m, V("i"))
        return [(m, BinaryP, (PROD, a, b)), (r, ReduceP, (SUM, m, V("i")))], r, [a, b]

    @reg("a[i]+b[i], product with c[i], summed")
    def _():
        a, b, c = LeafP("a", "i"), LeafP("b", "i"), LeafP("c", "i")
        s = BinaryP(SUM, a, b)
        m = BinaryP(PROD, s, c)
        r = ReduceP(SUM, m, V("i"))
        return [(s, BinaryP, (SUM, a, b)), (m, BinaryP, (PROD, s, c)), (r, ReduceP, (SUM, m, V("i")))], r, [a, b, c]

    @reg("a used twice: (a*a) summed")
    def _():
        a = LeafP("a", "i")
        m = BinaryP(PROD, a, a)
        r = ReduceP(SUM, m, V("i"))
        return [(m, BinaryP, (PROD, a, a)), (r, ReduceP, (SUM, m, V("i")))], r, [a]

    @reg("shared subterm: s=a*b; (s summed over i) * (s summed over i)")
    def _():
        a, b = LeafP("a", "i"), LeafP("b", "i")
        s = BinaryP(PROD, a, b)
        r1 = ReduceP(SUM, s, V("i"))
        m = BinaryP(PROD, r1, r1)
        return [(s, BinaryP, (PROD, a, b)), (r1, ReduceP, (SUM, s, V("i"))), (m, BinaryP, (PROD, r1, r1))], m, [a, b]

    @reg("chain: sum_j (sum_i a[i]*b[i,j]) * c[j]")
    def _():
        a, b, c = LeafP("a", "i"), LeafP("b", "ij"), LeafP("c", "j")
        m1 = BinaryP(PROD, a, b)
        r1 = ReduceP(SUM, m1, V("i"))
        m2 = BinaryP(PROD, r1, c)
        r2 = ReduceP(SUM, m2, V("j"))
        return [(m1, BinaryP, (PROD, a, b)), (r1, ReduceP, (SUM, m1, V("i"))), (m2, BinaryP, (PROD, r1, c)), (r2, ReduceP, (SUM, m2, V("j")))], r2, [a, b, c]

    @reg("contraction node: Contraction(sum, prod, {i}, a[i], b[i,j]) then * c[j] summed")
    def _():
        a, b, c = LeafP("a", "i"), LeafP("b", "ij"), LeafP("c", "j")
        k = ContractionP(SUM, PROD, V("i"), (a, b))
        m2 = BinaryP(PROD, k, c)
        r2 = ReduceP(SUM, m2, V("j"))
        return [(k, ContractionP, (SUM, PROD, V("i"), (a, b))), (m2, BinaryP, (PROD, k, c)), (r2, ReduceP, (SUM, m2, V("j")))], r2, [a, b, c]

    @reg("contraction without reduction: Contraction(null, prod, {}, a[i], b[j]) free i, j")
    def _():
        a, b = LeafP("a", "i"), LeafP("b", "j")
        k = ContractionP(NULL, PROD, frozenset(), (a, b))
        return [(k, ContractionP, (NULL, PROD, frozenset(), (a, b)))], k, [a, b]

    @reg("unary contraction: Contraction(sum, prod, {i}, a[i,j])")
    def _():
        a = LeafP("a", "ij")
        k = ContractionP(SUM, PROD, V("i"), (a,))
        return [(k, ContractionP, (SUM, PROD, V("i"), (a,)))], k, [a]

    @reg("sum of two products, entries after the root and an unrelated entry")
    def _():
        a, b, c, d = LeafP("a", "i"), LeafP("b", "i"), LeafP("c", "i"), LeafP("d", "i")
        u = BinaryP(PROD, c, d)  # unrelated to the root
        m1 = BinaryP(PROD, a, b)
        s = BinaryP(SUM, m1, c)
        r = ReduceP(SUM, s, V("i"))
        later = BinaryP(PROD, r, r)  # recorded after the root: must be ignored
        tape = [(u, BinaryP, (PROD, c, d)), (m1, BinaryP, (PROD, a, b)), (s, BinaryP, (SUM, m1, c)), (r, ReduceP, (SUM, s, V("i"))), (later, BinaryP, (PROD, r, r))]
        return tape, r, [a, b, c, d]

    @reg("leaf with an input the root lacks and a root input the leaf lacks: sum_i a[i,k]*b[j]")
    def _():
        a, b = LeafP("a", "ik"), LeafP("b", "j")
        m = BinaryP(PROD, a, b)
        r = ReduceP(SUM, m, V("i"))
        return [(m, BinaryP, (PROD, a, b)), (r, ReduceP, (SUM, m, V("i")))], r, [a, b]

    return out


@register
class AdjointTapeSweep(Contract):
    """AdjointTape.adjoint(sum_op, bin_op, root, targets=leaves): for every enumerated tape (module docstring), with the real
    local rules as callees, result[leaf] equals the formal partial derivative of the root's polynomial with respect to the
    leaf's entries -- as a polynomial identity at every index of the leaf's and the root's inputs.  Entries recorded after the
    root contribute nothing; a leaf the root does not depend on gets the zero of the semiring."""

    props = ("C11",)
    file = FILE
    qualname = "AdjointTape.adjoint"
    total = True
    max_paths = 20
    mutants = (
        ("messages are not marginalised over variables the recipient lacks", "                adjoint_values[v] = sum_op(old_value, adjv.reduce(sum_op, agg_vars))", "                adjoint_values[v] = sum_op(old_value, adjv)"),
        ("a later contribution overwrites the earlier ones", "                adjoint_values[v] = sum_op(old_value, adjv.reduce(sum_op, agg_vars))", "                adjoint_values[v] = adjv.reduce(sum_op, agg_vars)"),
        ("the root's own free inputs are marginalised", "agg_vars = adjv.input_vars - v.input_vars - root.input_vars - batch_vars", "agg_vars = adjv.input_vars - v.input_vars - batch_vars"),
    )

    def structures(self, tier):
        for label in dags():
            yield label, label

    def build(self, p, st):
        Node._table.clear()
        tape, root, leaves = dags()[st]()

        class Ops:
            UNITS = {SUM: const_pt(ZERO), PROD: const_pt(ONE)}
            null = NULL
            SAFE_BINARY_INVERSES = {}

        class Reflect:
            def __enter__(self):
                return self

            def __exit__(self, *a):
                return False

        ns0 = dict(ops=Ops, AssociativeOp=AssocCls, Funsor=PT, isinstance=core.sisinstance, Approximate=lambda op, model, guide, approx_vars: model, ValueError=ValueError, NotImplementedError=NotImplementedError, len=len)
        rules = {}
        for name in ("adjoint_binary", "adjoint_reduce", "adjoint_contract"):
            rules[name] = core.make_callable(core.locate(FILE, name), ns0)[0]

        def adjoint_ops(fn, sum_op, bin_op, out_adj, *inputs):
            # model of the KeyedRegistry dispatch on the node class and argument types
            if fn is BinaryP:
                return rules["adjoint_binary"](sum_op, bin_op, out_adj, *inputs)
            if fn is ReduceP:
                return rules["adjoint_reduce"](sum_op, bin_op, out_adj, *inputs)
            if fn is ContractionP:
                s_, p_, rv, terms = inputs[0], inputs[1], inputs[2], inputs[3:]
                if len(terms) == 1 and isinstance(terms[0], tuple):  # adjoint_contract_generic unpacks the tuple
                    terms = terms[0]
                if len(terms) == 1:  # adjoint_contract_unary
                    return rules["adjoint_reduce"](sum_op, bin_op, out_adj, s_, terms[0], rv)
                if len(terms) == 2:
                    return rules["adjoint_contract"](sum_op, bin_op, out_adj, s_, p_, rv, *terms)
            raise Unsupported("adjoint rule for %r" % (fn,))

        class Tape:
            pass

        tp = Tape()
        tp.tape = list(tape)
        tp._eager_to_lazy = {}
        for out, cls, args in tape:
            tp._eager_to_lazy[out] = out
        ns = dict(ns0, to_funsor=lambda x, *a: x, defaultdict=defaultdict, reflect=Reflect(), substitute=lambda t, subs: t if not subs else (_ for _ in ()).throw(Unsupported("alpha-renamed tape entry")),
                  adjoint_ops=adjoint_ops, set=set, tuple=tuple, type=type)
        ns["_alpha_unmangle"] = core.make_callable(core.locate(FILE, "_alpha_unmangle"), ns)[0]
        return Ctx(args=(tp, SUM, PROD, root), kwargs=dict(targets=list(leaves)), namespace=ns, root=root, leaves=leaves, st=st)

    def ensures(self, ctx, result):
        root = ctx.root
        ok = True
        detail = None
        for leaf in ctx.leaves:
            got = result[leaf]
            names = list(OrderedDict.fromkeys(list(leaf.inputs) + list(root.inputs)))
            if not isinstance(got, PT) or not set(got.inputs) <= set(names):
                ok = False
                break
            for vals in itertools.product(range(SIZE), repeat=len(names)):
                env = dict(zip(names, vals))
                expect = poly_diff(root.at(env), leaf.sym(env))
                if not (got.at({k: env[k] for k in got.inputs}) == expect):
                    ok = False
                    break
            if not ok:
                break
        return [("every_leaf_adjoint_is_the_formal_derivative_of_the_root", ok)]
