"""Contracts on funsor/terms.py: Slice (meta-call, __init__, eager_subs) and Cat.eager_subs (C01, C04, C06, C10)."""
import itertools
from collections import OrderedDict

import z3

from pyvc import core
from pyvc.contract import Contract, Ctx, mval, register
from pyvc.core import SV, And, Declined, If, Implies, Not, Or, deep_eq, smax, smin, truth

from . import models as M
from .c_domains import div_hints
from .models import MDom
from .specs import ceil_div, spec_range_len


# ---- models of term classes (assumed constructor contracts) --------------------------------------
class MTerm:
    """base of term models; `__model_class__` drives isinstance in the executor"""

    __model_class__ = None


class VariableM(MTerm):
    def __init__(self, name, output):
        self.name, self.output = name, output
        self.inputs = OrderedDict([(name, output)])


VariableM.__model_class__ = VariableM


class NumberM(MTerm):
    def __init__(self, data, dtype="real"):
        self.data, self.dtype = data, dtype
        self.output = MDom(dtype, ())
        self.inputs = OrderedDict()


NumberM.__model_class__ = NumberM


class SliceM(MTerm):
    """Slice(name, start, stop, step, dtype): the composition of the contracts of SliceMeta.__call__ and
    Slice.__init__ (both proved below): raises unless step > 0, start >= 0; stop normalised to
    min(dtype, max(start, stop)); inputs = {name: Bint[len(range(start, stop, step))]}, output Bint[dtype]."""

    def __init__(self, name, *args, **kwargs):
        start, step, dtype = 0, 1, None
        if len(args) == 1:
            stop = args[0]
            dtype = kwargs.pop("dtype", stop)
        elif len(args) == 2:
            start, stop = args
            dtype = kwargs.pop("dtype", stop)
        elif len(args) == 3:
            start, stop, step = args
            dtype = kwargs.pop("dtype", stop)
        elif len(args) == 4:
            start, stop, step, dtype = args
        else:
            raise Declined("ValueError")
        if truth(step <= 0):
            raise Declined("ValueError")
        stop = smin(dtype, smax(start, stop))
        if not truth(start >= 0):
            raise Declined("AssertionError")
        if not truth(stop >= start):
            raise Declined("AssertionError")
        self.name = name
        self.slice = slice(start, stop, step)
        self.size = spec_range_len(start, stop, step)
        self.inputs = OrderedDict([(name, MDom(self.size, ()))])
        self.output = MDom(dtype, ())
        self.dtype = dtype


SliceM.__model_class__ = SliceM


class _Super:
    """stands for super() inside __call__/__init__ of a metaclass/class under contract: records the delegated call"""

    rec = None

    def __init__(self, *a, **k):
        self.rec.append(("__init__", a, k))

    def __call__(self, *a, **k):
        self.rec.append(("__call__", a, k))
        return ("constructed", a)


def make_super(rec):
    s = _Super.__new__(_Super)
    s.rec = rec
    return s


# --------------------------------------------------------------------------------------------------
@register
class SliceMetaCall(Contract):
    """Slice(name, [start,] stop[, step[, dtype]], dtype=...): ensures the class is called with
    (name, start, min(dtype, max(start, stop)), step, dtype) with Python-slice defaults start=0, step=1, dtype=stop;
    raises iff step <= 0 or the argument count is not 1..4."""

    props = ("C01", "C04", "C06")
    file = "funsor/terms.py"
    qualname = "SliceMeta.__call__"
    mutants = (
        ("stop not clamped to dtype", "stop = min(dtype, max(start, stop))", "stop = max(start, stop)"),
        ("stop may precede start", "stop = min(dtype, max(start, stop))", "stop = min(dtype, stop)"),
        ("zero step accepted", "if step <= 0:", "if step < 0:"),
    )

    def structures(self, tier):
        for n in range(0, 6):
            for kw in (False, True):
                if n == 4 and kw:
                    continue
                yield "nargs=%d,dtype_kw=%s" % (n, kw), (n, kw)

    def build(self, p, st):
        n, kw = st
        args = tuple(p.fresh_int("a%d" % i) for i in range(n))
        kwargs = {"dtype": p.fresh_int("dtype")} if kw else {}
        rec = []
        ctx = Ctx(args=(object(), "x") + args, kwargs=kwargs, namespace={}, a=args, kw=kwargs, rec=rec, n=n)
        return ctx

    def hooks(self, ctx):
        return {"super": lambda sc: make_super(ctx.rec)}

    def allow_vacuous(self, st):
        return st[0] not in (1, 2, 3, 4)

    def spec(self, ctx):
        a, n = ctx.a, ctx.n
        if n not in (1, 2, 3, 4):
            return None
        start, step = 0, 1
        if n == 1:
            stop = a[0]
        elif n == 2:
            start, stop = a
        elif n == 3:
            start, stop, step = a
        else:
            start, stop, step, dtype = a
        if n < 4:
            dtype = ctx.kw.get("dtype", stop)
        return start, stop, step, dtype

    def may_raise(self, ctx, etype):
        s = self.spec(ctx)
        if s is None:
            return True
        return s[2] <= 0

    def ensures(self, ctx, result):
        s = self.spec(ctx)
        if s is None:
            return [("bad_arity_raises", False)]
        start, stop, step, dtype = s
        ok = len(ctx.rec) == 1 and ctx.rec[0][0] == "__call__"
        if not ok:
            return [("delegates_once", False)]
        got = ctx.rec[0][1]
        exp = ("x", start, smin(dtype, smax(start, stop)), step, dtype)
        return [("step_positive_when_returns", step > 0), ("normalised_arguments", deep_eq(tuple(got), exp))]


@register
class SliceInit(Contract):
    """Slice.__init__: ensures inputs == {name: Bint[len(range(start, stop, step))]}, output == Bint[dtype],
    fresh == {name}; raises unless start >= 0, stop >= start, step > 0 (ints)."""

    props = ("C01", "C04", "C06")
    file = "funsor/terms.py"
    qualname = "Slice.__init__"
    mutants = (
        ("ceil -> floor", "size = max(0, (stop + step - 1 - start) // step)", "size = max(0, (stop - start) // step)"),
        ("off by one", "size = max(0, (stop + step - 1 - start) // step)", "size = max(0, (stop + step - start) // step)"),
    )

    def structures(self, tier):
        yield "-", None

    def build(self, p, st):
        start, stop, step, dtype = (p.fresh_int(n) for n in ("start", "stop", "step", "dtype"))
        p.assume(dtype >= 0)
        rec = []

        class Self:
            pass

        ctx = Ctx(args=(Self(), "x", start, stop, step, dtype), namespace=dict(M.DOMAIN_NS, OrderedDict=OrderedDict), v=(start, stop, step, dtype), rec=rec)
        return ctx

    def hooks(self, ctx):
        return {"super": lambda sc: make_super(ctx.rec)}

    def may_raise(self, ctx, etype):
        start, stop, step, dtype = ctx.v
        return Not(And(start >= 0, stop >= start, step > 0))

    def ensures(self, ctx, result):
        start, stop, step, dtype = ctx.v
        if len(ctx.rec) != 1:
            return [("delegates_once", False)]
        (inputs, output, fresh), kw = ctx.rec[0][1], ctx.rec[0][2]
        self_ = ctx.args[0]
        return [
            ("precondition_held", And(start >= 0, stop >= start, step > 0)),
            ("inputs_size_is_range_len", deep_eq(inputs, OrderedDict([("x", MDom(spec_range_len(start, stop, step), ()))]))),
            ("output_is_bint_dtype", deep_eq(output, MDom(dtype, ()))),
            ("fresh_is_name", fresh == frozenset({"x"})),
            ("slice_field", deep_eq(self_.slice, slice(start, stop, step))),
        ]

    def hints(self, ctx, path):
        return div_hints(path)


def mk_slice_self(p, pre="s", tag=""):
    """a well-formed Slice term (invariant established by SliceMeta.__call__ + Slice.__init__)"""
    start, stop, step, dtype = (p.fresh_int(pre + tag + n) for n in ("start", "stop", "step", "dtype"))
    p.assume(And(0 <= start, start <= stop, stop <= dtype, step >= 1))
    s = SliceM.__new__(SliceM)
    s.name = pre
    s.slice = slice(start, stop, step)
    s.size = spec_range_len(start, stop, step)
    s.inputs = OrderedDict([(pre, MDom(s.size, ()))])
    s.output = MDom(dtype, ())
    s.dtype = dtype
    return s


TERM_NS = dict(M.DOMAIN_NS, Variable=VariableM, Number=NumberM, Slice=SliceM, OrderedDict=OrderedDict)


@register
class SliceEagerSubs(Contract):
    """Slice.eager_subs (substituting for the slice's own input; well-typed: value.output == Bint[self.size]):
      Variable: same slice under the new name;
      Number i (0 <= i < size): Number(start + step*i) of dtype, and the value lies in [0, dtype);
      Slice t: result denotes k |-> self(t(k)) and has exactly t's size (C04: the inputs of the result are the
      free inputs of the substituted value) -- for all k < size(t): result.start + result.step*k == start + step*(t.start + t.step*k)."""

    props = ("C01", "C04", "C06", "C10")
    file = "funsor/terms.py"
    qualname = "Slice.eager_subs"
    timeout_ms = 30000
    mutants = (
        ("composition keeps outer stop (the pinned-tree defect)", "return Slice(name, start, stop, step, self.dtype)", "return Slice(name, start, self.slice.stop, step, self.dtype)"),
        ("steps added not multiplied", "step = self.slice.step * index.slice.step", "step = self.slice.step + index.slice.step"),
        ("number: step ignored", "data = self.slice.start + self.slice.step * index.data\n            return Number", "data = self.slice.start + index.data\n            return Number"),
    )

    def structures(self, tier):
        for k in ("Variable", "Number", "Slice"):
            yield k, k

    def build(self, p, kind):
        self_ = mk_slice_self(p, "s")
        if kind == "Variable":
            v = VariableM("j", MDom(self_.size, ()))
        elif kind == "Number":
            i = p.fresh_int("i")
            p.assume(And(0 <= i, i < self_.size))
            v = NumberM(i, self_.size)
        else:
            v = mk_slice_self(p, "t")
            p.assume(v.dtype == self_.size)
        return Ctx(args=(self_, (("s", v),)), namespace=TERM_NS, self_=self_, v=v, kind=kind, p=p)

    def may_raise(self, ctx, etype):
        # composing with an EMPTY index slice positioned at the very end may fail Slice's own precondition
        # (start > dtype): declining is allowed by C04; nothing else may raise
        return ctx.v.size == 0 if ctx.kind == "Slice" else False

    def ensures(self, ctx, result):
        s, v = ctx.self_, ctx.v
        a, b, st = s.slice.start, s.slice.stop, s.slice.step
        if ctx.kind == "Variable":
            return [("renamed_same_slice", And(isinstance(result, SliceM), result.name == "j", deep_eq(result.slice, s.slice), deep_eq(result.dtype, s.dtype)))]
        if ctx.kind == "Number":
            return [
                ("value_is_start_plus_step_i", And(isinstance(result, NumberM), deep_eq(result.data, a + st * v.data), deep_eq(result.dtype, s.dtype))),
                ("value_in_declared_range", And(0 <= a + st * v.data, a + st * v.data < s.dtype)),
            ]
        k = ctx.p.fresh_int("k")
        ok = isinstance(result, SliceM) and result.name == "t"
        if not ok:
            return [("is_slice_named_after_index", False)]
        ra, rst = result.slice.start, result.slice.step
        return [
            ("same_size_as_index", deep_eq(result.size, v.size)),
            ("denotes_composition", Implies(And(0 <= k, k < v.size), ra + rst * k == a + st * (v.slice.start + v.slice.step * k))),
            ("dtype_kept", deep_eq(result.dtype, s.dtype)),
        ]

    def hints(self, ctx, path):
        return div_hints(path) + mul_hints(path)

    def replay(self, ctx, m, st, clause):
        if ctx.kind != "Slice":
            return None
        s, v = ctx.self_, ctx.v
        g = lambda x: mval(m, x)
        return (
            "import sys\nfrom funsor import Slice\ns=Slice('s',%d,%d,%d,%d)\nn=s.inputs['s'].size\nt=Slice('t',%d,%d,%d,n)\n"
            "r=s(s=t)\nexp=[s(s=int(t(t=k).data)).data for k in range(t.inputs['t'].size)]\n"
            "got=[r(t=k).data for k in range(r.inputs['t'].size)]\nprint(s, t, '->', r, got, exp)\nsys.exit(1 if list(map(int,got))!=list(map(int,exp)) else 0)\n"
            % (g(s.slice.start), g(s.slice.stop), g(s.slice.step), g(s.dtype), g(v.slice.start), min(g(v.slice.stop), 10 ** 6), g(v.slice.step))
        )


def mul_hints(path):
    """ground instances of lemma `mul_mono` (lemmas/arith.py): for witnesses a = q*b + r with b > 0:
    q*b <= a < (q+1)*b  (already implied) plus product-sign facts q >= 0 <-> a >= 0"""
    out = []
    for (a, b, q, r) in path.ghost.get("divs", []):
        out.append(z3.Implies(z3.And(b > 0, a >= 0), q >= 0))
        out.append(z3.Implies(z3.And(b > 0, a < 0), q < 0))
        out.append(z3.Implies(z3.And(b > 0, a >= b), q >= 1))
    return out


# --------------------------------------------------------------------------------------------------
class PartM(MTerm):
    """an opaque funsor part with input `part_name` of symbolic size; calling it records the substitution"""

    def __init__(self, k, size, part_name):
        self.k, self.size_, self.part_name = k, size, part_name
        self.inputs = OrderedDict([(part_name, MDom(size, ()))])
        self.output = M.Real

    def __call__(self, **kw):
        assert list(kw) == [self.part_name]
        return SubPartM(self, kw[self.part_name])


PartM.__model_class__ = PartM


class SubPartM(MTerm):
    def __init__(self, part, value):
        self.part, self.value = part, value


class CatM(MTerm):
    def __init__(self, name, parts, part_name=None):
        if not isinstance(parts, LoopSeq) and (not isinstance(parts, tuple) or not parts):
            raise Declined("AssertionError", "Cat of no parts")
        self.name, self.parts, self.part_name = name, parts, part_name


CatM.__model_class__ = CatM


class Iteration:
    """result marker of an inductive-step execution of a loop body (arbitrary iteration under the invariant)"""

    def __init__(self, **kw):
        self.__dict__.update(kw)


@register
class CatEagerSubs(Contract):
    """Cat.eager_subs (value substituted for the concatenated input; well-typed: value.output == Bint[sum sizes]);
    ANY number of parts: the two loops are verified by inductive invariants (init / preserve / exit), not unrolled.
      Variable v: Cat renamed to v.
      Number n0 (0 <= n0 < total): invariant at the head of `for part in self.parts` with `off` = sum of the sizes of the
        parts already visited: n == n0 - off and n >= 0.  preserve: a part either returns itself at local offset
        n0 - off with off <= n0 < off + size, or leaves n' == n0 - (off + size) >= 0.  exit: n0 - total >= 0
        contradicts n0 < total, so the `assert False` is unreachable (the function is total).
      Slice (a,b,s): invariant: pos == off (prefix sum) and new_parts holds, in order, the restrictions of the visited
        parts.  preserve (arbitrary part of size psize at offset pos): pos' == pos + psize, at most one element is
        appended, it is this part sliced by a local Slice(pstart, pstop, s, psize) such that for EVERY global position g in
        [pos, pos+psize):  g in range(a,b,s)  <=>  the part is kept and g-pos in range(pstart, pstop, s);
        exit: returns Cat(<the slice's name>, tuple(new_parts), part_name) -- the result's input is the free input of the
        substituted value (C04), not the Cat's old name.
    Lemma (paper, induction on the number of parts): per-part exactness + order preservation give
    result[k] == self[a + k*s] for all k < len(range(a,b,s)).  All sizes, offsets, slice fields symbolic."""

    props = ("C01", "C04", "C10")
    file = "funsor/terms.py"
    qualname = "Cat.eager_subs"
    timeout_ms = 30000
    mutants = (
        ("modular start used inside the first part (the pinned-tree defect)", "if step > 1 and pos > start:", "if step > 1:"),
        ("number: offset not subtracted", "n -= size", "n -= 0"),
        ("slice: stop not clipped to part", "pstop = min(pos + psize, stop) - pos", "pstop = stop - pos"),
        ("slice: position not advanced", "pos += psize", "pos += 0"),
        ("slice: part dropped when the slice starts at its last position", "pos + psize <= start", "pos + psize <= start + 1"),
        ("slice: result keeps the Cat's own name (the pinned-tree defect)", "return Cat(value.name, tuple(new_parts), self.part_name)", "return Cat(self.name, tuple(new_parts), self.part_name)"),
    )

    def structures(self, tier):
        for kind in ("Variable", "Number", "Slice"):
            yield kind, kind

    def build(self, p, kind):
        total = p.fresh_int("total")
        p.assume(total >= 0)
        self_ = CatM("t", (PartM("unused", 0, "p"),), "p")
        self_.inputs = OrderedDict([("t", MDom(total, ()))])
        self_.parts = LoopSeq()
        if kind == "Variable":
            v = VariableM("u", MDom(total, ()))
        elif kind == "Number":
            i = p.fresh_int("n0")
            p.assume(And(0 <= i, i < total))
            v = NumberM(i, total)
        else:
            v = mk_slice_self(p, "v")
            p.assume(v.dtype == total)
        ns = dict(TERM_NS, Cat=CatM)
        return Ctx(args=(self_, (("t", v),)), namespace=ns, self_=self_, v=v, kind=kind, total=total, p=p, init=None, it=None)

    def hooks(self, ctx):
        def loop(interp, s, sc, ordinal, it):
            if not isinstance(it, LoopSeq):
                return False
            p = ctx.path
            total = ctx.total
            if ctx.kind == "Number":
                ctx.init = ("number", sc.lookup("n"))
                off = p.fresh_int("off")
                if p.choose(2, "phase") == 0:  # arbitrary iteration under the invariant
                    psize = p.fresh_int("psize")
                    p.assume(And(off >= 0, psize >= 0, off + psize <= total))
                    n = p.fresh_int("n")
                    p.assume(And(n == ctx.v.data - off, n >= 0))
                    part = PartM("k", psize, "p")
                    ctx.it = Iteration(off=off, psize=psize, part=part)
                    sc.store("n", n)
                    interp.assign(s.target, part, sc)
                    interp.exec_block(s.body, sc)
                    raise core._Return(Iteration(kind="number-step", off=off, psize=psize, n_after=sc.lookup("n")))
                n = p.fresh_int("n")
                p.assume(And(n == ctx.v.data - total, n >= 0))  # invariant at exit
                if not p.feasible():
                    raise core.Infeasible()
                sc.store("n", n)
                return True
            # Slice branch
            ctx.init = ("slice", sc.lookup("pos"), list(sc.lookup("new_parts")))
            if p.choose(2, "phase") == 0:
                pos, psize = p.fresh_int("pos"), p.fresh_int("psize")
                p.assume(And(pos >= 0, psize >= 0, pos + psize <= total))
                part = PartM("k", psize, "p")
                lst = []
                sc.store("pos", pos)
                sc.store("new_parts", lst)
                interp.assign(s.target, part, sc)
                interp.exec_block(s.body, sc)
                raise core._Return(Iteration(kind="slice-step", pos=pos, psize=psize, part=part, appended=lst, pos_after=sc.lookup("pos")))
            ctx.final = [PartM("abstract-processed-parts", 0, "p")]
            sc.store("pos", total)
            sc.store("new_parts", ctx.final)
            return True

        return {"loop": loop}

    def may_raise(self, ctx, etype):
        if ctx.kind == "Slice":
            # Cat(()) of an empty selection raises: allowed (evaluation may decline); at the level of one iteration
            # nothing may raise.  (The exit phase calls Cat on an abstract non-empty list.)
            return False
        return False

    def ensures(self, ctx, result):
        v = ctx.v
        if ctx.kind == "Variable":
            return [("renamed", And(isinstance(result, CatM), result.name == "u", result.parts is ctx.self_.parts, result.part_name == "p"))]
        if ctx.kind == "Number":
            cl = [("init_invariant", deep_eq(ctx.init[1], v.data))]
            if isinstance(result, Iteration):
                cl.append(("preserve_invariant", And(deep_eq(result.n_after, v.data - (result.off + result.psize)), result.n_after >= 0)))
            elif isinstance(result, SubPartM) and ctx.it is not None and result.part is ctx.it.part:
                off, psize = ctx.it.off, ctx.it.psize
                cl.append(("returns_part_containing_n0_at_local_offset", And(off <= v.data, v.data < off + psize, deep_eq(result.value, v.data - off))))
            else:
                cl.append(("returns_a_part_or_continues", False))
            return cl
        a, b, s = v.slice.start, v.slice.stop, v.slice.step
        cl = [("init_invariant", And(deep_eq(ctx.init[1], 0), len(ctx.init[2]) == 0))]
        if isinstance(result, Iteration):
            pos, psize = result.pos, result.psize
            cl.append(("preserve_pos_is_prefix_sum", deep_eq(result.pos_after, pos + psize)))
            app = result.appended
            if len(app) > 1:
                return cl + [("at_most_one_part_appended", False)]
            p = ctx.p
            g = p.fresh_int("g")
            in_part = And(pos <= g, g < pos + psize)
            sel_global = And(a <= g, g < b, core.mod_pos(g - a, s) == 0)
            if app:
                e = app[0]
                if not (isinstance(e, SubPartM) and e.part is result.part and isinstance(e.value, SliceM) and e.value.name == "p"):
                    return cl + [("appended_is_this_part_sliced", False)]
                sl = e.value
                l = g - pos
                local = And(sl.slice.start <= l, l < sl.slice.stop, core.mod_pos(l - sl.slice.start, sl.slice.step) == 0)
                cl.append(("kept_part_selects_exactly_the_slice_positions", Implies(in_part, sel_global == local)))
                cl.append(("local_slice_typed", And(deep_eq(sl.dtype, psize), deep_eq(sl.slice.step, s))))
            else:
                cl.append(("part_dropped_only_if_it_contains_no_slice_position", Implies(in_part, Not(sel_global))))
            return cl
        cl.append(("exit_returns_cat_of_collected_parts_named_after_the_slice", And(isinstance(result, CatM), result.name == "v", result.part_name == "p", len(result.parts) == 1 and result.parts[0] is ctx.final[0])))
        return cl

    def hints(self, ctx, path):
        return div_hints(path) + mul_hints(path)

    def replay(self, ctx, m, st, clause):
        g = lambda x: mval(m, x)
        if ctx.kind != "Slice" or not hasattr(ctx, "path"):
            return None
        v = ctx.v
        # embed the refuted iteration in a two-part Cat: part0 of size pos, part1 of size psize
        names = {d.name(): m[d] for d in m.decls()}
        pos = [int(str(val)) for k, val in names.items() if k.startswith("pos!")]
        psz = [int(str(val)) for k, val in names.items() if k.startswith("psize!")]
        if not pos or not psz:
            return None
        total = g(ctx.total)
        sizes = [pos[0], psz[0], max(0, total - pos[0] - psz[0])]
        sizes = [x for x in sizes]
        if max(sizes) > 2000:
            return None
        return (
            "import sys, numpy as np\nfrom collections import OrderedDict\nfrom funsor import Tensor, Bint, Cat, Slice\nfrom funsor.interpretations import lazy\nfrom funsor.interpreter import reinterpret\n"
            "sizes=[x for x in %r if x>0]; a,b,s=%d,%d,%d\noffs=np.cumsum([0]+sizes)\nparts=tuple(Tensor(np.arange(offs[k],offs[k+1],dtype=float), OrderedDict(p=Bint[sizes[k]])) for k in range(len(sizes)))\n"
            "tot=int(offs[-1])\nwith lazy:\n    c=Cat('t',parts,'p')\ntry:\n    r=reinterpret(c.eager_subs((('t',Slice('v',a,b,s,tot)),)))\nexcept AssertionError:\n    print('declined'); sys.exit(0)\n"
            "got=list(r.data) if hasattr(r,'data') else None\nexp=list(np.arange(tot,dtype=float)[a:b:s])\nprint(got, exp)\nsys.exit(1 if got!=exp else 0)\n"
            % (sizes, g(v.slice.start), g(v.slice.stop), g(v.slice.step))
        )


class LoopSeq:
    """a sequence of arbitrarily many parts: can only be iterated through a loop contract"""

    def __sym_iter__(self):
        raise core.Unsupported("iteration over an unbounded sequence without a loop contract")
