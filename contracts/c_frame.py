"""C20: the two functions of funsor/ops/array.py that write into arrays do so only on a private copy."""
from pyvc import core
from pyvc.contract import Contract, Ctx, register


class Arr:
    """an array object recording every write applied to it"""

    def __init__(self, name):
        self.name = name
        self.writes = []
        self.copies = []

    def copy(self):
        c = Arr(self.name + ".copy")
        self.copies.append(c)
        return c

    def __sym_setitem__(self, idx, v):
        self.writes.append(("setitem", idx, v))


class _Scatter(Contract):
    props = ("C20",)
    file = "funsor/ops/array.py"
    total = True

    def structures(self, tier):
        yield "-", None

    def build(self, p, st):
        destin, source = Arr("destin"), Arr("source")
        idx = ("i", "j")

        class AddAt:
            @staticmethod
            def at(target, indices, src):
                target.writes.append(("add.at", indices, src))

        class NP:
            add = AddAt

        return Ctx(args=(destin, idx, source), namespace={"np": NP}, destin=destin, source=source, idx=idx)

    def ensures(self, ctx, result):
        d, s = ctx.destin, ctx.source
        return [
            ("arguments_not_written", d.writes == [] and s.writes == []),
            ("result_is_a_private_copy_of_destin", len(d.copies) == 1 and result is d.copies[0] and s.copies == []),
            ("one_write_of_source_at_indices_into_the_copy", len(result.writes) == 1 and result.writes[0][0] == self.kind and result.writes[0][1] == ctx.idx and result.writes[0][2] is s),
        ]


@register
class Scatter(_Scatter):
    """_scatter(destin, indices, source): modifies nothing reachable from its arguments; returns a private copy of destin
    with source written at indices."""

    qualname = "_scatter"
    kind = "setitem"
    mutants = (("writes in place", "result = destin.copy()", "result = destin"),)


@register
class ScatterAdd(_Scatter):
    """_scatter_add: as _scatter, accumulating with np.add.at on the private copy."""

    qualname = "_scatter_add"
    kind = "add.at"
    mutants = (("accumulates in place", "result = destin.copy()", "result = destin"),)
