"""Exact real algebra for the value-level Gaussian contracts (C12 / C13 / C14).

The real functions of funsor/gaussian.py and funsor/integrate.py are executed by the pyvc executor on numpy OBJECT arrays whose
entries are elements of the field

    K = QQ(x_1, ..., x_n)(s_1)(s_2)...(s_k),      s_j^2 = e_j  in  QQ(x_1..x_n)(s_1..s_{j-1})

i.e. rational functions of the INDETERMINATE array entries x_i (one per entry of every input array: the entries are not sampled,
they are variables) extended by the square roots that Cholesky / QR factorisations introduce.  Every element is kept in the
canonical form a + b*s_k with a, b one level down; level 0 is sympy's sparse fraction field (exact gcd-cancelled quotients of
polynomials over QQ).  Equality of two elements is decided by normal form (`is_zero`), which is

  * sound: if the difference normalises to 0 the two sides agree at EVERY real point where the callees' contracts are defined
    (positive definite Gram matrices: all pivots and radicands positive, so no denominator vanishes), for every consistent
    choice of roots and hence for the positive ones the callees return;
  * complete when no radicand is a square one level down (Cholesky / Gram-Schmidt pivots of generic matrices are not; a
    radicand that IS a square makes `inv` raise, which the contracts report as undecided, never as a pass).

A non-zero normal form is reported as refuted only after the two sides have also been evaluated numerically at a random rational
point and found different (`differs_numerically`); otherwise the clause is undecided.

Callee contracts used as models (assumptions, listed in the evidence):
  ops.cholesky(A)            the lower-triangular L with positive diagonal and L L' = A        (Cholesky-Banachiewicz recurrences)
  ops.triangular_solve(B,L)  the X with L X = B (forward substitution; `upper`, `transpose` variants likewise)
  ops.qr(A)                  reduced QR, Q'Q = I, Q R = A, R upper triangular: Gram-Schmidt up to a column-sign pattern
                             (QR of a full-column-rank matrix is unique up to those signs; every pattern is a structure)
  ops.log / ops.exp / math.log   uninterpreted: log terms are kept formally (LinV / ExpV); only  log(a) + log(b) = log(ab)
                             is never needed -- two sides must agree log-argument by log-argument
  float arithmetic           treated as exact real arithmetic (rounding is the bounded tier's subject)
"""
import itertools
import random
from fractions import Fraction

import numpy as np
from sympy.polys.domains import QQ
from sympy.polys.fields import field

from pyvc.core import Declined, Unsupported


class Tower:
    def __init__(self, names):
        self.names = list(names)
        self.F, *gens = field(self.names, QQ)
        self.gens = dict(zip(self.names, gens))
        self.radicands = []  # e_k as a level-k representation (k = index)
        self.sqrt_cache = {}

    # representation: level 0 = FracElement; level k = (a, b) with a, b of level k-1, meaning a + b * s_k
    def lift(self, rep, lvl_from, lvl_to):
        for k in range(lvl_from, lvl_to):
            rep = (rep, self.zero(k))
        return rep

    def zero(self, lvl):
        return self.lift(self.F.zero, 0, lvl)

    def add(self, x, y, lvl):
        if lvl == 0:
            return x + y
        return (self.add(x[0], y[0], lvl - 1), self.add(x[1], y[1], lvl - 1))

    def neg(self, x, lvl):
        if lvl == 0:
            return -x
        return (self.neg(x[0], lvl - 1), self.neg(x[1], lvl - 1))

    def is_zero(self, x, lvl):
        if lvl == 0:
            return x == 0
        return self.is_zero(x[0], lvl - 1) and self.is_zero(x[1], lvl - 1)

    def mul(self, x, y, lvl):
        if lvl == 0:
            return x * y
        l = lvl - 1
        a, b = x
        c, d = y
        bz, dz = self.is_zero(b, l), self.is_zero(d, l)
        if bz and dz:
            return (self.mul(a, c, l), b)
        if bz:
            return (self.mul(a, c, l), self.mul(a, d, l))
        if dz:
            return (self.mul(a, c, l), self.mul(b, c, l))
        e = self.radicands[l]
        return (self.add(self.mul(a, c, l), self.mul(self.mul(b, d, l), e, l), l), self.add(self.mul(a, d, l), self.mul(b, c, l), l))

    def inv(self, x, lvl):
        if lvl == 0:
            if x == 0:
                raise ZeroDivisionError("division by an identically zero element")
            return 1 / x
        l = lvl - 1
        a, b = x
        if self.is_zero(b, l):
            return (self.inv(a, l), b)
        den = self.add(self.mul(a, a, l), self.neg(self.mul(self.mul(b, b, l), self.radicands[l], l), l), l)
        if self.is_zero(den, l):
            raise ZeroDivisionError("a radicand is a square one level down: normal forms are not canonical")
        di = self.inv(den, l)
        return (self.mul(a, di, l), self.mul(self.neg(b, l), di, l))

    def sqrt(self, x, lvl):
        """adjoin a root of x (the same root for the same radicand)"""
        key = self.key(x, lvl)
        if key in self.sqrt_cache:
            return self.sqrt_cache[key]
        k = len(self.radicands)
        if lvl > k:
            raise Unsupported("tower level")
        self.radicands.append(self.lift(x, lvl, k))
        r = RE(self, (self.zero(k), self.lift(self.F.one, 0, k)), k + 1)
        self.sqrt_cache[key] = r
        return r

    def key(self, x, lvl):
        """canonical hashable key of an element (trailing zero s-parts stripped)"""
        while lvl > 0 and self.is_zero(x[1], lvl - 1):
            x, lvl = x[0], lvl - 1
        return (lvl, self._freeze(x, lvl))

    def _freeze(self, x, lvl):
        if lvl == 0:
            return x
        return (self._freeze(x[0], lvl - 1), self._freeze(x[1], lvl - 1))

    def evalf(self, x, lvl, env, roots):
        if lvl == 0:
            num = x.numer.as_expr().subs(env)
            den = x.denom.as_expr().subs(env)
            return float(num) / float(den)
        return self.evalf(x[0], lvl - 1, env, roots) + self.evalf(x[1], lvl - 1, env, roots) * roots[lvl - 1]

    def numeric_point(self, seed=0):
        """a random rational point of the indeterminates and the positive roots there (None if some radicand is negative)"""
        rnd = random.Random(seed)
        import sympy

        env = {sympy.Symbol(n): sympy.Rational(rnd.randint(-9, 9), rnd.randint(1, 4)) for n in self.names}
        roots = []
        for k, e in enumerate(self.radicands):
            v = self.evalf(e, k, env, roots)
            if v < 0:
                return None
            roots.append(v ** 0.5)
        return env, roots


class RE:
    """element of the tower; supports + - * / and integer powers with python numbers and each other"""


    def __init__(self, T, rep, lvl):
        self.T, self.rep, self.lvl = T, rep, lvl

    @staticmethod
    def coerce(T, v):
        if isinstance(v, RE):
            return v
        if isinstance(v, (bool, np.bool_)):
            return None
        if isinstance(v, (float, np.floating)):
            v = Fraction(float(v))
        if isinstance(v, (int, np.integer)):
            v = Fraction(int(v))
        if isinstance(v, Fraction):
            return RE(T, T.F(QQ(v.numerator, v.denominator)), 0)
        return None

    def _bin(self, o):
        o = RE.coerce(self.T, o)
        if o is None:
            return None
        l = max(self.lvl, o.lvl)
        return self.T.lift(self.rep, self.lvl, l), self.T.lift(o.rep, o.lvl, l), l

    def __add__(self, o):
        if isinstance(o, np.ndarray):
            return NotImplemented
        if isinstance(o, LinV):
            return o.__radd__(self)
        r = self._bin(o)
        if r is None:
            return NotImplemented
        return RE(self.T, self.T.add(r[0], r[1], r[2]), r[2])

    __radd__ = __add__

    def __neg__(self):
        return RE(self.T, self.T.neg(self.rep, self.lvl), self.lvl)

    def __pos__(self):
        return self

    def __sub__(self, o):
        if isinstance(o, np.ndarray):
            return NotImplemented
        if isinstance(o, LinV):
            return o.__rsub__(self)
        o2 = RE.coerce(self.T, o)
        if o2 is None:
            return NotImplemented
        return self + (-o2)

    def __rsub__(self, o):
        o2 = RE.coerce(self.T, o)
        if o2 is None:
            return NotImplemented
        return o2 - self

    def __mul__(self, o):
        if isinstance(o, np.ndarray):
            return NotImplemented
        if isinstance(o, (LinV, ExpV)):
            return o.__rmul__(self)
        r = self._bin(o)
        if r is None:
            return NotImplemented
        return RE(self.T, self.T.mul(r[0], r[1], r[2]), r[2])

    __rmul__ = __mul__

    def __truediv__(self, o):
        o2 = RE.coerce(self.T, o)
        if o2 is None:
            return NotImplemented
        try:
            return self * RE(self.T, self.T.inv(o2.rep, o2.lvl), o2.lvl)
        except ZeroDivisionError as e:
            raise Unsupported("exact real algebra: %s" % e)

    def __rtruediv__(self, o):
        o2 = RE.coerce(self.T, o)
        if o2 is None:
            return NotImplemented
        return o2 / self

    def __pow__(self, n):
        if isinstance(n, float) and n == int(n):
            n = int(n)
        if not isinstance(n, (int, np.integer)):
            raise Unsupported("non-integer power of a symbolic real")
        if n < 0:
            return RE.coerce(self.T, 1) / (self ** (-n))
        r = RE.coerce(self.T, 1)
        for _ in range(int(n)):
            r = r * self
        return r

    def is_zero(self):
        return self.T.is_zero(self.rep, self.lvl)

    def sqrt(self):
        return self.T.sqrt(self.rep, self.lvl)

    def key(self):
        return self.T.key(self.rep, self.lvl)

    def __bool__(self):
        raise Unsupported("truth value of a symbolic real")

    def __eq__(self, o):
        raise Unsupported("== on symbolic reals (use same())")

    __hash__ = None

    def __repr__(self):
        return "RE<lvl %d>" % self.lvl

    def evalf(self, point):
        env, roots = point
        return self.T.evalf(self.rep, self.lvl, env, roots)


class LinV:
    """formal value  q + sum_k c_k * log(a_k)  (+ c * log(2 pi)):  q, c_k in the tower, a_k canonical tower elements"""


    def __init__(self, T, q, logs):
        self.T, self.q, self.logs = T, q, logs  # logs: key -> (coefficient RE, argument or None)

    @staticmethod
    def lift(T, v):
        if isinstance(v, LinV):
            return v
        q = RE.coerce(T, v)
        if q is None:
            return None
        return LinV(T, q, {})

    def __add__(self, o):
        if isinstance(o, np.ndarray):
            return NotImplemented
        o = LinV.lift(self.T, o)
        if o is None:
            return NotImplemented
        logs = dict(self.logs)
        for k, (c, a) in o.logs.items():
            logs[k] = (logs[k][0] + c, a) if k in logs else (c, a)
        return LinV(self.T, self.q + o.q, logs)

    __radd__ = __add__

    def __neg__(self):
        return LinV(self.T, -self.q, {k: (-c, a) for k, (c, a) in self.logs.items()})

    def __sub__(self, o):
        if isinstance(o, np.ndarray):
            return NotImplemented
        o = LinV.lift(self.T, o)
        if o is None:
            return NotImplemented
        return self + (-o)

    def __rsub__(self, o):
        o = LinV.lift(self.T, o)
        if o is None:
            return NotImplemented
        return o + (-self)

    def __mul__(self, o):
        if isinstance(o, np.ndarray):
            return NotImplemented
        c = RE.coerce(self.T, o)
        if c is None:
            if isinstance(o, LinV) and not o.logs:
                c = o.q
            elif isinstance(o, LinV) and not self.logs:
                return o * self.q
            else:
                raise Unsupported("product of two formal logarithm terms")
        return LinV(self.T, self.q * c, {k: (cc * c, a) for k, (cc, a) in self.logs.items()})

    __rmul__ = __mul__

    def __truediv__(self, o):
        c = RE.coerce(self.T, o)
        if c is None:
            return NotImplemented
        return self * (RE.coerce(self.T, 1) / c)

    def is_zero(self):
        return self.q.is_zero() and all(c.is_zero() for c, _ in self.logs.values())

    def __bool__(self):
        raise Unsupported("truth value of a symbolic real")

    def evalf(self, point):
        import math

        v = self.q.evalf(point)
        for k, (c, a) in self.logs.items():
            v += c.evalf(point) * (math.log(2 * math.pi) if a is None else math.log(a.evalf(point)))
        return v


class ExpV:
    """formal value  c * exp(lin)"""


    def __init__(self, T, coef, lin):
        self.T, self.coef, self.lin = T, coef, lin

    def __mul__(self, o):
        if isinstance(o, np.ndarray):
            return NotImplemented
        if isinstance(o, ExpV):
            return ExpV(self.T, self.coef * o.coef, self.lin + o.lin)
        c = RE.coerce(self.T, o)
        if c is None:
            return NotImplemented
        return ExpV(self.T, self.coef * c, self.lin)

    __rmul__ = __mul__

    def __neg__(self):
        return ExpV(self.T, -self.coef, self.lin)

    def evalf(self, point):
        import math

        return self.coef.evalf(point) * math.exp(self.lin.evalf(point))


# --------------------------------------------------------------------------------------------------
# arrays
# --------------------------------------------------------------------------------------------------
def names_of(name, shape):
    return ["%s_%s" % (name, "_".join(map(str, idx))) if shape else name for idx in itertools.product(*map(range, shape))]


def fresh(T, name, shape):
    a = np.empty(shape, dtype=object)
    for idx in itertools.product(*map(range, shape)):
        a[idx] = RE(T, T.gens["%s_%s" % (name, "_".join(map(str, idx))) if shape else name], 0)
    return a


def const(T, v, shape):
    a = np.empty(shape, dtype=object)
    for idx in itertools.product(*map(range, shape)):
        a[idx] = RE.coerce(T, v)
    return a


def tower_of(x):
    for e in np.asarray(x, dtype=object).flat:
        if isinstance(e, (RE, LinV, ExpV)):
            return e.T
    raise Unsupported("array without symbolic entries")


def _batched(fn, arrs, core_ndims, out_core_shape_fn):
    """apply fn to the trailing core dims of the (broadcast) arrays, looping over the leading batch dims"""
    batches = [a.shape[: a.ndim - n] for a, n in zip(arrs, core_ndims)]
    batch = np.broadcast_shapes(*batches)
    arrs = [np.broadcast_to(a, batch + a.shape[a.ndim - n:]) for a, n in zip(arrs, core_ndims)]
    out = None
    for idx in itertools.product(*map(range, batch)):
        r = fn(*[a[idx] for a in arrs])
        if out is None:
            out = np.empty(batch + r.shape, dtype=object)
        out[idx] = r
    if out is None:
        raise Unsupported("empty batch")
    return out


def _zero(T):
    return RE.coerce(T, 0)


def cholesky2(A):
    n = A.shape[-1]
    T = tower_of(A)
    L = const(T, 0, (n, n))
    for j in range(n):
        d = A[j, j]
        for k in range(j):
            d = d - L[j, k] * L[j, k]
        if d.is_zero():
            # an identically zero pivot: the Gram matrix is singular for EVERY value of the indeterminates (rank < dim)
            raise Declined("LinAlgError", "Matrix is not positive definite")
        L[j, j] = d.sqrt()
        for i in range(j + 1, n):
            v = A[i, j]
            for k in range(j):
                v = v - L[i, k] * L[j, k]
            L[i, j] = v / L[j, j]
    return L


def tri_solve2(B, L, upper=False):
    """X with L X = B, L lower (upper) triangular"""
    n, m = B.shape
    T = tower_of(L)
    X = const(T, 0, (n, m))
    order = list(range(n)) if not upper else list(reversed(range(n)))
    for c in range(m):
        for i in order:
            v = B[i, c]
            ks = range(i) if not upper else range(i + 1, n)
            for k in ks:
                v = v - L[i, k] * X[k, c]
            X[i, c] = v / L[i, i]
    return X


def qr2(A, signs):
    """reduced QR of the r x d matrix A by Gram-Schmidt, column j of Q and row j of R multiplied by signs[j]"""
    r, d = A.shape
    T = tower_of(A)
    Q = const(T, 0, (r, d))
    R = const(T, 0, (d, d))
    for j in range(d):
        v = [A[i, j] for i in range(r)]
        for k in range(j):
            dot = _zero(T)
            for i in range(r):
                dot = dot + Q[i, k] * A[i, j]
            R[k, j] = dot
            v = [v[i] - dot * Q[i, k] for i in range(r)]
        n2 = _zero(T)
        for i in range(r):
            n2 = n2 + v[i] * v[i]
        nrm = n2.sqrt()
        R[j, j] = nrm
        for i in range(r):
            Q[i, j] = v[i] / nrm
    for j in range(d):
        if signs[j] < 0:
            Q[:, j] = -Q[:, j]
            R[j, :] = -R[j, :]
    return Q, R


def solve_spd(A, B):
    """spec side: A^-1 B by Gaussian elimination in the field (A symmetric positive definite: pivots are non-zero)"""
    n = A.shape[0]
    B2 = B.reshape(n, -1)
    M = [[A[i, j] for j in range(n)] + [B2[i, c] for c in range(B2.shape[1])] for i in range(n)]
    m = B2.shape[1]
    for c in range(n):
        for r_ in range(c + 1, n):
            f = M[r_][c] / M[c][c]
            for k in range(c, n + m):
                M[r_][k] = M[r_][k] - f * M[c][k]
    X = const(tower_of(A), 0, (n, m))
    for c in range(m):
        for i in reversed(range(n)):
            v = M[i][n + c]
            for k in range(i + 1, n):
                v = v - M[i][k] * X[k, c]
            X[i, c] = v / M[i][i]
    return X.reshape(B.shape)


def det_spd(A):
    """spec side: determinant by elimination (product of pivots)"""
    n = A.shape[0]
    M = [[A[i, j] for j in range(n)] for i in range(n)]
    det = RE.coerce(tower_of(A), 1)
    for c in range(n):
        det = det * M[c][c]
        for r_ in range(c + 1, n):
            f = M[r_][c] / M[c][c]
            for k in range(c, n):
                M[r_][k] = M[r_][k] - f * M[c][k]
    return det


class AbsV:
    """|x| of a tower element, usable only under log"""

    def __init__(self, x):
        self.x = x

    def _no(self, *a):
        raise Unsupported("arithmetic on |x| of a symbolic real (sign unknown)")

    __add__ = __radd__ = __sub__ = __rsub__ = __mul__ = __rmul__ = __truediv__ = __rtruediv__ = __neg__ = _no


class TwoPi:
    def __init__(self, k):
        self.k = k

    def __rmul__(self, o):
        return TwoPi(self.k * o)

    __mul__ = __rmul__


class MathNS:
    """model of the math module for the constants the Gaussian code uses: math.log(2 * math.pi) is a formal symbol"""

    def __init__(self, T):
        self.T = T
        self.pi = TwoPi(Fraction(1, 2))

    def log(self, x):
        if isinstance(x, TwoPi) and x.k == 1:
            return LinV(self.T, RE.coerce(self.T, 0), {"log2pi": (RE.coerce(self.T, 1), None)})
        raise Unsupported("math.log of %r" % (x,))


def log2pi(T, c):
    return LinV(T, RE.coerce(T, 0), {"log2pi": (RE.coerce(T, c), None)})


def formal_log(T, a):
    return LinV(T, RE.coerce(T, 0), {("log", a.key()): (RE.coerce(T, 1), a)})


class OpsReal:
    """model of funsor.ops on exact-real object arrays (numpy semantics for the shape-only operations)"""

    def __init__(self, T, qr_signs=None):
        self.T = T
        self.qr_signs = qr_signs
        self.calls = []

    def transpose(self, x, a, b):
        return np.swapaxes(x, a, b)

    def cholesky(self, A):
        self.calls.append("cholesky")
        return _batched(cholesky2, [A], [2], None)

    def triangular_solve(self, B, L, upper=False, transpose=False):
        self.calls.append("triangular_solve")
        if transpose:
            L = np.swapaxes(L, -1, -2)
            upper = not upper
        return _batched(lambda b, l: tri_solve2(b, l, upper), [B, L], [2, 2], None)

    def cholesky_solve(self, B, L):
        y = self.triangular_solve(B, L)
        return self.triangular_solve(y, L, transpose=True)

    def cholesky_inverse(self, L):
        n = L.shape[-1]
        eye = self.new_eye(L, L.shape[:-2] + (n,))
        return self.cholesky_solve(eye, L)

    def triangular_inv(self, L, upper=False):
        n = L.shape[-1]
        eye = self.new_eye(L, L.shape[:-2] + (n,))
        return self.triangular_solve(eye, L, upper=upper)

    def qr(self, A):
        self.calls.append("qr")
        if self.qr_signs is None:
            raise Unsupported("qr without a sign pattern")
        d = A.shape[-1]
        qs = _batched(lambda a: np.concatenate(qr2(a, self.qr_signs[:d]), 0), [A], [2], None)
        r = A.shape[-2]
        return qs[..., :r, :], qs[..., r:, :]

    def diagonal(self, x, d1, d2):
        return np.diagonal(x, axis1=d1, axis2=d2)

    def flip(self, x, dims):
        return np.flip(x, dims)

    def log(self, x):
        T = self.T
        f = lambda e: formal_log(T, e.x * e.x) * Fraction(1, 2) if isinstance(e, AbsV) else formal_log(T, RE.coerce(T, e))
        if isinstance(x, np.ndarray):
            out = np.empty(x.shape, dtype=object)
            for idx in itertools.product(*map(range, x.shape)):
                out[idx] = f(x[idx])
            return out
        return f(x)

    def exp(self, x):
        T = self.T
        f = lambda e: ExpV(T, RE.coerce(T, 1), LinV.lift(T, e))
        if isinstance(x, np.ndarray):
            out = np.empty(x.shape, dtype=object)
            for idx in itertools.product(*map(range, x.shape)):
                out[idx] = f(x[idx])
            return out
        return f(x)

    def abs(self, x):
        """|x| is kept formally (AbsV); only log|x| = 1/2 log(x^2) is interpreted"""
        if isinstance(x, np.ndarray):
            out = np.empty(x.shape, dtype=object)
            for idx in itertools.product(*map(range, x.shape)):
                out[idx] = AbsV(RE.coerce(self.T, x[idx]))
            return out
        return AbsV(RE.coerce(self.T, x))

    def cat(self, parts, dim=0):
        return np.concatenate(list(parts), dim)

    def stack(self, parts, dim=0):
        return np.stack(list(parts), dim)

    def expand(self, x, shape):
        shape = tuple(shape)
        full = tuple(x.shape[i - len(shape)] if s == -1 else s for i, s in enumerate(shape))
        return np.broadcast_to(x, full)

    def unsqueeze(self, x, dim):
        return np.expand_dims(x, dim)

    def permute(self, x, dims):
        return np.transpose(x, dims)

    def new_zeros(self, proto, shape):
        return const(self.T, 0, tuple(shape))

    def new_eye(self, proto, shape):
        n = shape[-1]
        out = const(self.T, 0, tuple(shape) + (n,))
        for i in range(n):
            out[..., i, i] = RE.coerce(self.T, 1)
        return out

    def new_arange(self, proto, *args):
        return np.arange(*args)

    def new_full(self, proto, shape, v):
        return const(self.T, v, tuple(shape))

    def is_numeric_array(self, x):
        return isinstance(x, np.ndarray)


def same(a, b):
    """exact equality of two scalars / arrays of tower (or formal log / exp) elements; shapes must agree"""
    a, b = np.asarray(a, dtype=object), np.asarray(b, dtype=object)
    if a.shape != b.shape:
        return False
    for x, y in zip(a.flat, b.flat):
        if isinstance(x, Mismatch) or isinstance(y, Mismatch):
            return False
        if not isinstance(x, (RE, LinV, ExpV)) and not isinstance(y, (RE, LinV, ExpV)):
            if x != y:
                return False
            continue
        if isinstance(x, ExpV) or isinstance(y, ExpV):
            if not (isinstance(x, ExpV) and isinstance(y, ExpV)):
                return False
            if not ((x.coef - y.coef).is_zero() and (x.lin - y.lin).is_zero()):
                return False
            continue
        d = x - y
        if not d.is_zero():
            return False
    return True


def differs_numerically(T, a, b, seeds=(0, 1, 2), tol=1e-6):
    """True if the two sides differ at some random rational point (confirmation of a non-zero normal form)"""
    a, b = np.asarray(a, dtype=object), np.asarray(b, dtype=object)
    if a.shape != b.shape or any(isinstance(x, Mismatch) for x in list(a.flat) + list(b.flat)):
        return True
    for s in seeds:
        pt = T.numeric_point(s)
        if pt is None:
            continue
        for x, y in zip(a.flat, b.flat):
            try:
                vx = x.evalf(pt) if hasattr(x, "evalf") else float(x)
                vy = y.evalf(pt) if hasattr(y, "evalf") else float(y)
            except (ValueError, ZeroDivisionError, OverflowError):
                continue
            if abs(vx - vy) > tol * (1 + abs(vx) + abs(vy)):
                return True
    return False


def verdict(T, a, b):
    """clause formula: True (proved), False (refuted, confirmed numerically); raises Unsupported when neither"""
    if same(a, b):
        return True
    if differs_numerically(T, a, b):
        T.refuted = True  # the contract's replay() turns a numeric point into a native call of the real code
        return False
    raise Unsupported("normal forms differ but no numeric difference found (non-canonical radicand?)")


class Mismatch:
    """result of a specification term whose operands do not fit (a result of the wrong shape): equal to nothing"""

    def _same(self, *a):
        return self

    __add__ = __radd__ = __sub__ = __rsub__ = __mul__ = __rmul__ = __neg__ = _same


def quad(x, P, w):
    """||x P - w||^2 for a row vector x"""
    x, P, w = np.asarray(x, dtype=object), np.asarray(P, dtype=object), np.asarray(w, dtype=object)
    if x.ndim != 1 or P.ndim != 2 or w.ndim != 1 or P.shape != (x.shape[0], w.shape[0]):
        return Mismatch()
    if w.shape[0] == 0:
        return 0
    res = x[None, :] @ P - w[None, :]
    return (res @ res.T)[0, 0]


def conformance():
    """the linear-algebra models against numpy on rational matrices (every triangular / transposed variant, several right-hand
    sides, a batch): returns the list of disagreements.  A fresh tower per case keeps the nesting of roots shallow."""
    bad = []
    rnd = random.Random(7)

    def mat(n, m):
        return [[Fraction(rnd.randint(-5, 5), rnd.randint(1, 3)) for _ in range(m)] for _ in range(n)]

    def lift(T, rows):
        a = np.empty((len(rows), len(rows[0])), dtype=object)
        for i, r in enumerate(rows):
            for j, v in enumerate(r):
                a[i, j] = RE.coerce(T, v)
        return a

    def num(T, a):
        pt = T.numeric_point(0)
        a = np.asarray(a, dtype=object)
        out = np.empty(a.shape, dtype=float)
        for idx in itertools.product(*map(range, a.shape)):
            x = a[idx]
            out[idx] = float(x.evalf(pt)) if isinstance(x, RE) else float(x)
        return out

    for n in (1, 2):
        for m in (1, 2):
            T = Tower(["unused"])
            ops_ = OpsReal(T)
            B0 = mat(n, n + 1)
            A = [[sum(B0[i][k] * B0[j][k] for k in range(n + 1)) for j in range(n)] for i in range(n)]
            Af = np.array(A, dtype=float)
            L = ops_.cholesky(lift(T, A))
            Lf = np.linalg.cholesky(Af)
            if not np.allclose(num(T, L), Lf):
                bad.append(("cholesky", n))
            rhs = mat(n, m)
            Rf = np.array(rhs, dtype=float)
            for upper, transpose in ((False, False), (False, True)):
                X = ops_.triangular_solve(lift(T, rhs), L, upper=upper, transpose=transpose)
                M = Lf.T if transpose else Lf
                if not np.allclose(num(T, X), np.linalg.solve(M, Rf)):
                    bad.append(("triangular_solve", n, m, upper, transpose))
            X = ops_.triangular_solve(lift(T, rhs), np.swapaxes(L, -1, -2), upper=True)
            if not np.allclose(num(T, X), np.linalg.solve(Lf.T, Rf)):
                bad.append(("triangular_solve-upper", n, m))
            X = ops_.cholesky_solve(lift(T, rhs), L)
            if not np.allclose(num(T, X), np.linalg.solve(Af, Rf)):
                bad.append(("cholesky_solve", n, m))
            if m == 1:
                if not np.allclose(num(T, ops_.cholesky_inverse(L)), np.linalg.inv(Af)):
                    bad.append(("cholesky_inverse", n))
                if not np.allclose(num(T, ops_.triangular_inv(L)), np.linalg.inv(Lf)):
                    bad.append(("triangular_inv", n))
                if not np.allclose(num(T, solve_spd(lift(T, A), lift(T, rhs))), np.linalg.solve(Af, Rf)):
                    bad.append(("solve_spd", n, m))
                if abs(float(det_spd(lift(T, A)).evalf(T.numeric_point(0))) - np.linalg.det(Af)) > 1e-8 * (1 + abs(np.linalg.det(Af))):
                    bad.append(("det_spd", n))
        T = Tower(["unused"])
        ops_ = OpsReal(T, qr_signs=(1, -1))
        tall = mat(n + 1, n)
        Q, R_ = ops_.qr(lift(T, tall))
        Qf, Rf_ = num(T, Q), num(T, R_)
        if not (np.allclose(Qf @ Rf_, np.array(tall, dtype=float)) and np.allclose(Qf.T @ Qf, np.eye(n)) and np.allclose(Rf_, np.triu(Rf_))):
            bad.append(("qr", n))
    T = Tower(["unused"])
    ops_ = OpsReal(T)
    Ab = np.stack([lift(T, [[Fraction(4), Fraction(2)], [Fraction(2), Fraction(3)]]), lift(T, [[Fraction(9), Fraction(0)], [Fraction(0), Fraction(1)]])])
    Lb = ops_.cholesky(Ab)
    if Lb.shape != (2, 2, 2) or not np.allclose(num(T, Lb[1]), np.linalg.cholesky(np.array([[9.0, 0.0], [0.0, 1.0]]))):
        bad.append(("cholesky-batched",))
    return bad


def numeric_values(T, arrays, seed=0):
    """{name: nested list of floats} of the indeterminate arrays at the random rational point used by differs_numerically"""
    for sd in (seed, 1, 2, 3):
        pt = T.numeric_point(sd)
        if pt is not None:
            break
    else:
        return None
    env = pt[0]
    out = {}
    for k, arr in arrays.items():
        a = np.asarray(arr, dtype=object)
        vals = np.empty(a.shape, dtype=float)
        for idx in itertools.product(*map(range, a.shape)):
            vals[idx] = a[idx].evalf(pt)
        out[k] = vals.tolist()
    return out
