"""C11: the local derivative rules of funsor/adjoint.py (and the Scatter shortcut they rely on), pinned to the semiring
derivative: for out = lhs (x) rhs the adjoint of lhs is out_adj (x) rhs (the coefficient of lhs in out_adj (x) out, lemma
adjoint.coefficient), for out = lhs (+) rhs both operands receive out_adj, for out = sum_V arg the argument receives out_adj
(made exact by Approximate, which is exact), for a plate product the safe-inverse rule.  Operands are opaque.  The chain rule
over the tape is NOT mechanised (DESIGN section 4)."""
import itertools

from pyvc import core
from pyvc.contract import Contract, Ctx, register


class Vr:
    """a discrete variable"""

    _c = {}

    def __new__(cls, name):
        if name not in cls._c:
            o = object.__new__(cls)
            o.name, o.dtype = name, 3
            cls._c[name] = o
        return cls._c[name]


class X:
    def __init__(self, label, input_vars=()):
        self.label = label
        self.input_vars = frozenset(Vr(v) for v in input_vars)

    def reduce(self, op, vs):
        return ("reduce", self, op, frozenset(vs) if not isinstance(vs, frozenset) else vs)

    def __repr__(self):
        return self.label


class BinOp:
    def __init__(self, name):
        self.name = name

    def __call__(self, a, b):
        return (self.name, a, b)

    def __repr__(self):
        return self.name


SUM, PROD, OTHER, NULLOP = BinOp("sum"), BinOp("prod"), BinOp("other"), BinOp("null")
DIV = BinOp("safe-div")


class OpsNS:
    null = NULLOP
    SAFE_BINARY_INVERSES = {PROD: DIV}


class Exact(X):
    """Approximate(op, model, guide, vars): exact (eager_approximate returns the model); carries the model's variables"""

    def __init__(self, op, a, b, vs):
        X.__init__(self, "exact")
        self.input_vars = getattr(a, "input_vars", frozenset())
        self.t = ("exact", op, a, b, vs)

    def __eq__(self, o):
        return isinstance(o, Exact) and self.t == o.t or (isinstance(o, tuple) and self.t == o)

    __hash__ = object.__hash__


NS = dict(ops=OpsNS, Approximate=Exact, isinstance=core.sisinstance, int=int, frozenset=frozenset)


class _Adj(Contract):
    props = ("C11",)
    file = "funsor/adjoint.py"

    def mk(self):
        return X("out_adj"), X("lhs"), X("rhs")


@register
class AdjointBinary(_Adj):
    """adjoint_binary: out = lhs (x) rhs -> (lhs, out_adj (x) rhs), (rhs, out_adj (x) lhs);  out = lhs (+) rhs -> both receive
    out_adj; any other op raises."""

    qualname = "adjoint_binary"
    mutants = (("product rule gives each operand its own factor", "lhs_adj = adj_prod_op(out_adj, rhs)\n        rhs_adj = adj_prod_op(out_adj, lhs)", "lhs_adj = adj_prod_op(out_adj, lhs)\n        rhs_adj = adj_prod_op(out_adj, rhs)"),)

    def structures(self, tier):
        for o in ("prod", "sum", "other"):
            yield "op=%s" % o, o

    def build(self, p, o):
        oa, l, r = self.mk()
        op = {"prod": PROD, "sum": SUM, "other": OTHER}[o]
        return Ctx(args=(SUM, PROD, oa, op, l, r), namespace=NS, oa=oa, l=l, r=r, o=o)

    def may_raise(self, ctx, etype):
        return ctx.o == "other"

    def allow_vacuous(self, st):
        return st == "other"

    def ensures(self, ctx, result):
        oa, l, r = ctx.oa, ctx.l, ctx.r
        exp = ((l, ("prod", oa, r)), (r, ("prod", oa, l))) if ctx.o == "prod" else ((l, oa), (r, oa))
        return [("local_derivative_rule", result == exp)]


@register
class AdjointReduce(_Adj):
    """adjoint_reduce: out = sum_V arg -> arg receives out_adj (wrapped in the exact Approximate(sum, out_adj, out_adj (x) arg,
    V)); out = prod_V arg (plate) -> arg receives (out_adj (x) out) safe-divided by arg."""

    qualname = "adjoint_reduce"
    mutants = (("plate rule forgets the division", "return ((arg, div_op(adj_prod_op(out_adj, out), arg)),)", "return ((arg, adj_prod_op(out_adj, out)),)"),)

    def structures(self, tier):
        for o in ("sum", "prod", "other"):
            yield "op=%s" % o, o

    def build(self, p, o):
        oa, arg, _ = self.mk()
        op = {"prod": PROD, "sum": SUM, "other": OTHER}[o]
        V = frozenset(["v"])
        return Ctx(args=(SUM, PROD, oa, op, arg, V), namespace=NS, oa=oa, arg=arg, V=V, o=o)

    def may_raise(self, ctx, etype):
        return ctx.o == "other"

    def allow_vacuous(self, st):
        return st == "other"

    def ensures(self, ctx, result):
        oa, arg, V = ctx.oa, ctx.arg, ctx.V
        if ctx.o == "sum":
            exp = ((arg, ("exact", SUM, oa, ("prod", oa, arg), V)),)
        else:
            exp = ((arg, ("safe-div", ("prod", oa, ("reduce", arg, PROD, V)), arg)),)
        return [("local_derivative_rule", result == exp)]


@register
class AdjointContract(_Adj):
    """adjoint_contract: out = sum_V (lhs (x) rhs) (sum op null or the adjoint sum) -> with out_adj' the exact
    Approximate(sum, out_adj, out_adj (x) (lhs (x) rhs), V): lhs receives out_adj' (x) rhs and rhs receives lhs (x) out_adj' --
    the FULL other operand, no variable summed early (the tape sums the variables a leaf does not mention afterwards, and must
    keep those the root still depends on); out = lhs (+) rhs without reduction -> both receive out_adj."""

    qualname = "adjoint_contract"
    mutants = (("other operand pre-summed over its private variables", "lhs_adj = adj_prod_op(out_adj, rhs)\n        rhs_adj = adj_prod_op(lhs, out_adj)", "lhs_adj = adj_prod_op(out_adj, rhs.reduce(adj_sum_op, rhs.input_vars - lhs.input_vars))\n        rhs_adj = adj_prod_op(lhs, out_adj)"),)

    def structures(self, tier):
        for so in ("sum", "null", "other"):
            for po in ("prod", "sum"):
                for red in (True, False):
                    yield "sum_op=%s,prod_op=%s,reduced=%s" % (so, po, red), (so, po, red)

    def build(self, p, st):
        so, po, red = st
        oa = X("out_adj", ["a"])
        l, r = X("lhs", ["a", "b"]), X("rhs", ["b", "c"])
        sop = {"sum": SUM, "null": NULLOP, "other": OTHER}[so]
        pop = {"prod": PROD, "sum": SUM}[po]
        V = frozenset(["b"]) if red else frozenset()
        return Ctx(args=(SUM, PROD, oa, sop, pop, V, l, r), namespace=NS, oa=oa, l=l, r=r, V=V, st=st)

    def may_raise(self, ctx, etype):
        so, po, red = ctx.st
        return (po == "sum" and red) or (po == "prod" and so == "other")

    def allow_vacuous(self, st):
        return (st[1] == "sum" and st[2]) or (st[1] == "prod" and st[0] == "other")

    def ensures(self, ctx, result):
        so, po, red = ctx.st
        oa, l, r, V = ctx.oa, ctx.l, ctx.r, ctx.V
        if po == "prod" and so in ("sum", "null"):
            oa2 = ("exact", SUM, oa, ("prod", oa, ("prod", l, r)), V)
            return [("local_derivative_rule_with_the_full_other_operand", result == ((l, ("prod", oa2, r)), (r, ("prod", l, oa2))))]
        if po == "sum":
            return [("sum_rule", result == ((l, oa), (r, oa)))]
        return [("other_semirings_must_raise", False)]


class VarS:
    def __init__(self, name):
        self.name = name


class SliceS:
    def __init__(self, name):
        self.name = name


class VariableCls:
    @staticmethod
    def __sym_instancecheck__(x):
        return isinstance(x, VarS)


@register
class EagerScatterNumber(Contract):
    """tensor.eager_scatter_number(op, subs, source, reduced_vars): a constant scattered through an INJECTIVE RENAMING (every
    value a Variable, pairwise distinct names) is the constant itself; in every other case (slices, indices, repeated names:
    positions that are not hit must receive the op's unit) it is materialised and handed to the tensor scatter."""

    props = ("C11",)
    file = "funsor/tensor.py"
    qualname = "eager_scatter_number"
    total = True
    mutants = (("slices treated as renamings", "if all(isinstance(v, Variable) for k, v in subs):", "if all(isinstance(v, (Variable, SliceCls)) for k, v in subs):"), ("repeated target names accepted", "if len({v.name for k, v in subs}) == len(subs):", "if True:"))

    def structures(self, tier):
        kinds = ["var:x", "var:y", "slice:x", "slice:y"]
        for n in (1, 2):
            for ks in itertools.product(kinds, repeat=n):
                yield "subs=%s" % (",".join(ks),), ks

    def build(self, p, ks):
        subs = tuple(("k%d" % i, VarS(k[4:]) if k.startswith("var") else SliceS(k[6:])) for i, k in enumerate(ks))

        class Src:
            data = 3.5
            dtype = "real"

        calls = []

        def est(op, s, source, rv):
            calls.append((op, s, source, rv))
            return ("tensor-scatter", source)

        ns = dict(Variable=VariableCls, Slice=type("S2", (), {"__sym_instancecheck__": staticmethod(lambda x: isinstance(x, SliceS))}), SliceCls=type("S", (), {"__sym_instancecheck__": staticmethod(lambda x: isinstance(x, SliceS))}), isinstance=core.sisinstance, all=core.sall, Tensor=lambda d, dtype=None: ("Tensor", d, dtype), numeric_array=lambda d: ("array", d), eager_scatter_tensor=est, len=len)
        src = Src()
        return Ctx(args=("op", subs, src, frozenset()), namespace=ns, ks=ks, src=src, calls=calls, subs=subs)

    def ensures(self, ctx, result):
        ks = ctx.ks
        renaming = all(k.startswith("var") for k in ks) and len({k[4:] for k in ks}) == len(ks)
        if renaming:
            return [("injective_renaming_returns_the_constant", result is ctx.src and ctx.calls == [])]
        return [("everything_else_is_materialised_and_scattered", ctx.calls == [("op", ctx.subs, ("Tensor", ("array", 3.5), "real"), frozenset())] and result == ("tensor-scatter", ("Tensor", ("array", 3.5), "real")))]


@register
class AdjointSubs(_Adj):
    """adjoint_subs(sum_op, prod_op, out_adj, arg, subs): the adjoint of arg under out = arg(subs) is the SCATTER of out_adj back
    along the substitution: every key is first relabelled to a fresh name (so that it cannot collide with a free input of a
    value or of out_adj that happens to be spelled the same), Scatter(sum_op, relabelled pairs, out_adj, R) is built with R =
    exactly the inputs of out_adj and of the values that the relabelled arg does not have (they are summed: positions that
    receive several contributions add up, positions that receive none hold the semiring zero), and the fresh names are
    renamed back to the keys.  No shortcut: also a substitution made of Variables only goes through Scatter (two keys may be
    sent to the same variable -- the diagonal -- and then everything off the diagonal must be zero).
    structure bound: <= 2 pairs; values that are variables (distinct or repeated), index tensors, or share inputs with arg."""

    qualname = "adjoint_subs"
    total = True
    mutants = (
        ("inputs of the values are not summed", "        reduced_vars |= v.input_vars - relabeled_arg.input_vars\n", "        pass\n"),
        ("keys not relabelled before scattering", "relabeled_subs = tuple((relabel[k], v) for k, v in subs)", "relabeled_subs = tuple((k, v) for k, v in subs)"),
    )

    def structures(self, tier):
        vals = ["var:k", "var:m", "ten:k", "ten:kb", "ten:"]
        for n in (1, 2):
            for vs in itertools.product(vals, repeat=n):
                for out in ("", "k", "kb", "z"):
                    yield "values=%s,out_adj_inputs=%s" % (",".join(vs), out or "-"), (vs, out)

    def build(self, p, st):
        vs, out = st
        keys = ["a", "b"][: len(vs)]
        counter = [0]

        class Interp:
            @staticmethod
            def gensym(k):
                counter[0] += 1
                return "%s__%d" % (k, counter[0])

        class Arg(X):
            def __call__(self_, **ren):
                r = X("relabelled_arg", [ren.get(v.name, v.name) for v in self_.input_vars])
                r.ren = dict(ren)
                return r

        class Renamable(X):
            def __call__(self_, **ren):
                return ("renamed", self_, tuple(sorted(ren.items())))

        class VariableT(Renamable):
            def __init__(self_, label, names):
                X.__init__(self_, label, names)
                self_.name = names[0]

        arg = Arg("arg", ["a", "b", "c"])
        values = [(VariableT if v.startswith("var:") else Renamable)("value_%s" % k, list(v.split(":")[1])) for k, v in zip(keys, vs)]
        subs = tuple(zip(keys, values))
        out_adj = Renamable("out_adj", list(out))
        made = []

        class ScatterT:
            def __init__(self_, op, s, src, rv):
                self_.t = (op, tuple(s), src, frozenset(rv))
                made.append(self_)

            def __call__(self_, **ren):
                return ("renamed-back", self_, tuple(sorted(ren.items())))

        ns = dict(NS, interpreter=Interp, Scatter=ScatterT, tuple=tuple, Variable=VariableT, all=core.sall, isinstance=isinstance)
        return Ctx(args=(SUM, PROD, out_adj, arg, subs), namespace=ns, arg=arg, subs=subs, out_adj=out_adj, made=made, keys=keys, st=st)

    def ensures(self, ctx, result):
        vs, out = ctx.st
        if len(ctx.made) != 1:
            return [("one_scatter", False)]
        sc = ctx.made[0]
        op, pairs, src, rv = sc.t
        fresh = [k for k, v in pairs]
        fresh_ok = len(set(fresh)) == len(fresh) and all(f not in ("a", "b", "c", "k", "m", "z") for f in fresh) and [v for k, v in pairs] == [v for k, v in ctx.subs]
        arg_names = ({"a", "b", "c"} - set(ctx.keys)) | set(fresh)
        exp_rv = set(out)
        for k, v in ctx.subs:
            exp_rv |= {x.name for x in v.input_vars}
        exp_rv -= arg_names
        back = dict(zip(fresh, ctx.keys))
        return [
            ("scatter_of_the_out_adjoint_with_the_sum_op", op is SUM and src is ctx.out_adj),
            ("keys_relabelled_to_fresh_names_values_kept", fresh_ok),
            ("sums_exactly_the_inputs_the_argument_lacks", {x.name for x in rv} == exp_rv),
            ("fresh_names_renamed_back_and_paired_with_the_argument", result == ((ctx.arg, ("renamed-back", sc, tuple(sorted(back.items())))),)),
        ]
