"""C10 (and the time-lagged part of it): the WHOLE scan algorithms of funsor/sum_product.py executed on abstract tensors over the
free commutative semiring (contracts/poly.py).  Every entry of the transition tensor is a distinct indeterminate; products and
reductions build polynomials; results are compared as polynomial identities -- hence for ALL tensor contents and every
commutative semiring -- with the time-ordered fold of the property statement (an independent unrolling written here) or, for
sarkka_bilmes_product, with its naive counterpart (the real naive_sarkka_bilmes_product, as the property states).
The callees are the REAL ones, interpreted from /repo on every run: sequential_sum_product, mixed_sequential_sum_product,
naive_sequential_sum_product, _shift_name, _shift_funsor, _get_shift.  The tensor algebra itself (substitution of an index /
Slice / new name, Contraction, Cat, Stack, reduce) is the model PT below: it is the DENOTATION those constructors have by
their own contracts (C01 / C04 tiers), with concrete sizes.
Structure bound (this complements the symbolic-duration loop invariants of c_sumproduct.py, which hold for every duration
but check one iteration at a time): durations 1..8 (thorough ..12), state size 2, one or two state pairs, transitions that do /
do not depend on time and on a batch input, every number of segments, lag sets over {1,2,3}, 1..2 periods."""
import itertools
import re
from collections import OrderedDict
from functools import reduce
from math import gcd

from pyvc import core
from pyvc.contract import Contract, Ctx, register
from pyvc.core import Declined, Unsupported

from .poly import ONE, ZERO, Poly

FILE = "funsor/sum_product.py"


class Dm:
    def __init__(self, size):
        self.size = self.dtype = size
        self.shape = ()

    def __eq__(self, o):
        return isinstance(o, Dm) and o.size == self.size

    def __hash__(self):
        return hash(("Dm", self.size))

    def __repr__(self):
        return "Bint[%d]" % self.size


class BintNS:
    def __getitem__(self, n):
        return Dm(n)


class VarP:
    def __init__(self, name, dom):
        self.name, self.output = name, dom

    def __eq__(self, o):
        return isinstance(o, VarP) and (o.name, o.output) == (self.name, self.output)

    def __hash__(self):
        return hash(("VarP", self.name))


class SliceP:
    """Slice(name, start, stop, step, dtype) with SliceMeta's defaults: positions start, start+step, ... < stop"""

    def __init__(self, name, *args, **kwargs):
        start, step, dtype = 0, 1, None
        if len(args) == 1:
            stop = args[0]
            dtype = kwargs.pop("dtype", stop)
        elif len(args) == 2:
            start, stop = args
            dtype = kwargs.pop("dtype", stop)
        elif len(args) == 3:
            start, stop, step = args
            dtype = kwargs.pop("dtype", stop)
        elif len(args) == 4:
            start, stop, step, dtype = args
        else:
            raise Declined("ValueError", "Slice arguments")
        if step <= 0:
            raise Declined("ValueError", "Slice step")
        stop = min(dtype, max(start, stop))
        self.name, self.dtype = name, dtype
        self.positions = list(range(start, stop, step))


class PT:
    """abstract tensor: ordered named integer inputs with concrete sizes, and env -> Poly"""

    output = "Real"

    def __init__(self, inputs, fn, label="t"):
        self.inputs = OrderedDict((k, v if isinstance(v, Dm) else Dm(v)) for k, v in inputs.items())
        self.fn, self.label = fn, label

    def at(self, env):
        return self.fn({k: env[k] for k in self.inputs})

    def __call__(self, **kw):
        new_inputs = OrderedDict()
        plan = []  # (own input, kind, payload)
        for k, d in self.inputs.items():
            if k not in kw:
                plan.append((k, "keep", k))
                new_inputs.setdefault(k, d)
                continue
            v = kw[k]
            if isinstance(v, bool):
                raise Unsupported("bool index")
            if isinstance(v, int):
                if not 0 <= v < d.size:
                    raise Declined("IndexError", "index %d out of range for %s: %s" % (v, k, d))
                plan.append((k, "index", v))
            elif isinstance(v, str):
                plan.append((k, "rename", v))
                if v in new_inputs and new_inputs[v] != d:
                    raise Declined("AssertionError", "renaming onto an input of another size")
                new_inputs.setdefault(v, d)
            elif isinstance(v, SliceP):
                if v.dtype != d.size:
                    raise Declined("AssertionError", "Slice dtype %s for input %s: %s" % (v.dtype, k, d))
                plan.append((k, "slice", v))
                nd = Dm(len(v.positions))
                if v.name in new_inputs and new_inputs[v.name] != nd:
                    raise Declined("AssertionError", "slice name collides")
                new_inputs.setdefault(v.name, nd)
            else:
                raise Unsupported("substituted value %r" % (v,))
        # a new name that collides with a KEPT input listed later is an identification (diagonal), as in funsor
        src = self

        def fn(env):
            e = {}
            for k, kind, pay in plan:
                if kind == "keep":
                    e[k] = env[k]
                elif kind == "index":
                    e[k] = pay
                elif kind == "rename":
                    e[k] = env[pay]
                else:
                    e[k] = pay.positions[env[pay.name]]
            return src.at(e)

        return PT(new_inputs, fn, self.label + "'")

    def reduce(self, op, names=None):
        if names is None:
            names = frozenset(self.inputs)
        if isinstance(names, str):
            names = frozenset([names])
        names = set(n.name if isinstance(n, VarP) else n for n in names)
        mine = [n for n in self.inputs if n in names]
        absent = [n for n in names if n not in self.inputs]
        if absent:
            raise Unsupported("reduce over a variable the operand does not have: %s" % absent)
        if not mine:
            return self
        rest = OrderedDict((k, d) for k, d in self.inputs.items() if k not in mine)
        src = self
        sizes = [self.inputs[n].size for n in mine]

        def fn(env):
            acc = None
            for vals in itertools.product(*map(range, sizes)):
                e = dict(env)
                e.update(zip(mine, vals))
                v = src.at(e)
                acc = v if acc is None else op.combine(acc, v)
            return acc

        return PT(rest, fn, "red")

    def __repr__(self):
        return "%s%s" % (self.label, [(k, d.size) for k, d in self.inputs.items()])


class SemiringOp:
    def __init__(self, kind):
        self.kind = kind

    def combine(self, a, b):
        return a + b if self.kind == "sum" else a * b

    def __call__(self, f, g):
        ins = OrderedDict(f.inputs)
        for k, d in g.inputs.items():
            if k in ins and ins[k] != d:
                raise Declined("ValueError", "size mismatch on %s" % k)
            ins.setdefault(k, d)
        op = self
        return PT(ins, lambda env: op.combine(f.at(env), g.at(env)), "bin")


class AssocCls:
    @staticmethod
    def __sym_instancecheck__(x):
        return isinstance(x, SemiringOp)


class FunsorCls:
    @staticmethod
    def __sym_instancecheck__(x):
        return isinstance(x, PT)


class VariableCls:
    @staticmethod
    def __sym_instancecheck__(x):
        return isinstance(x, VarP)

    def __call__(self, name, dom):
        return VarP(name, dom)


def Contraction(sum_op, prod_op, drop, x, y):
    return prod_op(x, y).reduce(sum_op, frozenset(v.name if isinstance(v, VarP) else v for v in drop))


def Cat(name, parts, part_name=None):
    part_name = name if part_name is None else part_name
    parts = tuple(parts)
    for p in parts:
        if part_name not in p.inputs:
            raise Declined("AssertionError", "Cat: a part lacks the input %s" % part_name)
    ins = OrderedDict()
    for p in parts:
        for k, d in p.inputs.items():
            if k != part_name:
                if k in ins and ins[k] != d:
                    raise Declined("ValueError", "Cat parts disagree on %s" % k)
                ins.setdefault(k, d)
    sizes = [p.inputs[part_name].size for p in parts]
    ins[name] = Dm(sum(sizes))

    def fn(env):
        i = env[name]
        for p, n in zip(parts, sizes):
            if i < n:
                e = dict(env)
                e[part_name] = i
                return p.at(e)
            i -= n
        raise AssertionError

    return PT(ins, fn, "cat")


def Stack(name, parts):
    parts = tuple(parts)
    if any(name in p.inputs for p in parts):
        raise Declined("AssertionError", "Stack name is an input of a part")
    ins = OrderedDict([(name, Dm(len(parts)))])
    for p in parts:
        for k, d in p.inputs.items():
            ins.setdefault(k, d)
    return PT(ins, lambda env: parts[env[name]].at(env), "stack")


def namespace():
    ns = dict(OrderedDict=OrderedDict, AssociativeOp=AssocCls, Funsor=FunsorCls, Variable=VariableCls(), Slice=SliceP, Contraction=Contraction, Cat=Cat, Stack=Stack,
              Bint=BintNS(), reduce=reduce, gcd=gcd, re=re, isinstance=core.sisinstance)
    for h in ("_get_shift", "_shift_name", "_shift_funsor", "naive_sequential_sum_product", "sequential_sum_product"):
        ns[h] = core.make_callable(core.locate(FILE, h), ns)[0]
    # mixed_sequential_sum_product is recursive: the closure looks itself up in its own namespace
    box = {}
    ns2 = dict(ns)
    ns2["mixed_sequential_sum_product"] = lambda *a, **k: box["f"](*a, **k)
    box["f"] = core.make_callable(core.locate(FILE, "mixed_sequential_sum_product"), ns2)[0]
    ns["mixed_sequential_sum_product"] = box["f"]
    for h in ("naive_sarkka_bilmes_product",):
        ns[h] = core.make_callable(core.locate(FILE, h), ns)[0]
    box2 = {}
    ns3 = dict(ns)
    ns3["sarkka_bilmes_product"] = lambda *a, **k: box2["f"](*a, **k)
    box2["f"] = core.make_callable(core.locate(FILE, "sarkka_bilmes_product"), ns3)[0]
    ns["sarkka_bilmes_product"] = box2["f"]
    return ns


def leaf(inputs, tag="f"):
    names = tuple(inputs)
    return PT(inputs, lambda env: Poly.sym("%s[%s]" % (tag, ",".join("%s=%d" % (k, env[k]) for k in names))), tag)


def same_pt(a, b):
    """equal as functions of their (equal, order-insensitive) inputs, as polynomial identities"""
    if not (isinstance(a, PT) and isinstance(b, PT)):
        return False
    if {k: d.size for k, d in a.inputs.items()} != {k: d.size for k, d in b.inputs.items()}:
        return False
    names = list(a.inputs)
    for vals in itertools.product(*[range(a.inputs[k].size) for k in names]):
        env = dict(zip(names, vals))
        if not (a.at(env) == b.at(env)):
            return False
    return True


def fold_spec(trans, time, T, step, sum_op, prod_op):
    """the property's oracle: the per-step factors multiplied in time order, each step's `curr` identified with the next
    step's `prev`, the T-1 intermediate states summed out; a transition without the time input is the same factor at every step"""
    prevs = sorted(step)
    currs = [step[k] for k in prevs]
    others = [k for k in trans.inputs if k != time and k not in prevs and k not in currs]
    sizes = [trans.inputs[k].size for k in prevs]
    ins = OrderedDict((k, trans.inputs[k]) for k in trans.inputs if k != time)

    def fn(env):
        total = None
        state_space = list(itertools.product(*map(range, sizes)))
        for mids in itertools.product(*[state_space] * (T - 1)):
            states = [tuple(env[k] for k in prevs)] + list(mids) + [tuple(env[k] for k in currs)]
            term = None
            for t in range(T):
                e = {k: env[k] for k in others}
                if time in trans.inputs:
                    e[time] = t
                e.update(zip(prevs, states[t]))
                e.update(zip(currs, states[t + 1]))
                v = trans.at(e)
                term = v if term is None else prod_op.combine(term, v)
            total = term if total is None else sum_op.combine(total, term)
        return total

    return PT(ins, fn, "fold")


class _Scan(Contract):
    props = ("C10",)
    file = FILE
    max_paths = 20
    STEPS = {1: {"p": "c"}, 2: {"p": "c", "q": "d"}}

    def trans(self, T, npairs, on_time, batch):
        ins = OrderedDict()
        if on_time:
            ins["t"] = T
        if batch:
            ins["b"] = 2
        for k, v in self.STEPS[npairs].items():
            ins[k] = 2
            ins[v] = 2
        return leaf(ins)

    def may_raise(self, ctx, etype):
        # "whenever they return a value": a transition without the time input cannot be halved-and-concatenated
        return (not ctx.on_time) and etype == "AssertionError"

    def allow_vacuous(self, st):
        return not st[2]

    def ensures(self, ctx, result):
        spec = fold_spec(ctx.trans, "t", ctx.T, ctx.step, ctx.sum_op, ctx.prod_op)
        return [("equals_the_time_ordered_fold_for_all_contents", same_pt(result, spec))]


@register
class SequentialSumProductWhole(_Scan):
    """sequential_sum_product on a concrete duration T, for ALL transition contents: the result equals the time-ordered fold
    (T factors multiplied, T-1 intermediate states summed out), for transitions that depend on time or not (a transition
    without the time input is the same factor at every step; the parallel scan then either raises -- it cannot concatenate an
    odd tail -- or returns exactly trans^T), with / without a batch input, one or two state pairs."""

    qualname = "sequential_sum_product"
    mutants = (
        ("odd tail dropped for time-independent transitions (seeded C10_time_independent_odd)", "        if duration > even_duration:", "        if duration > even_duration and time in trans.inputs:"),
        ("odd tail dropped", "        if duration > even_duration:", "        if False:"),
    )

    def structures(self, tier):
        for T in range(1, 9 if tier == "quick" else 13):
            for npairs in (1, 2):
                for on_time in (True, False):
                    for batch in (False, True):
                        if npairs == 2 and (T > 5 or batch):
                            continue
                        if batch and T > 6:
                            continue
                        yield "T=%d,pairs=%d,time-dependent=%s,batch=%s" % (T, npairs, on_time, batch), (T, npairs, on_time, batch)

    def build(self, p, st):
        T, npairs, on_time, batch = st
        tr = self.trans(T, npairs, on_time, batch)
        s, pr = SemiringOp("sum"), SemiringOp("prod")
        step = dict(self.STEPS[npairs])
        return Ctx(args=(s, pr, tr, VarP("t", Dm(T)), step), namespace=namespace(), trans=tr, T=T, step=step, sum_op=s, prod_op=pr, on_time=on_time)


@register
class MixedSequentialSumProductWhole(_Scan):
    """mixed_sequential_sum_product on concrete durations and EVERY number of segments 1..T (and None), for all contents:
    equals the time-ordered fold.  The recursion, the naive first stage over Stack'ed segments and the parallel second stage
    are the real callees."""

    qualname = "mixed_sequential_sum_product"
    mutants = (
        ("remainder taken from the front", "time, duration - duration % num_segments, duration, 1, duration", "time, 0, duration % num_segments, 1, duration"),
        ("segments overlap by one", "time, i * segment_length, (i + 1) * segment_length, 1, duration", "time, i * segment_length, (i + 1) * segment_length + 1, 1, duration"),
    )

    def structures(self, tier):
        for T in range(1, 8 if tier == "quick" else 11):
            for seg in [None] + list(range(1, T + 1)):
                for on_time in (True, False):
                    if not on_time and T > 5:
                        continue
                    yield "T=%d,segments=%s,time-dependent=%s" % (T, seg, on_time), (T, seg, on_time)

    def allow_vacuous(self, st):
        return not st[2]

    def build(self, p, st):
        T, seg, on_time = st
        tr = self.trans(T, 1, on_time, False)
        s, pr = SemiringOp("sum"), SemiringOp("prod")
        step = dict(self.STEPS[1])
        return Ctx(args=(s, pr, tr, VarP("t", Dm(T)), step), kwargs=dict(num_segments=seg), namespace=namespace(), trans=tr, T=T, step=step, sum_op=s, prod_op=pr, on_time=on_time)


@register
class SarkkaBilmesProduct(Contract):
    """sarkka_bilmes_product(sum_op, prod_op, trans, time_var, global_vars, num_periods) for time-lagged transitions (inputs a,
    _PREV_a, _PREV__PREV_a, ... per lag): for every lag set over {1,2,3}, every duration 1..7 (thorough ..9) -- shorter than,
    equal to, a multiple of and not a multiple of the period lcm(lags) -- with and without a global input, num_periods 1..2, and
    for ALL transition contents: the result has the same inputs as, and is equal (as a polynomial identity) to,
    naive_sarkka_bilmes_product on the same arguments.  Without lags both reduce to the plain scans."""

    props = ("C10",)
    file = FILE
    qualname = "sarkka_bilmes_product"
    total = True
    max_paths = 20
    mutants = (
        ("short durations keep the last step twice (seeded C10_sarkka_short_duration)", "            result = trans(**{time: remaining_duration - 1})\n            remaining_duration -= 1", "            result = trans(**{time: duration - 1})"),
        ("remaining prefix combined without shifting", "                _shift_funsor(trans(**{time: t}), remaining_duration - t, global_vars),", "                _shift_funsor(trans(**{time: t}), 0, global_vars),"),
        ("blocks take every step of the first period only", "        slice_t = Slice(time, t, duration - period + t + 1, period, duration)", "        slice_t = Slice(time, t, t + 1, period, duration)"),
    )

    def structures(self, tier):
        for lags in ((1,), (2,), (1, 2), (3,), (2, 3), (1, 3)):
            period = reduce(lambda a, b: a * b // gcd(a, b), lags)
            for T in range(1, 8 if tier == "quick" else 10):
                if tier == "quick" and len(lags) > 1 and T > 6:
                    continue
                for glob in (False, True):
                    if glob and (T > 4 or len(lags) > 1) and tier == "quick":
                        continue
                    for nper in (1, 2):
                        if nper == 2 and T < 2 * period:
                            continue
                        yield "lags=%s,T=%d,global=%s,periods=%d" % (list(lags), T, glob, nper), (lags, T, glob, nper)
        yield "no-lags,T=3", ((), 3, False, 1)

    def build(self, p, st):
        lags, T, glob, nper = st
        ins = OrderedDict(t=T)
        if glob:
            ins["g"] = 2
        ins["a"] = 2
        for l in lags:
            ins["_PREV_" * l + "a"] = 2
        tr = leaf(ins)
        s, pr = SemiringOp("sum"), SemiringOp("prod")
        ns = namespace()
        args = (s, pr, tr, VarP("t", Dm(T)), frozenset(["g"]) if glob else frozenset())
        return Ctx(args=args, kwargs=dict(num_periods=nper), namespace=ns, naive=ns["naive_sarkka_bilmes_product"], st=st)

    def ensures(self, ctx, result):
        lags, T, glob, nper = ctx.st
        expect = ctx.naive(*ctx.args)
        return [("equals_the_naive_counterpart_for_all_contents", same_pt(result, expect))]
