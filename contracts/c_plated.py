"""C09: the plated elimination loop of funsor/sum_product.py (partial_sum_product / sum_product) EXECUTED on abstract factors
over the free commutative semiring (contracts/poly.py): every factor entry is a distinct symbol, products and reductions
build polynomials, and the result is compared -- as a polynomial identity, hence for ALL factor contents and every
commutative semiring -- with the brute-force unrolling of the property statement: replicate every eliminated variable once
per index of the eliminated plates it lives in, multiply all factor instances, sum the copies.
Structure bound: the enumerated plated graphs (<= 3 factors over <= 2 variables and <= 2 plates), ALL sizes fixed to 2
(stated in the evidence: this is a proof for all tensor CONTENTS, bounded in graph shape and sizes).  Graphs the algorithm
rejects (ValueError 'intractable') are declines.  _partition is used through its own contract's real body."""
import itertools
from collections import OrderedDict, defaultdict

from pyvc import core
from pyvc.contract import Contract, Ctx, register
from pyvc.core import Declined, Unsupported

from .poly import ONE, ZERO, Poly

SIZE = 2


class Dm:
    def __init__(self, size):
        self.size = self.dtype = size
        self.shape = ()


class AF:
    """abstract factor: ordered inputs and a function env -> Poly"""

    def __init__(self, inputs, fn, label="f"):
        self.inputs = OrderedDict((k, Dm(SIZE)) for k in inputs)
        self.fn, self.label = fn, label

    def at(self, env):
        return self.fn({k: env[k] for k in self.inputs})

    def reduce(self, op, names):
        if isinstance(names, str):
            names = frozenset([names])
        names = [n for n in self.inputs if n in set(names)]
        if not names:
            return self
        rest = [k for k in self.inputs if k not in names]
        src = self

        def fn(env):
            acc = None
            for vals in itertools.product(range(SIZE), repeat=len(names)):
                e = dict(env)
                e.update(zip(names, vals))
                v = src.at(e)
                acc = v if acc is None else op.combine(acc, v)
            return acc

        return AF(rest, fn, "red")

    def __repr__(self):
        return "%s%s" % (self.label, list(self.inputs))


class SemiringOp:
    def __init__(self, kind):
        self.kind = kind

    def combine(self, a, b):
        return a + b if self.kind == "sum" else a * b

    def __call__(self, f, g):
        ins = list(f.inputs) + [k for k in g.inputs if k not in f.inputs]
        op = self
        return AF(ins, lambda env: op.combine(f.at(env), g.at(env)), "bin")


class FunsorCls:
    @staticmethod
    def __sym_instancecheck__(x):
        return isinstance(x, AF)


def leaf(i, inputs):
    return AF(inputs, lambda env, i=i, inputs=tuple(inputs): Poly.sym("f%d[%s]" % (i, ",".join("%s=%d" % (k, env[k]) for k in inputs))), "f%d" % i)


def brute_force(factors, var_names, plate_names, eliminate, env_free, scales=None):
    """the property's oracle: replicate each eliminated variable per index of the eliminated plates it lives in, multiply all
    factor instances over the indices of their eliminated plates, sum over all copies.  A plate with scale s is unrolled as
    s tiles of itself (index range SIZE * s, the factor entries repeating with period SIZE): 'plate scales act as exponents
    of the plate's product' is then the plain unrolling of the tiled graph."""
    scales = scales or {}
    eplates = [p for p in plate_names if p in eliminate]
    evars = [v for v in var_names if v in eliminate]
    lives = {}
    for v in evars:
        ps = None
        for f in factors:
            if v in f.inputs:
                fp = {p for p in eplates if p in f.inputs}
                ps = fp if ps is None else ps & fp
        lives[v] = sorted(ps or ())
    rng = lambda ps: itertools.product(*[range(SIZE * scales.get(p, 1)) for p in ps])
    copies = [(v, idx) for v in evars if any(v in f.inputs for f in factors) for idx in rng(lives[v])]
    total = ZERO
    for vals in itertools.product(range(SIZE), repeat=len(copies)):
        assign = dict(zip(copies, vals))
        prod = ONE
        for f in factors:
            fplates = [p for p in eplates if p in f.inputs]
            for pidx in rng(fplates):
                pe = dict(zip(fplates, pidx))
                env = dict(env_free)
                env.update({p: i % SIZE for p, i in pe.items()})
                for v in f.inputs:
                    if v in evars:
                        env[v] = assign[(v, tuple(pe[p] for p in lives[v]))]
                prod = prod * f.at(env)
        total = total + prod
    return total


def graphs(tier):
    vs, ps = ["x", "y"], ["i", "j"]
    kinds = []
    for nv in range(0, 3):
        for vsub in itertools.combinations(vs, nv):
            for npl in range(0, 3):
                for psub in itertools.combinations(ps, npl):
                    kinds.append(tuple(vsub) + tuple(psub))
    out = []
    for n in (1, 2, 3):
        for fs in itertools.combinations_with_replacement(range(len(kinds)), n):
            g = tuple(kinds[k] for k in fs)
            used = set(sum(g, ()))
            if n == 3 and tier == "quick" and (len(used) > 3 or any(len(k) > 2 for k in g)):
                continue
            if not any(v in used for v in vs):
                continue
            out.append(g)
    extra = [(("x", "i"), ("y", "j"), ("x", "y", "i", "j")), (("x", "i"), ("x", "y", "i", "j")), (("x",), ("x", "i"), ("x", "y", "i", "j"))]
    for g in extra:  # sibling / nested plate families incl. the classic intractable graph
        if g not in out:
            out.append(g)
    return out


class _Plated(Contract):
    props = ("C09",)
    file = "funsor/sum_product.py"
    max_paths = 50

    def elim_sets(self, g, tier):
        used = sorted(set(sum(g, ())))
        full = frozenset(used)
        yield full
        if tier != "quick" or len(used) <= 3:
            for k in range(1, len(used)):
                for sub in itertools.combinations(used, k):
                    yield frozenset(sub)

    def structures(self, tier):
        for gi, g in enumerate(graphs(tier)):
            for e in self.elim_sets(g, tier):
                yield "factors=%s,eliminate=%s" % (["".join(f) or "-" for f in g], "".join(sorted(e))), (g, tuple(sorted(e)))

    def ns(self):
        loc = core.locate("funsor/sum_product.py", "_partition")
        part, _ = core.make_callable(loc, dict(OrderedDict=OrderedDict, Funsor=FunsorCls, isinstance=core.sisinstance, frozenset=frozenset, tuple=tuple))
        return dict(OrderedDict=OrderedDict, defaultdict=defaultdict, Funsor=FunsorCls, isinstance=core.sisinstance, frozenset=frozenset, tuple=tuple, list=list, set=set, callable=callable,
                    reduce=__import__("functools").reduce, _partition=part, PRODUCT_TO_POWER={}, max=max, min=min, len=len, all=core.sall)


@register
class PartialSumProduct(_Plated):
    """sum_product = product of partial_sum_product(sum_op, prod_op, factors, eliminate, plates): for every enumerated plated
    graph and eliminate set, as a polynomial identity in the factor entries (all contents, every commutative semiring):
    result(free inputs) == brute-force unrolling; a graph that cannot be eliminated exactly raises ValueError."""

    qualname = "partial_sum_product"
    mutants = (
        ("variable's plate set = smallest plate set of its factors", "var_to_ordinal[var] = var_to_ordinal.get(var, ordinal) & ordinal", "var_to_ordinal[var] = min(var_to_ordinal.get(var, ordinal), ordinal, key=len)"),
        ("plates multiplied before the sum", "f = reduce(prod_op, group_factors).reduce(sum_op, group_vars & eliminate)", "f = reduce(prod_op, group_factors).reduce(prod_op, leaf & eliminate).reduce(sum_op, group_vars & eliminate)"),
    )

    def build(self, p, st):
        g, e = st
        factors = [leaf(i, inp) for i, inp in enumerate(g)]
        plates = frozenset(k for k in "ij" if any(k in f for f in g))
        return Ctx(args=(SemiringOp("sum"), SemiringOp("prod"), factors, frozenset(e), plates), namespace=self.ns(), g=g, e=frozenset(e), factors=factors, plates=plates)

    def may_raise(self, ctx, etype):
        return etype == "ValueError"  # intractable graphs / invalid eliminate sets are rejected, never evaluated wrongly

    def allow_vacuous(self, st):
        return True

    def ensures(self, ctx, result):
        res = list(result)
        free = sorted(set(sum(ctx.g, ())) - ctx.e)
        ok = True
        for vals in itertools.product(range(SIZE), repeat=len(free)):
            env = dict(zip(free, vals))
            got = ONE
            for r in res:
                got = got * r.at({k: env[k] for k in r.inputs})
            exp = brute_force(ctx.factors, ["x", "y"], ["i", "j"], ctx.e, env)
            if not got == exp:
                ok = False
                break
        leaked = any(k in ctx.e for r in res for k in r.inputs)
        return [("equals_brute_force_unrolling_for_all_factor_contents", ok), ("eliminated_names_do_not_survive", not leaked)]


class PowOp:
    """pow_op(f, n): the n-fold product of f with itself, pointwise (n a positive integer)"""

    def __call__(self, f, n):
        if not (isinstance(n, int) and n >= 1):
            raise Unsupported("plate scale %r" % (n,))

        def fn(env):
            v = f.at(env)
            acc = v
            for _ in range(n - 1):
                acc = acc * v
            return acc

        return AF(list(f.inputs), fn, "pow")


@register
class PartialSumProductScaled(_Plated):
    """partial_sum_product with plate_to_scale (integer scales): 'plate scales act as exponents of the plate's product' -- for
    every listed plated graph, scale map and eliminate set, as a polynomial identity in the factor entries, the result equals the
    brute-force unrolling of the TILED graph (a plate of size n and scale s unrolled as n*s indices, factor entries repeating
    with period n, every variable inside the plate replicated per tile index).  Scales of plates that are not eliminated
    have no effect.  structure bound: the listed graphs (a global variable, observation factors in one and two scaled plates,
    local variables in one and two plates), scales 2 and 3, at most 12 replicated variable copies."""

    qualname = "partial_sum_product"
    mutants = (
        ("scales of jointly eliminated plates added instead of multiplied (seeded C09_scales_added)", "                        scale = reduce(ops.mul, f_scales)\n                        f = pow_op(f, scale)\n                results.append(f)", "                        scale = reduce(ops.add, f_scales)\n                        f = pow_op(f, scale)\n                results.append(f)"),
        ("scale dropped when a factor moves to a lower ordinal", "                    if f_scales:\n                        scale = reduce(ops.mul, f_scales)\n                        f = pow_op(f, scale)\n                ordinal_to_factors[new_plates].append(f)", "                ordinal_to_factors[new_plates].append(f)"),
    )

    GRAPHS = (
        (("x",), ("x", "i"), ("i", "j")),
        (("x",), ("x", "i", "j")),
        (("x",), ("x", "i"), ("x", "y", "i")),
        (("x", "i"), ("y", "i", "j")),
        (("y", "i", "j"),),
        (("x",), ("x", "y", "i"), ("y", "i", "j")),
        (("x", "i"), ("x", "j")),
    )
    SCALES = ({"i": 2}, {"j": 3}, {"i": 2, "j": 3}, {"i": 3, "j": 2}, {"i": 2, "j": 2})

    def structures(self, tier):
        for g in self.GRAPHS:
            used = sorted(set(sum(g, ())))
            for sc in self.SCALES:
                if any(p not in used for p in sc):
                    continue
                elims = [frozenset(used)]
                if "x" in used and all("x" in f or not (set(f) & {"x", "y"}) for f in g if "x" in f):
                    elims.append(frozenset(used) - {"x"})
                if "j" in used and "i" in used:
                    elims.append(frozenset(used) - {"j"} - {v for v in "xy" if any(v in f and "j" in f for f in g)})
                for e in elims:
                    copies = 0
                    for v in "xy":
                        if v in e:
                            fs = [set(f) for f in g if v in f]
                            if fs:
                                lives = set.intersection(*[f & {"i", "j"} & e for f in fs])
                                n = 1
                                for p_ in lives:
                                    n *= SIZE * sc.get(p_, 1)
                                copies += n
                    if copies > (10 if tier == "quick" else 13):
                        continue
                    yield "factors=%s,scales=%s,eliminate=%s" % (["".join(f) or "-" for f in g], ",".join("%s:%d" % kv for kv in sorted(sc.items())), "".join(sorted(e))), (g, tuple(sorted(e)), tuple(sorted(sc.items())))

    def build(self, p, st):
        g, e, sc = st
        factors = [leaf(i, inp) for i, inp in enumerate(g)]
        plates = frozenset(k for k in "ij" if any(k in f for f in g))
        ns = self.ns()

        class Ops:
            mul = staticmethod(lambda a, b: a * b)
            add = staticmethod(lambda a, b: a + b)

        ns["ops"] = Ops
        return Ctx(args=(SemiringOp("sum"), SemiringOp("prod"), factors, frozenset(e), plates), kwargs=dict(pow_op=PowOp(), plate_to_scale=dict(sc)), namespace=ns, g=g, e=frozenset(e), factors=factors, plates=plates, scales=dict(sc))

    def may_raise(self, ctx, etype):
        return etype == "ValueError"

    def allow_vacuous(self, st):
        return True

    def ensures(self, ctx, result):
        res = list(result)
        free = sorted(set(sum(ctx.g, ())) - ctx.e)
        ok = True
        eff = {p_: s_ for p_, s_ in ctx.scales.items() if p_ in ctx.e}
        for vals in itertools.product(range(SIZE), repeat=len(free)):
            env = dict(zip(free, vals))
            got = ONE
            for r in res:
                got = got * r.at({k: env[k] for k in r.inputs})
            exp = brute_force(ctx.factors, ["x", "y"], ["i", "j"], ctx.e, env, eff)
            if not got == exp:
                ok = False
                break
        return [("equals_the_unrolling_of_the_tiled_graph_for_all_factor_contents", ok)]


class _Variant(_Plated):
    """the modified / dynamic variants with EMPTY Markov steps (every plate passed with an empty step collection) compute the
    same plated sum-product; graphs they cannot eliminate exactly must raise ValueError -- never return a number."""

    def build(self, p, st):
        g, e = st
        factors = [leaf(i, inp) for i, inp in enumerate(g)]
        plates = [k for k in "ij" if any(k in f for f in g)]
        p2s = {k: frozenset() for k in plates}
        ns = self.ns()
        ns.update(dict=dict, next=next, iter=iter, Variable=lambda *a: (_ for _ in ()).throw(Unsupported("markov branch")), funsor=None, _shift_name=None, _get_shift=None, sarkka_bilmes_product=None, MarkovProduct=None)
        return Ctx(args=(SemiringOp("sum"), SemiringOp("prod"), factors, frozenset(e), p2s), namespace=ns, g=g, e=frozenset(e), factors=factors)

    def may_raise(self, ctx, etype):
        return etype == "ValueError"

    def allow_vacuous(self, st):
        return True

    ensures = PartialSumProduct.ensures


@register
class ModifiedPartialSumProduct(_Variant):
    __doc__ = "modified_partial_sum_product: " + _Variant.__doc__
    qualname = "modified_partial_sum_product"
    mutants = (("product taken over plates that are not eliminated (the pinned-tree defect)", "f = f.reduce(prod_op, (leaf - new_plates - markov_prod_vars) & prod_vars)", "f = f.reduce(prod_op, leaf - new_plates - markov_prod_vars)"), ("intractability judged by the largest plate set only", "                new_plates = frozenset().union(\n                    *(var_to_ordinal[v] for v in remaining_sum_vars)\n                )\n                if new_plates == leaf:\n                    raise ValueError(\"intractable!\")", "                new_plates = max((var_to_ordinal[v] for v in remaining_sum_vars), key=len)\n                if new_plates == leaf:\n                    raise ValueError(\"intractable!\")"),)


@register
class DynamicPartialSumProduct(_Variant):
    __doc__ = "dynamic_partial_sum_product: " + _Variant.__doc__
    qualname = "dynamic_partial_sum_product"


@register
class PartialSumProductTwoCalls(_Plated):
    """partial_sum_product applied in two successive calls (eliminate E1, then E2 on the returned factors) equals the one-shot
    unrolling over E1 | E2, for every VALID split of the eliminate set (pedantic=True: a call that would eliminate a plate
    containing a preserved variable raises ValueError instead)."""

    qualname = "partial_sum_product"

    def structures(self, tier):
        for g in graphs("quick"):
            used = sorted(set(sum(g, ())))
            if len(g) > 2 and tier == "quick":
                continue
            for k in range(1, len(used)):
                for e1 in itertools.combinations(used, k):
                    e2 = tuple(x for x in used if x not in e1)
                    if not self.valid_first(g, e1):
                        continue
                    yield "factors=%s,first=%s,then=%s" % (["".join(f) or "-" for f in g], "".join(e1), "".join(e2)), (g, e1, e2)

    @staticmethod
    def valid_first(g, e1):
        """a variable may be summed out in the first call only together with every plate that separates it from one of its
        factors (otherwise the copies of that factor stay coupled through the variable and the split is not an elimination
        order of the unrolled graph)"""
        plates = {"i", "j"}
        for v in e1:
            if v in plates:
                continue
            fs = [set(f) for f in g if v in f]
            lives = set.intersection(*[f & plates for f in fs]) if fs else set()
            for f in fs:
                if not ((f & plates) - lives) <= set(e1):
                    return False
        return True

    def build(self, p, st):
        g, e1, e2 = st
        factors = [leaf(i, inp) for i, inp in enumerate(g)]
        plates = frozenset(k for k in "ij" if any(k in f for f in g))
        # pedantic=True: a first call that would eliminate a plate containing a preserved variable is rejected (ValueError)
        return Ctx(args=(SemiringOp("sum"), SemiringOp("prod"), factors, frozenset(e1), plates, True), namespace=self.ns(), g=g, e1=frozenset(e1), e2=frozenset(e2), factors=factors, plates=plates)

    def may_raise(self, ctx, etype):
        return etype == "ValueError"

    def allow_vacuous(self, st):
        return True

    def ensures(self, ctx, result):
        try:
            second = ctx.entry(SemiringOp("sum"), SemiringOp("prod"), list(result), ctx.e2, ctx.plates, True)
        except Declined:
            return []  # the second call rejects the intermediate graph: a decline, not a value
        got = ONE
        for r in second:
            if r.inputs:
                return [("fully_eliminated", False)]
            got = got * r.at({})
        exp = brute_force(ctx.factors, ["x", "y"], ["i", "j"], ctx.e1 | ctx.e2, {})
        return [("two_calls_equal_the_one_shot_unrolling", got == exp)]
