"""compare a junit xml against /root/.vp/BASELINE.json stable_pass (helper, not a check)"""
import json, sys, xml.etree.ElementTree as ET
base = set(json.load(open('/root/.vp/BASELINE.json'))['stable_pass'])
t = ET.parse(sys.argv[1]); ok=set()
for tc in t.iter('testcase'):
    if not any(c.tag in ('failure','error','skipped') for c in tc):
        ok.add(tc.get('classname')+'::'+tc.get('name'))
print('baseline', len(base), 'passing now', len(ok), 'baseline tests not passing now:', sorted(base-ok)[:20])
