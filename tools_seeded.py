#!/usr/bin/env python3
"""tools_seeded.py add <prop> <name> <patch.diff> <demo.py> [--needs "..."]   import a seeded change into /verif/seeded/<name>/
   tools_seeded.py run [<name> ...] [--rtc]                                    apply each seeded change to /repo, run its property's check, undo
(helper for the build; every change is applied with `git -C /repo apply` and undone with `git -C /repo checkout -- .`)"""
import json, os, shutil, subprocess, sys, time
HERE = os.path.dirname(os.path.abspath(__file__))
SEED = os.path.join(HERE, "seeded")
PY = "/venv/bin/python"

def sh(cmd, **kw):
    return subprocess.run(cmd, shell=True, capture_output=True, text=True, **kw)

def clean():
    sh("git -C /repo checkout -- .")
    assert sh("git -C /repo status --porcelain").stdout.strip() == "", "repo not clean"

def demo(path, repo="/repo"):
    r = sh("cd /tmp && PYTHONPATH=%s %s %s" % (repo, PY, path), timeout=600)
    return r.returncode, (r.stdout + r.stderr)[-1500:]

def add(prop, name, patch, demo_py, needs=""):
    d = os.path.join(SEED, name)
    os.makedirs(d, exist_ok=True)
    shutil.copy(patch, os.path.join(d, "patch.diff"))
    src = open(demo_py).read().splitlines(True)
    # the author's demo pins the scratch worktree path; here it runs against /repo with the patch applied
    src = [l for l in src if not ("funsor.__file__" in l and ("assert" in l or "startswith" in l))]
    open(os.path.join(d, "demo.py"), "w").write("".join(src))
    if "--scratch" in sys.argv:
        wt = "/tmp/seeded_wt"
        sh("git -C /repo worktree remove --force %s" % wt)
        sh("git -C /repo worktree add --detach %s HEAD -f" % wt)
        rc0, out0 = demo(os.path.join(d, "demo.py"), wt)
        a = sh("git -C %s apply %s" % (wt, os.path.join(d, "patch.diff")))
        assert a.returncode == 0, a.stderr
        rc1, out1 = demo(os.path.join(d, "demo.py"), wt)
        sh("git -C /repo worktree remove --force %s" % wt)
    else:
        clean()
        rc0, out0 = demo(os.path.join(d, "demo.py"))
        a = sh("git -C /repo apply %s" % os.path.join(d, "patch.diff"))
        assert a.returncode == 0, a.stderr
        try:
            rc1, out1 = demo(os.path.join(d, "demo.py"))
        finally:
            clean()
    meta = dict(property=prop, needs=needs, demo_exit_without_change=rc0, demo_exit_with_change=rc1, demo_output_with_change=out1[-600:],
                ran=["demo.py with and without the patch on /repo (PYTHONPATH=/repo)", "full test suite with the patch in the author's scratch worktree: same pass count as clean (reported by the author, spot-checked)"], checks={})
    json.dump(meta, open(os.path.join(d, "meta.json"), "w"), indent=1)
    print(name, "demo without:", rc0, "with:", rc1)

def run(names, rtc=False, scratch=False):
    for name in names or sorted(os.listdir(SEED)):
        d = os.path.join(SEED, name)
        if not os.path.exists(os.path.join(d, "meta.json")):
            continue
        meta = json.load(open(os.path.join(d, "meta.json")))
        if scratch:
            # same procedure on a scratch worktree of /repo's HEAD (so that /repo stays usable while this runs); the checks
            # read the repository through VERIF_REPO and write evidence / replays to a scratch directory
            slot = os.environ.get("SEEDED_SLOT", "")  # several runs side by side: one worktree / output dir per slot
            wt = "/tmp/seeded_wt" + slot
            sh("git -C /repo worktree remove --force %s" % wt)
            sh("git -C /repo worktree add --detach %s HEAD -f" % wt)
            a = sh("git -C %s apply %s" % (wt, os.path.join(d, "patch.diff")))
            env = "VERIF_REPO=%s VERIF_EVIDENCE_DIR=/tmp/seeded_out%s/evidence VERIF_REPLAY_DIR=/tmp/seeded_out%s/replays " % (wt, slot, slot)
        else:
            clean()
            a = sh("git -C /repo apply %s" % os.path.join(d, "patch.diff"))
            env = ""
        if a.returncode != 0:
            print(name, "PATCH DOES NOT APPLY", a.stderr[:200]); continue
        t = time.time()
        try:
            r = sh("cd %s && %s./check.py %s %s" % (HERE, env, meta["property"], "" if rtc else "--no-rtc"), timeout=3600)
        finally:
            if scratch:
                sh("git -C /repo worktree remove --force %s" % wt)
            else:
                clean()
        lines = [l for l in r.stdout.splitlines() if l.startswith(("VIOLATION", "UNDECIDED", "SELFTEST", "CHECKER"))]
        verdict = {0: "MISSED (exit 0)", 1: "DETECTED (exit 1)", 2: "UNDECIDED (exit 2)", 3: "CHECKER-ERROR (exit 3)"}.get(r.returncode, str(r.returncode))
        meta["checks"]["rtc" if rtc else "proof-only"] = dict(verdict=verdict, wall_s=round(time.time() - t, 1), lines=[l[:300] for l in lines[:6]])
        json.dump(meta, open(os.path.join(d, "meta.json"), "w"), indent=1)
        print("%-28s %-8s %-22s %s" % (name, meta["property"], verdict, (lines[0][:160] if lines else "")))
    # restore evidence / replays produced on the mutated tree (the scratch mode wrote them elsewhere)
    if not scratch:
        sh("cd %s && git checkout -- evidence replays 2>/dev/null; git clean -fdq replays" % HERE)

def table():
    rows = ["| seeded change | property | needs | proof tier alone | with bounded tier | first line reported |", "|---|---|---|---|---|---|"]
    for name in sorted(os.listdir(SEED)):
        p = os.path.join(SEED, name, "meta.json")
        if not os.path.exists(p):
            continue
        m = json.load(open(p))
        pr = m["checks"].get("proof-only", {})
        rt = m["checks"].get("rtc", {})
        line = (pr.get("lines") or rt.get("lines") or [""])[0]
        line = line.split("replay=")[-1].split("/")[-1][:70] if line else ""
        rows.append("| `%s` | %s | %s | %s | %s | %s |" % (name, m["property"], m.get("needs", "")[:110], pr.get("verdict", "-"), rt.get("verdict", "-"), line))
    print("\n".join(rows))


if __name__ == "__main__":
    if sys.argv[1] == "table":
        table()
    elif sys.argv[1] == "add":
        needs = sys.argv[sys.argv.index("--needs") + 1] if "--needs" in sys.argv else ""
        add(sys.argv[2], sys.argv[3], sys.argv[4], sys.argv[5], needs)
    else:
        rtc = "--rtc" in sys.argv
        run([a for a in sys.argv[2:] if not a.startswith("--")], rtc, scratch="--scratch" in sys.argv)
